"""C20 - logging is observationally transparent: NON-INTERFERENCE obligations by syntactic frame analysis.

Back end: "syntactic frame analysis" - a conservative syntactic / dataflow analysis of the AST of the CURRENT source (no
SMT reasoning is involved; every obligation's `goal` is the z3 constant `True` / `False` of the verdict so that the normal
driver machinery solves, counts, reports and replays it).  A construct the analysis cannot classify is NEVER accepted: it
makes the obligation `undecided` (tainted, goal False) or `refuted`.

qual forms (plugged into engine/driver.py and engine/pyvc/cli.py like "lemma::"):
    logblocks::<rel.py>      every logger-guarded block of that file, enumerated on every run (nothing is hand-listed)
    logblocks::quic/logger.py  the qlog encoders: frame / totality / JSON-typedness of every method of the logger classes
    logblocks::@rest         no other file of the package mentions logger-owned state

The relational property (run with logger  ~  run without logger agree on every location outside L) is reduced to:

  logger-owned locations L =  * the attribute `_quic_logger` (the handle: written in __init__ / _close_end only)
                              * every attribute or local variable named `quic_logger_frames`
                              * the trace's own state, reached ONLY through H.log_event(..) (H = the handle)
                              * the QuicLogger's own state, reached only through <cfg>.quic_logger.start_trace/end_trace
                              * the secrets log file, reached only through the local `secrets_log_file` (.write/.flush)
                              * locals bound inside a guarded block that occur nowhere else in the function

  per guarded block B (an `if` whose test is `H is not None` [and <pure conjuncts>], `if <cfg>.quic_logger:`,
  `if secrets_log_file is not None:`):
    .frame  (L1)  B has no else branch; every statement of B writes only L; B contains no return / break / continue /
                  raise / loop / try / with; no local bound in B occurs outside B; every call in B is a logger sink, an
                  encoder, or a function of the package whose WHOLE body passes the same analysis (callees are followed,
                  all same-named definitions, depth <= 4) and - where its result is mutated - returns a fresh container
    .total  (L2)  no expression of B can raise, by a grammar of total forms UNDER THE TYPING ASSUMPTION T (names and
                  attribute chains denote values of their declared types; reading an attribute does not raise): constants,
                  names that are definitely assigned (forward dataflow over the function), attribute reads, displays,
                  comparisons, +,-,* , `"fmt" % tuple` with only %s/%d.. and matching arity, len/int/isinstance, hexlify +
                  .decode("ascii"), bytes.hex(), <dict display>.get, subscripts of module-level constant tables whose index
                  ranges are decided from enum members / bools.  `.decode` with any other codec, other subscripts, asserts,
                  division, unknown calls are NOT total.
  per function F of the file:
    .outside (L4) outside the guarded blocks, a logger-owned name occurs only (i) in the guard test, (ii) as the value of a
                  keyword argument of the same name / `quic_logger=` (passing the object along), (iii) in a copy between
                  logger-owned locations or an initialisation with None / [], (iv) as a parameter / field declaration
    .callsites    a function that dereferences the handle without a guard of its own (e.g. _log_metrics_updated) is called
                  only from inside guarded blocks, and its body is analysed as a block (.frame / .total)
  per file:  .inventory  the number of NAME tokens equal to a logger-owned name (tokenize) equals the number of AST
                  occurrences that were classified - nothing escapes the walk (decorators, lambdas, nested defs)
"""
from __future__ import annotations

import ast
import builtins
import hashlib
import io
import os
import tokenize

HANDLE = "_quic_logger"
FRAMES = "quic_logger_frames"
CFGLOG = "quic_logger"
SECRETS = "secrets_log_file"
OWNED = {HANDLE, FRAMES, CFGLOG, SECRETS}
BLOCK_FILES = ["quic/connection.py", "quic/recovery.py", "quic/packet_builder.py", "h3/connection.py"]
LOGGER_FILE = "quic/logger.py"
LOGGER_CLASSES = ("QuicLoggerTrace", "QuicLogger")  # QuicFileLogger (file output) is trusted, see PROPS["C20"]
MAX_DEPTH = 4
BUILTINS = set(dir(builtins))


def _src():
    return os.environ.get("AIOQUIC_SRC", "/repo/src/aioquic")


# --------------------------------------------------------------------------------------------------------- source tree
class Mod:
    def __init__(self, rel, path):
        self.rel = rel
        self.text = open(path).read()
        self.tree = ast.parse(self.text)
        for parent in ast.walk(self.tree):
            for ch in ast.iter_child_nodes(parent):
                ch._parent = parent
        self.tree._parent = None
        self.names = set()  # names bound at module level
        self.consts = {}
        for st in self.tree.body:
            if isinstance(st, (ast.Import, ast.ImportFrom)):
                for a in st.names:
                    self.names.add((a.asname or a.name).split(".")[0])
            elif isinstance(st, (ast.FunctionDef, ast.AsyncFunctionDef, ast.ClassDef)):
                self.names.add(st.name)
            elif isinstance(st, (ast.Assign, ast.AnnAssign)):
                tg = st.targets if isinstance(st, ast.Assign) else [st.target]
                for t in tg:
                    if isinstance(t, ast.Name):
                        self.names.add(t.id)
                        if st.value is not None:
                            self.consts[t.id] = st.value
            elif isinstance(st, (ast.If, ast.Try)):
                for n in ast.walk(st):
                    if isinstance(n, ast.Name) and isinstance(n.ctx, ast.Store):
                        self.names.add(n.id)
                    elif isinstance(n, (ast.Import, ast.ImportFrom)):
                        for a in n.names:
                            self.names.add((a.asname or a.name).split(".")[0])
        self.funcs = []  # (qualname, FunctionDef, ClassDef | None)
        for st in self.tree.body:
            if isinstance(st, (ast.FunctionDef, ast.AsyncFunctionDef)):
                self.funcs.append((st.name, st, None))
            elif isinstance(st, ast.ClassDef):
                for s2 in st.body:
                    if isinstance(s2, (ast.FunctionDef, ast.AsyncFunctionDef)):
                        self.funcs.append(("%s.%s" % (st.name, s2.name), s2, st))


class Tree:
    def __init__(self, src=None):
        self.src = src or _src()
        self.mods = {}
        for root, dirs, files in os.walk(self.src):
            dirs.sort()
            for f in sorted(files):
                if f.endswith(".py"):
                    p = os.path.join(root, f)
                    rel = os.path.relpath(p, self.src)
                    self.mods[rel] = Mod(rel, p)
        # .pyi stubs of the C extensions: DECLARED types only (used by the JSON shape inference, never followed as code)
        self.stub_classes = {}  # class name -> {"props": {name: annotation}, "methods": {name: annotation}}
        for root, dirs, files in os.walk(self.src):
            for f in sorted(files):
                if f.endswith(".pyi"):
                    try:
                        st_tree = ast.parse(open(os.path.join(root, f)).read())
                    except SyntaxError:
                        continue
                    for st in st_tree.body:
                        if isinstance(st, ast.ClassDef):
                            d = self.stub_classes.setdefault(st.name, {"props": {}, "methods": {}})
                            for s2 in st.body:
                                if isinstance(s2, ast.FunctionDef):
                                    isp = any(isinstance(x, ast.Name) and x.id == "property" for x in s2.decorator_list)
                                    d["props" if isp else "methods"][s2.name] = s2.returns
        self.defs = {}  # function / method name -> [(mod, qualname, fn, cls)]
        self.props = {}  # property name -> [(mod, qualname, fn, cls)]
        self.enums = {}  # class name -> {member: value}
        self.field_ann = {}  # attribute name -> [annotation text] from class-level AnnAssign and `self.x: T = ..`
        self.class_ann = {}  # class name -> {field: annotation node}
        for m in self.mods.values():
            for q, fn, cls in m.funcs:
                is_prop = any(isinstance(d, ast.Name) and d.id == "property" for d in fn.decorator_list)
                (self.props if is_prop else self.defs).setdefault(fn.name, []).append((m, q, fn, cls))
            for st in m.tree.body:
                if isinstance(st, ast.ClassDef):
                    bases = [b.id if isinstance(b, ast.Name) else getattr(b, "attr", "") for b in st.bases]
                    ann = self.class_ann.setdefault(st.name, {})
                    for s2 in st.body:
                        if isinstance(s2, ast.AnnAssign) and isinstance(s2.target, ast.Name):
                            ann[s2.target.id] = s2.annotation
                    if any(b in ("Enum", "IntEnum", "IntFlag") for b in bases):
                        mem = {}
                        for s2 in st.body:
                            if isinstance(s2, ast.Assign) and len(s2.targets) == 1 and isinstance(s2.targets[0], ast.Name):
                                try:
                                    mem[s2.targets[0].id] = ast.literal_eval(s2.value)
                                except Exception:
                                    mem[s2.targets[0].id] = None
                        self.enums[st.name] = mem
                    for n in ast.walk(st):
                        if isinstance(n, ast.AnnAssign) and isinstance(n.target, ast.Attribute) and isinstance(n.target.value, ast.Name) and n.target.value.id == "self":
                            ann.setdefault(n.target.attr, n.annotation)


class Findings:
    """V = the obligation is violated (a definite non-logger write, an escaping control transfer, a form that can raise);
    U = the analysis cannot classify the construct (undecided).  Either way the obligation is not discharged."""

    def __init__(self):
        self.items = []

    def v(self, node, msg):
        self.items.append(("V", getattr(node, "lineno", 0), msg))

    def u(self, node, msg):
        self.items.append(("U", getattr(node, "lineno", 0), msg))

    def extend(self, other, via):
        for sev, ln, msg in other.items:
            self.items.append((sev, ln, "%s -> %s" % (via, msg)))

    @property
    def verdict(self):
        if any(s == "V" for s, _l, _m in self.items):
            return "violated"
        return "undecided" if self.items else "ok"

    def text(self):
        return "; ".join("%s line %s: %s" % (s, ln, m) for s, ln, m in self.items[:6]) + (" ... (+%d)" % (len(self.items) - 6) if len(self.items) > 6 else "")


def _txt(node, n=70):
    try:
        s = " ".join(ast.unparse(node).split())
    except Exception:
        s = "<%s>" % type(node).__name__
    return s if len(s) <= n else s[: n - 3] + "..."


# ------------------------------------------------------------------------------------------------ definite assignment
def _targets(t, out):
    if isinstance(t, ast.Name):
        out.add(t.id)
    elif isinstance(t, (ast.Tuple, ast.List)):
        for e in t.elts:
            _targets(e, out)
    elif isinstance(t, ast.Starred):
        _targets(t.value, out)


def definite_assignment(fn):
    """forward 'definitely assigned' analysis over the statements of `fn`: returns {id(stmt): frozenset(names bound on
    EVERY path reaching stmt)}.  None as a flow value = unreachable (after return / raise / break / continue).  Loop
    bodies are entered with the names bound before the loop (first iteration), loops contribute nothing after them; a
    try body contributes nothing to its handlers."""
    before = {}
    a = fn.args
    init = {x.arg for x in a.posonlyargs + a.args + a.kwonlyargs}
    if a.vararg:
        init.add(a.vararg.arg)
    if a.kwarg:
        init.add(a.kwarg.arg)

    def meet(x, y):
        if x is None:
            return y
        if y is None:
            return x
        return x & y

    def walk(stmts, cur):
        for st in stmts:
            if cur is None:
                before[id(st)] = None
                # still record nested statements as unreachable
                for n in ast.walk(st):
                    if isinstance(n, ast.stmt):
                        before.setdefault(id(n), None)
                continue
            before[id(st)] = frozenset(cur)
            if isinstance(st, ast.Assign):
                s = set(cur)
                for t in st.targets:
                    _targets(t, s)
                cur = s
            elif isinstance(st, ast.AnnAssign):
                if st.value is not None:
                    s = set(cur)
                    _targets(st.target, s)
                    cur = s
            elif isinstance(st, ast.AugAssign):
                pass
            elif isinstance(st, (ast.For, ast.AsyncFor)):
                s = set(cur)
                _targets(st.target, s)
                walk(st.body, s)
                after = walk(st.orelse, set(cur)) if st.orelse else cur
                cur = meet(set(cur), after) if after is not None else set(cur)
            elif isinstance(st, ast.While):
                walk(st.body, set(cur))
                if st.orelse:
                    walk(st.orelse, set(cur))
                cur = set(cur)
            elif isinstance(st, ast.If):
                x = walk(st.body, set(cur))
                y = walk(st.orelse, set(cur)) if st.orelse else set(cur)
                cur = meet(x, y)
                if x is None and y is None:
                    cur = None
            elif isinstance(st, (ast.With, ast.AsyncWith)):
                s = set(cur)
                for it in st.items:
                    if it.optional_vars is not None:
                        _targets(it.optional_vars, s)
                r = walk(st.body, s)
                cur = r if r is not None else set(cur)  # a context manager may swallow the exception: be conservative
            elif isinstance(st, ast.Try):
                r = walk(st.body, set(cur))
                if st.orelse:
                    r = walk(st.orelse, set(r)) if r is not None else None
                out = r
                for h in st.handlers:
                    s = set(cur)
                    if h.name:
                        s.add(h.name)
                    out = meet(out, walk(h.body, s)) if True else out
                if st.finalbody:
                    f = walk(st.finalbody, set(cur))
                    if f is None:
                        out = None
                    elif out is not None:
                        out = set(out) | (set(f) - set(cur))
                cur = out
            elif isinstance(st, (ast.Return, ast.Raise, ast.Break, ast.Continue)):
                cur = None
            elif isinstance(st, (ast.FunctionDef, ast.AsyncFunctionDef, ast.ClassDef)):
                cur = set(cur) | {st.name}
            elif isinstance(st, (ast.Import, ast.ImportFrom)):
                cur = set(cur) | {(x.asname or x.name).split(".")[0] for x in st.names}
            elif hasattr(ast, "Match") and isinstance(st, ast.Match):
                for c in st.cases:
                    walk(c.body, set(cur))
            # Expr, Assert, Delete, Pass, Global, Nonlocal: no new binding (walrus targets are ignored: conservative)
        return cur

    walk(fn.body, set(init))
    return before


# -------------------------------------------------------------------------------------------------------- recognisers
def is_handle(e):
    """H: <pure chain>._quic_logger"""
    return isinstance(e, ast.Attribute) and e.attr == HANDLE and is_chain(e.value)


def is_chain(e):
    while isinstance(e, ast.Attribute):
        e = e.value
    return isinstance(e, ast.Name)


def is_cfg_logger(e):
    """<pure chain>.quic_logger  (the QuicLogger object of the configuration)"""
    return isinstance(e, ast.Attribute) and e.attr == CFGLOG and is_chain(e.value)


def _is_not_none(e, pred):
    return isinstance(e, ast.Compare) and len(e.ops) == 1 and isinstance(e.ops[0], ast.IsNot) and isinstance(e.comparators[0], ast.Constant) and e.comparators[0].value is None and pred(e.left)


def guard_of(node):
    """None, or (kind, [conjuncts evaluated only when the guard holds]) for an `if` statement that is a logger guard"""
    if not isinstance(node, ast.If):
        return None
    t = node.test
    conj = t.values if isinstance(t, ast.BoolOp) and isinstance(t.op, ast.And) else [t]
    for i, c in enumerate(conj):
        if _is_not_none(c, is_handle):
            return ("handle", conj[i + 1:], c)
        if _is_not_none(c, lambda x: isinstance(x, ast.Name) and x.id == SECRETS):
            return ("secrets", conj[i + 1:], c)
        if is_cfg_logger(c):
            return ("setup", conj[i + 1:], c)
    return None


def _enclosing_function(node):
    p = getattr(node, "_parent", None)
    while p is not None and not isinstance(p, (ast.FunctionDef, ast.AsyncFunctionDef)):
        p = getattr(p, "_parent", None)
    return p


def _inside(node, container):
    """node is (strictly) inside the BODY of the guard `container` or one of the conjuncts after the guard test"""
    g = guard_of(container)
    roots = list(container.body) + list(g[1])
    p = node
    while p is not None:
        if any(p is r for r in roots):
            return True
        if p is container:
            return False
        p = getattr(p, "_parent", None)
    return False


# ------------------------------------------------------------------------------------------------------- the analysis
class Scope:
    """one function being analysed (the function holding a guarded block, or a callee followed from a block)"""

    def __init__(self, ana, mod, fn, cls, depth):
        self.ana, self.mod, self.fn, self.cls, self.depth = ana, mod, fn, cls, depth
        self.before = definite_assignment(fn)
        self.fresh = set()  # local names bound (only) to fresh containers
        self.bound = set()  # names bound by the statements analysed (block temporaries)
        self.helper = False
        self.local_comp = set()
        self.loop_depth = 0

    def unbound(self, name, st):
        if name in self.mod.names or name in BUILTINS:
            return False
        b = self.before.get(id(st))
        if b is None:
            return id(st) not in self.before  # unreachable statement: anything goes; unknown statement: be conservative
        return name not in b and name not in self.local_comp


class Analysis:
    def __init__(self, tree: Tree):
        self.tree = tree
        self.helper_cache = {}
        self.cycles = set()
        self._fresh_busy = set()
        self.modular_cls = None  # logger.py: calls self.m(..) to methods of the class under analysis have their own obligations

    # ---- expressions: pure and total
    def pure(self, e, sc, st, F, T, comp=()):
        """e is evaluated inside a guarded block: it must not write anything (F) and must not raise (T)"""
        P = lambda x: self.pure(x, sc, st, F, T, comp)  # noqa: E731
        if e is None or isinstance(e, ast.Constant):
            return
        if isinstance(e, ast.Name):
            if e.id in comp:
                return
            sc.local_comp = set(comp)
            if sc.unbound(e.id, st):
                T.u(e, "name `%s` is not definitely assigned before the block" % e.id)
            return
        if isinstance(e, ast.Attribute):
            P(e.value)
            for m, q, fn, cls in self.tree.props.get(e.attr, []):
                F2, T2 = self.helper(m, q, fn, cls, sc.depth + 1)
                F.extend(F2, "property %s" % q)
                T.extend(T2, "property %s" % q)
            return
        if isinstance(e, (ast.List, ast.Tuple)):
            for x in e.elts:
                if isinstance(x, ast.Starred):
                    T.u(x, "starred element")
                P(x.value if isinstance(x, ast.Starred) else x)
            return
        if isinstance(e, ast.Dict):
            for k, v in zip(e.keys, e.values):
                if k is None:
                    T.u(v, "** in a dict display")
                else:
                    P(k)
                P(v)
            return
        if isinstance(e, ast.Compare):
            P(e.left)
            for op, c in zip(e.ops, e.comparators):
                P(c)
                if isinstance(op, (ast.In, ast.NotIn)) and not isinstance(c, (ast.Tuple, ast.List, ast.Dict, ast.Constant)):
                    T.u(e, "`in` on a non-literal container (calls __contains__ / __eq__)")
            return
        if isinstance(e, ast.BoolOp):
            for x in e.values:
                P(x)
            return
        if isinstance(e, ast.UnaryOp):
            P(e.operand)
            return
        if isinstance(e, ast.IfExp):
            P(e.test), P(e.body), P(e.orelse)
            return
        if isinstance(e, ast.BinOp):
            P(e.left), P(e.right)
            if isinstance(e.op, (ast.Add, ast.Sub, ast.Mult)):
                return  # total on numbers / strings of the declared types (assumption T)
            if isinstance(e.op, ast.Mod) and isinstance(e.left, ast.Constant) and isinstance(e.left.value, str):
                import re

                specs = re.findall(r"%(?:%|[-+ #0]*\d*(?:\.\d+)?[sdrxX])", e.left.value)
                n = sum(1 for s in specs if s != "%%")
                bad = re.sub(r"%(?:%|[-+ #0]*\d*(?:\.\d+)?[sr])", "", e.left.value)
                arity = len(e.right.elts) if isinstance(e.right, ast.Tuple) else 1
                if "%" in bad or n != arity:
                    T.u(e, "string formatting whose conversions are not all %s/%r with matching arity")
                return
            if isinstance(e.op, (ast.Div, ast.FloorDiv, ast.Mod)):
                if isinstance(e.right, ast.Constant) and isinstance(e.right.value, (int, float)) and e.right.value != 0:
                    return
                T.v(e, "division may raise ZeroDivisionError: %s" % _txt(e))
                return
            T.u(e, "operator %s" % type(e.op).__name__)
            return
        if isinstance(e, ast.JoinedStr):
            for x in e.values:
                if isinstance(x, ast.FormattedValue):
                    P(x.value)
                    if x.format_spec is not None:
                        T.u(x, "format spec in an f-string")
            return
        if isinstance(e, ast.Subscript):
            P(e.value)
            P(e.slice)
            if not self.subscript_total(e, sc):
                T.u(e, "subscript %s may raise KeyError / IndexError (not a constant table with a decided index range)" % _txt(e))
            return
        if isinstance(e, ast.ListComp):
            if len(e.generators) != 1 or e.generators[0].ifs or e.generators[0].is_async:
                F.u(e, "comprehension form")
                T.u(e, "comprehension form")
                return
            g = e.generators[0]
            P(g.iter)
            names = set()
            _targets(g.target, names)
            self.pure(e.elt, sc, st, F, T, tuple(comp) + tuple(names))
            return
        if isinstance(e, ast.NamedExpr):
            F.v(e, "assignment expression binds `%s`" % _txt(e.target))
            P(e.value)
            return
        if isinstance(e, ast.Call):
            self.call(e, sc, st, F, T, comp)
            return
        if isinstance(e, ast.Slice):
            P(e.lower), P(e.upper), P(e.step)
            return
        F.u(e, "expression form %s" % type(e).__name__)
        T.u(e, "expression form %s" % type(e).__name__)

    def subscript_total(self, e, sc):
        """T[i] / T[i][j] with T a module-level constant nested list display and index domains decided from (a) a local
        bound once, in this function, to a comparison (bool: 0/1), (b) <param>.value with the parameter annotated by an
        Enum class of the package (member values read from the class)."""
        # t[<constant>] with t of a declared fixed-arity tuple type (assumption T), e.g. h[0] for h in Headers
        if isinstance(e.slice, ast.Constant) and isinstance(e.slice.value, int) and not isinstance(e.slice.value, bool):
            typer = JsonTyper(self.tree, sc.mod, sc.cls)
            bt = typer.ty(e.value, typer.env_of(sc.fn), sc.fn, e)
            if isinstance(bt, tuple) and bt[0] == "tuple" and 0 <= e.slice.value < len(bt[1]):
                return True
        idxs = []
        base = e
        while isinstance(base, ast.Subscript):
            idxs.append(base.slice)
            base = base.value
        idxs.reverse()
        if not isinstance(base, ast.Name) or base.id not in sc.mod.consts:
            return False
        # the constant must not be rebound anywhere in the module
        nstores = sum(1 for n in ast.walk(sc.mod.tree) if isinstance(n, ast.Name) and n.id == base.id and isinstance(n.ctx, (ast.Store, ast.Del)))
        if nstores != 1:
            return False
        tables = [sc.mod.consts[base.id]]
        if len(idxs) == 1 and isinstance(tables[0], ast.Dict) and isinstance(idxs[0], ast.Name):
            # D[p]: D a module-level dict display whose keys are <Enum>.<member> for EVERY member of the Enum class that
            # annotates the (never rebound) parameter p
            a = sc.fn.args
            for p in a.posonlyargs + a.args + a.kwonlyargs:
                if p.arg == idxs[0].id and p.annotation is not None:
                    cname = p.annotation.attr if isinstance(p.annotation, ast.Attribute) else getattr(p.annotation, "id", None)
                    mem = self.tree.enums.get(cname)
                    rebinds = [n for n in ast.walk(sc.fn) if isinstance(n, ast.Name) and n.id == p.arg and isinstance(n.ctx, ast.Store)]
                    keys = set()
                    for k in tables[0].keys:
                        if not (isinstance(k, ast.Attribute) and isinstance(k.value, ast.Name) and k.value.id == cname):
                            return False
                        keys.add(k.attr)
                    return bool(mem) and not rebinds and keys == set(mem)
            return False
        for ix in idxs:
            dom = self.index_domain(ix, sc)
            if dom is None:
                return False
            nxt = []
            for t in tables:
                if not isinstance(t, ast.List):
                    return False
                for i in dom:
                    if not (isinstance(i, int) and 0 <= i < len(t.elts)):
                        return False
                    nxt.append(t.elts[i])
            tables = nxt
        return True

    def index_domain(self, ix, sc):
        if isinstance(ix, ast.Constant) and isinstance(ix.value, int):
            return {int(ix.value)}
        if isinstance(ix, ast.Name):
            stores = [n for n in ast.walk(sc.fn) if isinstance(n, ast.Name) and n.id == ix.id and isinstance(n.ctx, ast.Store)]
            if len(stores) == 1 and isinstance(stores[0]._parent, ast.Assign) and isinstance(stores[0]._parent.value, ast.Compare) and len(stores[0]._parent.targets) == 1:
                cmpn = stores[0]._parent.value
                if all(isinstance(o, (ast.Eq, ast.NotEq, ast.Is, ast.IsNot, ast.Lt, ast.LtE, ast.Gt, ast.GtE)) for o in cmpn.ops) and len(cmpn.ops) == 1:
                    return {0, 1}
            return None
        if isinstance(ix, ast.Attribute) and ix.attr == "value" and isinstance(ix.value, ast.Name):
            a = sc.fn.args
            for p in a.posonlyargs + a.args + a.kwonlyargs:
                if p.arg == ix.value.id and p.annotation is not None:
                    cname = p.annotation.attr if isinstance(p.annotation, ast.Attribute) else getattr(p.annotation, "id", None)
                    mem = self.tree.enums.get(cname)
                    rebinds = [n for n in ast.walk(sc.fn) if isinstance(n, ast.Name) and n.id == p.arg and isinstance(n.ctx, ast.Store)]
                    if mem and not rebinds and all(isinstance(v, int) and not isinstance(v, bool) for v in mem.values()):
                        return set(mem.values())
            return None
        return None

    # ---- calls
    TOTAL_BUILTINS = {"len": 1, "int": 1, "isinstance": 2, "bool": 1, "str": 1, "list": 1}
    # methods of builtin types, total and without effect on their receiver (by name; used only when the package defines no
    # function of that name)
    TOTAL_METHODS = {"hex": 0, "items": 0, "keys": 0, "values": 0}

    def call(self, e, sc, st, F, T, comp):
        P = lambda x: self.pure(x, sc, st, F, T, comp)  # noqa: E731
        args_ok = True
        for a in e.args:
            if isinstance(a, ast.Starred):
                T.u(a, "*args at a call")
                args_ok = False
        for k in e.keywords:
            if k.arg is None:
                T.u(k.value, "**kwargs at a call")
                args_ok = False
        f = e.func
        nargs = len(e.args) + len(e.keywords)

        def eval_args():
            for a in e.args:
                P(a.value if isinstance(a, ast.Starred) else a)
            for k in e.keywords:
                P(k.value)

        # encoders / pure queries of the trace, called on the handle
        if isinstance(f, ast.Attribute) and is_handle(f.value):
            eval_args()
            if f.attr == "log_event":
                F.u(e, "log_event used as an expression")
                return
            m = self.tree.mods.get(LOGGER_FILE)
            ok = m is not None and any(q == "QuicLoggerTrace." + f.attr for q, _fn, _c in m.funcs)
            if not ok:
                F.u(e, "`%s` is not a method of QuicLoggerTrace" % f.attr)
                T.u(e, "`%s` is not a method of QuicLoggerTrace" % f.attr)
            # frame / totality / JSON-typedness of the encoder itself: obligations of logblocks::quic/logger.py (+ pyvc)
            return
        if isinstance(f, ast.Name):
            eval_args()
            if f.id in self.tree.defs and (f.id in sc.mod.names):
                self.follow(e, f.id, sc, F, T, only_module_level=True)
                return
            if f.id in self.TOTAL_BUILTINS and f.id not in sc.mod.names and nargs == self.TOTAL_BUILTINS[f.id] and not e.keywords:
                return
            if f.id == "super" and nargs == 0:
                return
            F.u(e, "call of `%s`: not a function of the package with an analysable body, not a total builtin" % f.id)
            T.u(e, "call of `%s`" % f.id)
            return
        if isinstance(f, ast.Attribute):
            # binascii.hexlify(x)
            if isinstance(f.value, ast.Name) and f.value.id == "binascii" and f.attr == "hexlify" and "binascii" in sc.mod.names and nargs == 1:
                eval_args()
                return
            # <hexlify(..)>.decode("ascii")   - the only accepted use of .decode
            if f.attr == "decode":
                P(f.value)
                eval_args()
                r = f.value
                asc = len(e.args) == 1 and not e.keywords and isinstance(e.args[0], ast.Constant) and e.args[0].value in ("ascii", "utf8", "utf-8", "latin1")
                if isinstance(r, ast.Call) and isinstance(r.func, ast.Attribute) and r.func.attr == "hexlify" and isinstance(r.func.value, ast.Name) and r.func.value.id == "binascii" and asc:
                    return
                strict = not any(k.arg == "errors" for k in e.keywords) and len(e.args) < 2
                if strict and not (len(e.args) == 1 and isinstance(e.args[0], ast.Constant) and e.args[0].value == "latin1"):
                    T.v(e, "%s raises UnicodeDecodeError for byte strings outside the codec (strict error handler)" % _txt(e))
                elif not all(isinstance(a, ast.Constant) for a in e.args) or not all(isinstance(k.value, ast.Constant) and k.value.value in ("replace", "ignore", "backslashreplace", "surrogateescape") for k in e.keywords if k.arg == "errors"):
                    T.u(e, "%s: codec / error handler not a literal known to be total" % _txt(e))
                return
            P(f.value)
            eval_args()
            if self.modular_cls is not None and isinstance(f.value, ast.Name) and f.value.id == "self" and sc.cls is not None and sc.cls.name in self.modular_cls and any(isinstance(x, ast.FunctionDef) and x.name == f.attr for x in sc.cls.body):
                return  # modular: that method's own :frame / :total / :json obligations
            if isinstance(f.value, ast.Dict) and f.attr == "get" and 1 <= nargs <= 2 and not e.keywords:
                return
            if f.attr in self.tree.defs:
                is_super = isinstance(f.value, ast.Call) and isinstance(f.value.func, ast.Name) and f.value.func.id == "super" and not f.value.args
                self.follow(e, f.attr, sc, F, T, skip_cls=sc.cls if is_super else None)
                return
            if f.attr in self.TOTAL_METHODS and nargs == self.TOTAL_METHODS[f.attr]:
                return
            F.u(e, "call of method `%s`: no definition in the package, not a known total method" % f.attr)
            T.u(e, "call of method `%s`" % f.attr)
            return
        P(f)
        eval_args()
        F.u(e, "call of a computed callee")
        T.u(e, "call of a computed callee")

    def follow(self, e, name, sc, F, T, only_module_level=False, skip_cls=None):
        """a call by name into the package: EVERY definition of that name (dynamic dispatch is not resolved) must pass the
        block analysis over its whole body"""
        cands = [c for c in self.tree.defs.get(name, []) if (not only_module_level or c[3] is None) and (skip_cls is None or c[3] is not skip_cls)]
        if not cands:
            F.u(e, "call of `%s`: no definition found" % name)
            T.u(e, "call of `%s`: no definition found" % name)
            return
        for m, q, fn, cls in cands:
            F2, T2 = self.helper(m, q, fn, cls, sc.depth + 1)
            F.extend(F2, "call %s:%s" % (m.rel, q))
            T.extend(T2, "call %s:%s" % (m.rel, q))

    def helper(self, mod, q, fn, cls, depth):
        key = (mod.rel, q)
        if key in self.helper_cache:
            r = self.helper_cache[key]
            if r is None:
                # a call cycle among followed callees (in practice an artefact of resolving calls and properties BY NAME:
                # `self._cc.congestion_window` read inside the property QuicPacketRecovery.congestion_window).  'writes
                # nothing' and 'raises nothing' are safety properties: a write / raise would occur in one of the bodies on
                # the cycle, and every body on it is analysed - so the cycle itself contributes no finding (coinduction).
                # What remains is unbounded recursion (RecursionError): recorded as an assumption.
                self.cycles.add(q)
                return Findings(), Findings()
            return r
        F, T = Findings(), Findings()
        if depth > MAX_DEPTH:
            F.u(fn, "call depth > %d at %s" % (MAX_DEPTH, q))
            T.u(fn, "call depth > %d at %s" % (MAX_DEPTH, q))
            return F, T
        self.helper_cache[key] = None
        sc = Scope(self, mod, fn, cls, depth)
        sc.helper = True
        if isinstance(fn, ast.AsyncFunctionDef) or any(isinstance(n, (ast.Yield, ast.YieldFrom, ast.Await)) for n in ast.walk(fn)):
            F.u(fn, "%s is a generator / coroutine" % q)
        body = fn.body
        if body and isinstance(body[0], ast.Expr) and isinstance(body[0].value, ast.Constant) and isinstance(body[0].value.value, str):
            body = body[1:]
        self.stmts(body, sc, F, T)
        self.helper_cache[key] = (F, T)
        return F, T

    def returns_fresh(self, name, depth=0):
        """every definition of `name` returns, at every return, a container created by that call (a display, or a local
        bound only to such, or the result of a callee that does)"""
        if depth > 2 * MAX_DEPTH:
            return False
        cands = self.tree.defs.get(name, [])
        if not cands:
            return False
        if name in self._fresh_busy:
            return True  # coinduction: the returned object is created in one of the bodies on the cycle, all are checked
        self._fresh_busy.add(name)
        try:
            for m, q, fn, cls in cands:
                rets = [n for n in ast.walk(fn) if isinstance(n, ast.Return)]
                if not rets:
                    return False
                for r in rets:
                    if not self.fresh_expr(r.value, fn, depth):
                        return False
            return True
        finally:
            self._fresh_busy.discard(name)

    def fresh_expr(self, v, fn, depth=0):
        if isinstance(v, (ast.Dict, ast.List, ast.ListComp)):
            return True
        if isinstance(v, ast.Call):
            f = v.func
            nm = f.attr if isinstance(f, ast.Attribute) else getattr(f, "id", None)
            if isinstance(f, ast.Attribute) and (is_handle(f.value)):
                return nm.startswith("encode_") and self.returns_fresh(nm, depth + 1)
            return nm is not None and self.returns_fresh(nm, depth + 1)
        if isinstance(v, ast.Name):
            stores = [n for n in ast.walk(fn) if isinstance(n, ast.Name) and n.id == v.id and isinstance(n.ctx, ast.Store)]
            a = fn.args
            if v.id in {x.arg for x in a.posonlyargs + a.args + a.kwonlyargs}:
                return False
            if not stores:
                return False
            for s in stores:
                p = s._parent
                if not (isinstance(p, (ast.Assign, ast.AnnAssign)) and p.value is not None and (p.targets if isinstance(p, ast.Assign) else [p.target]) == [s] and self.fresh_expr(p.value, fn, depth)):
                    return False
            return True
        return False

    # ---- statements of a guarded block (or of a callee followed from one)
    def owned_list(self, e):
        return (isinstance(e, ast.Name) and e.id == FRAMES) or (isinstance(e, ast.Attribute) and e.attr == FRAMES and is_chain(e.value))

    def stmts(self, body, sc, F, T):
        for st in body:
            self.stmt(st, sc, F, T)

    def stmt(self, st, sc, F, T):
        P = lambda x: self.pure(x, sc, st, F, T)  # noqa: E731
        if isinstance(st, ast.Pass):
            return
        if isinstance(st, ast.Expr):
            v = st.value
            if isinstance(v, ast.Constant):
                return
            if isinstance(v, ast.Call) and isinstance(v.func, ast.Attribute):
                f, recv = v.func, v.func.value
                plain = not any(isinstance(a, ast.Starred) for a in v.args) and all(k.arg for k in v.keywords)
                # sink 1: H.log_event(category=, event=, data=)
                if is_handle(recv) and f.attr == "log_event" and plain:
                    for a in v.args:
                        P(a)
                    for k in v.keywords:
                        P(k.value)
                    return
                # sink 2: <...>.quic_logger_frames.append(x)
                if f.attr == "append" and self.owned_list(recv) and plain and len(v.args) == 1 and not v.keywords:
                    P(recv.value if isinstance(recv, ast.Attribute) else None)
                    P(v.args[0])
                    return
                # mutation of a container created inside the block / helper
                if f.attr in ("update", "append", "extend") and isinstance(recv, ast.Name) and recv.id in sc.fresh and plain and len(v.args) == 1 and not v.keywords:
                    P(v.args[0])
                    return
                # sink 3: <cfg>.quic_logger.end_trace(H)   (QuicLogger API; trusted: writes the logger's own state only)
                if f.attr == "end_trace" and is_cfg_logger(recv) and plain and len(v.args) == 1 and is_handle(v.args[0]) and not v.keywords:
                    return
                # sink 4: secrets_log_file.write(x) / .flush()
                if isinstance(recv, ast.Name) and recv.id == SECRETS and plain and ((f.attr == "write" and len(v.args) == 1 and not v.keywords) or (f.attr == "flush" and not v.args and not v.keywords)):
                    for a in v.args:
                        P(a)
                    return
                # self.<procedure>(..) / any other call evaluated for effect: the callee must pass the block analysis
                P(v)
                return
            P(v)
            return
        if isinstance(st, (ast.Assign, ast.AnnAssign)):
            targets = st.targets if isinstance(st, ast.Assign) else [st.target]
            val = st.value
            for t in targets:
                self.write(t, val, st, sc, F, T)
            return
        if isinstance(st, ast.AugAssign):
            self.write(st.target, st.value, st, sc, F, T, aug=True)
            return
        if isinstance(st, ast.If):
            P(st.test)
            self.stmts(st.body, sc, F, T)
            self.stmts(st.orelse, sc, F, T)
            return
        if isinstance(st, ast.Return):
            if sc.helper:
                P(st.value)
                return
            F.v(st, "`return` inside the guarded block: control flow differs between the two runs")
            return
        if isinstance(st, (ast.Break, ast.Continue)):
            if sc.loop_depth > 0:
                return  # leaves / continues a loop that is itself inside the analysed body
            F.v(st, "`%s` inside the guarded block: control flow differs between the two runs" % type(st).__name__.lower())
            return
        if isinstance(st, ast.Raise):
            F.v(st, "`raise`: an exception escapes only when logging is on")
            T.v(st, "`raise` statement")
            return
        if isinstance(st, ast.Assert):
            P(st.test)
            T.v(st, "`assert` may raise AssertionError: %s" % _txt(st))
            return
        if isinstance(st, ast.For) and sc.helper and not st.orelse:
            # for <names> in <declared list | d.items() / .values() / .keys()>: only inside a followed callee, whose locals
            # are its own; iterating such a value is total under assumption T
            P(st.iter)
            it = st.iter
            if not (is_chain(it) or (isinstance(it, ast.Call) and isinstance(it.func, ast.Attribute) and it.func.attr in ("items", "values", "keys") and not it.args and not it.keywords)):
                T.u(st, "iteration over %s" % _txt(it))
            tl = [st.target] if isinstance(st.target, ast.Name) else list(getattr(st.target, "elts", [None]))
            if not all(isinstance(t, ast.Name) for t in tl):
                F.u(st, "loop target form")
            for t in tl:
                if isinstance(t, ast.Name):
                    sc.fresh.discard(t.id)
            sc.loop_depth += 1
            self.stmts(st.body, sc, F, T)
            sc.loop_depth -= 1
            return
        if isinstance(st, ast.Delete):
            for t in st.targets:
                self.write(t, None, st, sc, F, T, aug=True)
            return
        F.u(st, "statement form %s is outside the analysed subset" % type(st).__name__)
        T.u(st, "statement form %s is outside the analysed subset" % type(st).__name__)

    def write(self, t, val, st, sc, F, T, aug=False):
        P = lambda x: self.pure(x, sc, st, F, T)  # noqa: E731
        if isinstance(t, ast.Name):
            if t.id == FRAMES and not aug:
                if (isinstance(val, ast.List) and not val.elts) or (isinstance(val, ast.Constant) and val.value is None):
                    return
                F.v(st, "logger-owned local `%s` bound to %s (only [] / None allowed)" % (FRAMES, _txt(val)))
                return
            if val is not None:
                P(val)
            sc.bound.add(t.id)
            if not aug and val is not None and self.fresh_expr(val, sc.fn, sc.depth):
                sc.fresh.add(t.id)
            else:
                sc.fresh.discard(t.id)
            return
        if isinstance(t, ast.Attribute):
            if t.attr == HANDLE and isinstance(t.value, ast.Name) and t.value.id == "self" and not aug:
                if isinstance(val, ast.Constant) and val.value is None:
                    return
                if isinstance(val, ast.Call) and isinstance(val.func, ast.Attribute) and val.func.attr == "start_trace" and is_cfg_logger(val.func.value) and not val.args and all(k.arg for k in val.keywords):
                    for k in val.keywords:
                        P(k.value)
                    return
            P(val)
            F.v(st, "writes `%s`, which is not logger-owned state" % _txt(t))
            return
        if isinstance(t, ast.Subscript):
            P(val)
            P(t.slice)
            if isinstance(t.value, ast.Name) and t.value.id in sc.fresh:
                return
            if self.owned_list(t.value):
                return
            F.v(st, "writes an element of `%s`, which is neither logger-owned nor created inside the block" % _txt(t.value))
            return
        if isinstance(t, (ast.Tuple, ast.List)):
            for x in t.elts:
                self.write(x, None, st, sc, F, T, aug=True)
            P(val)
            return
        F.u(st, "assignment target form %s" % type(t).__name__)


# ------------------------------------------------------------------------------------------------ obligations per file
def _occurrences(tree_node):
    """AST occurrences of logger-owned names: Name, Attribute, arg (parameter), keyword (argument name)"""
    out = []
    for n in ast.walk(tree_node):
        if isinstance(n, ast.Name) and n.id in OWNED:
            out.append(n)
        elif isinstance(n, ast.Attribute) and n.attr in OWNED:
            out.append(n)
        elif isinstance(n, ast.arg) and n.arg in OWNED:
            out.append(n)
        elif isinstance(n, ast.keyword) and n.arg in OWNED:
            out.append(n)
    return out


def _token_count(text):
    n = 0
    for tok in tokenize.generate_tokens(io.StringIO(text).readline):
        if tok.type == tokenize.NAME and tok.string in OWNED:
            n += 1
    return n


def _owned_source(e):
    """expression that denotes a logger-owned location or a neutral initial value (copy between owned locations)"""
    if e is None:
        return True
    if isinstance(e, ast.Constant) and e.value is None:
        return True
    if isinstance(e, ast.List) and not e.elts:
        return True
    if isinstance(e, ast.Name) and e.id in OWNED:
        return True
    if isinstance(e, ast.Attribute) and e.attr in OWNED and is_chain(e.value):
        return True
    return False


def classify_outside(n):
    """allowed context of an occurrence OUTSIDE every guarded block; returns None if allowed, else a message"""
    p = getattr(n, "_parent", None)
    # (iv) declarations
    if isinstance(n, ast.arg):
        return None
    if isinstance(n, ast.keyword):
        # (ii) passing along: keyword `quic_logger=` / `quic_logger_frames=` whose value is an owned location
        return None if _owned_source(n.value) else "keyword argument %s= receives %s" % (n.arg, _txt(n.value))
    if isinstance(p, ast.keyword) and p.value is n:
        if p.arg in OWNED:
            return None
        return "passed as argument `%s=`" % p.arg
    if isinstance(p, ast.AnnAssign) and p.target is n and isinstance(getattr(p, "_parent", None), ast.ClassDef):
        # dataclass field declaration: no value, None, or field(default_factory=list)
        v = p.value
        if v is None or _owned_source(v) or (isinstance(v, ast.Call) and getattr(v.func, "id", "") == "field" and not v.args and all(k.arg == "default_factory" and isinstance(k.value, ast.Name) and k.value.id == "list" for k in v.keywords)):
            return None
        return "field declared with default %s" % _txt(v)
    # (iii) copy / initialisation
    if isinstance(p, (ast.Assign, ast.AnnAssign)):
        tg = p.targets if isinstance(p, ast.Assign) else [p.target]
        if any(t is n for t in tg):
            if isinstance(n, ast.Name) or (isinstance(n, ast.Attribute) and is_chain(n.value)):
                return None if _owned_source(p.value) else "logger-owned location bound to %s outside a guarded block" % _txt(p.value)
        if p.value is n:
            ok = all((isinstance(t, ast.Name) and t.id in OWNED) or (isinstance(t, ast.Attribute) and t.attr in OWNED) for t in tg)
            return None if ok else "copied into `%s`, which is not logger-owned" % _txt(tg[0])
    # (i) guard test
    q = n
    while q is not None and not isinstance(q, ast.stmt):
        parent = getattr(q, "_parent", None)
        if isinstance(parent, ast.If) and parent.test is q:
            g = guard_of(parent)
            if g is not None:
                c = g[2]
                inner = c.left if isinstance(c, ast.Compare) else c
                if inner is n:
                    return None
            break
        q = parent
    # receiver of a nested owned attribute:  <cfg>.quic_logger inside `<cfg>.quic_logger.x`?  no: every read is a use
    return "read outside a guarded block: `%s`" % _txt(p if p is not None and not isinstance(p, ast.stmt) else n)


def _mk(name, findings, note_ok, site, kind="logblock"):
    import z3

    from engine.pyvc.core import Obligation

    v = findings.verdict
    if v == "ok":
        return Obligation(name, kind, [], z3.BoolVal(True), site=site, note=note_ok)
    if v == "violated":
        return Obligation(name, kind, [], z3.BoolVal(False), site=site, note=note_ok + "  VIOLATED: " + findings.text())
    return Obligation(name, kind, [], z3.BoolVal(False), site=site, tainted="syntactic frame analysis cannot classify: " + findings.text(), note=note_ok + "  UNDECIDED: " + findings.text())


def sink_types(tree, mod, fn, cls, roots, J):
    """every value handed to a logger sink inside `roots` is JSON-typed: the data= / category= / event= arguments of
    H.log_event and the argument of <...>.quic_logger_frames.append (declared-type-directed shape inference, call-site
    mode: an attribute of a receiver of unknown class has the join of the declared types of every attribute of that
    name in the package)"""
    typer = JsonTyper(tree, mod, cls, loose=True)
    env = typer.env_of(fn)
    n_sinks = 0
    for r in roots:
        for n in ast.walk(r):
            if not (isinstance(n, ast.Call) and isinstance(n.func, ast.Attribute)):
                continue
            f = n.func
            if is_handle(f.value) and f.attr == "log_event":
                n_sinks += 1
                if n.args:
                    J.u(n, "positional arguments at log_event")
                for k in n.keywords:
                    t = typer.ty(k.value, env, fn, k.value)
                    if k.arg in ("category", "event"):
                        if t != "str":
                            J.v(k.value, "log_event %s=%s has type %s, not str" % (k.arg, _txt(k.value, 40), t))
                    elif k.arg == "data":
                        if not (is_json(t) and isinstance(t, tuple) and t[0] == "dict"):
                            J.v(k.value, "log_event data=%s has inferred type %s: not a JSON-typed dict" % (_txt(k.value, 50), t))
                    else:
                        J.u(k.value, "unexpected keyword %s at log_event" % k.arg)
            elif f.attr == "append" and ((isinstance(f.value, ast.Name) and f.value.id == FRAMES) or (isinstance(f.value, ast.Attribute) and f.value.attr == FRAMES)) and len(n.args) == 1:
                n_sinks += 1
                t = typer.ty(n.args[0], env, fn, n.args[0])
                if not is_json(t):
                    J.v(n, "%s appended to the frame list has inferred type %s: not JSON-typed" % (_txt(n.args[0], 50), t))
    return n_sinks


def analyse_blocks(tree: Tree, rel):
    """obligations of one of the four files with guarded blocks"""
    mod = tree.mods[rel]
    ana = Analysis(tree)
    obs = []
    guards = []  # (qualname, fn, cls, If)
    stray = []  # guards that are not directly inside a module-level function / method (nested def, lambda, module level)
    by_fn = {id(fn): (q, fn, cls) for q, fn, cls in mod.funcs}
    for n in ast.walk(mod.tree):
        if guard_of(n) is not None:
            f = _enclosing_function(n)
            if f is not None and id(f) in by_fn:
                guards.append(by_fn[id(f)] + (n,))
            else:
                stray.append(n)
    order = {id(fn): i for i, (_q, fn, _c) in enumerate(mod.funcs)}
    guards.sort(key=lambda g: (order[id(g[1])], g[3].lineno, g[3].col_offset))  # ordinals in source order
    guard_nodes = [g[3] for g in guards]

    def covered_by_guard(n):
        return any(_inside(n, g) for g in guard_nodes)

    # ---- logger-only procedures: functions that use the handle unguarded; all their call sites must be covered
    procs = {}
    changed = True
    while changed:
        changed = False
        for q, fn, cls in mod.funcs:
            if q in procs:
                continue
            uses = [n for n in ast.walk(fn) if isinstance(n, ast.Attribute) and is_handle(n) and isinstance(n.ctx, ast.Load) and not covered_by_guard(n)
                    and isinstance(getattr(n, "_parent", None), ast.Attribute) and n._parent.value is n]
            if not uses or fn.name == "__init__":
                continue
            sites = []
            for m2 in tree.mods.values():
                for c in ast.walk(m2.tree):
                    if isinstance(c, ast.Call) and ((isinstance(c.func, ast.Attribute) and c.func.attr == fn.name) or (isinstance(c.func, ast.Name) and c.func.id == fn.name)):
                        sites.append((m2, c))
            procs[q] = (fn, cls, sites)
            changed = True

    def in_proc(n):
        f = _enclosing_function(n)
        return any(f is p[0] for p in procs.values())

    # ---- per block
    counts = {}
    for q, fn, cls, g in guards:
        k = counts[q] = counts.get(q, 0) + 1
        kind, extra, _c = guard_of(g)
        sc = Scope(ana, mod, fn, cls, 0)
        F, T = Findings(), Findings()
        if g.orelse:
            F.v(g.orelse[0], "the guard has an else branch: statements executed only when logging is OFF")
        for c in extra:
            ana.pure(c, sc, g, F, T)
        ana.stmts(g.body, sc, F, T)
        # no local bound in the block may occur anywhere else in the function
        for name in sorted(sc.bound):
            for n in ast.walk(fn):
                if ((isinstance(n, ast.Name) and n.id == name) or (isinstance(n, ast.arg) and n.arg == name)) and not _inside(n, g):
                    F.v(n, "local `%s` is bound inside the block and also occurs outside it (line %d): the block defines a live local" % (name, n.lineno))
                    break
        what = "block at line %d of function %s (guard `%s`)" % (g.lineno, q, _txt(g.test, 60))
        obs.append(_mk("%s:block%d.frame" % (q, k), F, what + ": writes are a subset of logger-owned state, no escaping control flow, no live local defined, no else branch [syntactic frame analysis]", g.lineno))
        obs.append(_mk("%s:block%d.total" % (q, k), T, what + ": no expression or statement of the block can raise (total forms under typing assumption T) [syntactic frame analysis]", g.lineno))
        J = Findings()
        ns = sink_types(tree, mod, fn, cls, g.body, J)
        if ns:
            obs.append(_mk("%s:block%d.json" % (q, k), J, what + ": the %d value(s) handed to logger sinks (log_event data / frame list) are JSON-typed: str/int/float/bool/None/list/dict of those, no bytes (declared-type-directed shape inference) [syntactic frame analysis]" % ns, g.lineno))

    # ---- logger-only procedures
    for q, (fn, cls, sites) in sorted(procs.items()):
        F, T = ana.helper(mod, q, fn, cls, 0)
        what = "function %s (line %d) dereferences the logger handle without a guard of its own" % (q, fn.lineno)
        obs.append(_mk("%s:body.frame" % q, F, what + ": its whole body writes only logger-owned state [syntactic frame analysis]", fn.lineno))
        obs.append(_mk("%s:body.total" % q, T, what + ": its body cannot raise when the handle is set [syntactic frame analysis]", fn.lineno))
        J = Findings()
        ns = sink_types(tree, mod, fn, cls, fn.body, J)
        if ns:
            obs.append(_mk("%s:body.json" % q, J, what + ": the %d value(s) it hands to logger sinks are JSON-typed [syntactic frame analysis]" % ns, fn.lineno))
        S = Findings()
        for m2, c in sites:
            ok = False
            if m2 is mod:
                ok = covered_by_guard(c) or (in_proc(c) and _enclosing_function(c) is not fn)
            if not ok:
                S.v(c, "called outside a guarded block at %s:%d" % (m2.rel, c.lineno))
        obs.append(_mk("%s:callsites" % q, S, what + ": every call site in the package (%d found) is inside a guarded block [syntactic frame analysis]" % len(sites), fn.lineno))

    # ---- occurrences outside the guarded blocks
    occ = _occurrences(mod.tree)
    per_fn = {}
    for n in occ:
        if covered_by_guard(n) or in_proc(n):
            continue
        f = _enclosing_function(n)
        # the arguments of a function's own signature belong to it
        if isinstance(n, ast.arg):
            f = n._parent._parent if isinstance(n._parent, ast.arguments) else f
        key = "<module>"
        if f is not None:
            key = next((q for q, fn, _c in mod.funcs if fn is f), None) or ("<nested>" + f.name)
        per_fn.setdefault(key, []).append(n)
    fn_with_owned = {q for q, fn, _c in mod.funcs if any(_enclosing_function(n) is fn or (isinstance(n, ast.arg)) and n._parent._parent is fn for n in occ)}
    for key in sorted(set(per_fn) | fn_with_owned):
        O = Findings()
        for n in per_fn.get(key, []):
            msg = classify_outside(n)
            if msg is not None:
                O.v(n, msg)
        if key.startswith("<nested>"):
            O.u(per_fn[key][0], "logger-owned name inside a nested function / lambda")
        obs.append(_mk("%s:outside" % key, O, "function %s: outside the guarded blocks, logger-owned names (%s) occur only in guard tests, as keyword arguments passed along, in copies between logger-owned locations, or as declarations (%d occurrence(s) checked) [syntactic frame analysis]" % (key, ", ".join(sorted(OWNED)), len(per_fn.get(key, []))), getattr(per_fn.get(key, [None])[0], "lineno", 0)))

    # ---- inventory
    I = Findings()
    ntok = _token_count(mod.text)
    if ntok != len(occ):
        I.u(mod.tree.body[0], "tokenize finds %d NAME tokens with a logger-owned name, the AST walk classified %d" % (ntok, len(occ)))
    if not guards:
        I.u(mod.tree.body[0], "no guarded block recognised in %s" % rel)
    for n in stray:
        I.u(n, "logger guard at line %d is inside a nested function / lambda / at module level: not analysed" % n.lineno)
    obs.append(_mk("<file>:inventory", I, "%s: %d guarded blocks in %d functions, %d logger-only procedures; all %d occurrences of logger-owned names are classified [syntactic frame analysis]" % (rel, len(guards), len({g[0] for g in guards}), len(procs), len(occ)), 1))
    analyse_blocks.cycles = sorted(ana.cycles)
    return obs, mod


def analyse_rest(tree: Tree):
    """no other file mentions logger-owned state, except: quic/logger.py (its own implementation), the dataclass field
    declarations in quic/configuration.py, and the four analysed files"""
    obs = []
    h = hashlib.sha256()
    for rel, mod in sorted(tree.mods.items()):
        if rel in BLOCK_FILES or rel == LOGGER_FILE:
            continue
        h.update(mod.text.encode())
        occ = _occurrences(mod.tree)
        O = Findings()
        for n in occ:
            p = getattr(n, "_parent", None)
            decl = isinstance(p, ast.AnnAssign) and p.target is n and isinstance(getattr(p, "_parent", None), ast.ClassDef) and (p.value is None or (isinstance(p.value, ast.Constant) and p.value.value is None))
            if not decl:
                O.v(n, "`%s` mentions logger-owned state" % _txt(p if p is not None else n))
        if _token_count(mod.text) != len(occ):
            O.u(mod.tree.body[0] if mod.tree.body else mod.tree, "token / AST occurrence counts differ")
        if occ or O.items:
            obs.append(_mk("%s:outside" % rel, O, "%s mentions logger-owned names only as configuration field declarations (%d occurrence(s)) [syntactic frame analysis]" % (rel, len(occ)), getattr(occ[0], "lineno", 0) if occ else 0))
    R = Findings()
    obs.append(_mk("<package>:rest", R, "%d other files of the package scanned: every mention of %s outside the four analysed files and quic/logger.py has its own obligation [syntactic frame analysis]" % (len(tree.mods) - len(BLOCK_FILES) - 1, ", ".join(sorted(OWNED))), 0))
    return obs, h.hexdigest()[:16]


# ---------------------------------------------------------------------------------------- the encoders (quic/logger.py)
JSON_SCALARS = {"str", "int", "float", "bool", "none"}


def is_json(t):
    if isinstance(t, str):
        return t in JSON_SCALARS or t == "json"
    if t[0] in ("list", "dict"):
        return is_json(t[1])
    if t[0] == "union":
        return all(is_json(x) for x in t[1])
    return False


def join(a, b):
    if a == b:
        return a
    if a is None:
        return b
    if b is None:
        return a
    if is_json(a) and is_json(b):
        if isinstance(a, tuple) and isinstance(b, tuple) and a[0] == b[0] and a[0] in ("list", "dict"):
            return (a[0], join(a[1], b[1]))
        return "json"
    if isinstance(a, tuple) and isinstance(b, tuple) and a[0] == b[0] == "tuple":
        # candidates of different arity (by-name resolution of a method): component-wise over the common prefix
        return ("tuple", [join(x, y) for x, y in zip(a[1], b[1])])
    return "unknown"


class JsonTyper:
    """abstract value = declared-type-directed shape: 'str' 'int' 'float' 'bool' 'none' 'json' ('list', T) ('dict', T)
    [str keys] 'bytes' ('tuple', [T..]) ('obj', cls) 'range' 'unknown'.  Types of parameters and fields are the DECLARED
    annotations (assumption T); the type of a local is the join over all its assignments in the function (flow
    insensitive) except inside `if isinstance(x, C)` branches, where x has type C.  Anything not recognised is 'unknown'
    and 'unknown' is not JSON."""

    ASSUMED_PARAMS = {("QuicLoggerTrace", "log_event", "data"): "json"}  # discharged by the .json obligation of every sink call

    def __init__(self, tree, mod, cls, loose=False):
        self.tree, self.mod, self.cls, self.loose = tree, mod, cls, loose
        # caches are shared by every typer over the same tree (typers for other classes are created on the fly); an entry
        # None marks a function whose result type is being computed: a recursive reference contributes nothing to the join
        if not hasattr(tree, "_jt_ret"):
            tree._jt_ret, tree._jt_env = {}, {}
        self.ret_cache = tree._jt_ret.setdefault(loose, {})
        self.env_cache = tree._jt_env.setdefault(loose, {})

    def elem_of(self, t):
        """type of the items produced by iterating a value of type t"""
        if isinstance(t, tuple) and t[0] == "list":
            return t[1]
        if isinstance(t, tuple) and t[0] == "obj":
            for m in self.tree.mods.values():
                for q, fn, c in m.funcs:
                    if c is not None and c.name == t[1] and fn.name == "__iter__" and fn.returns is not None:
                        r = self.ann(fn.returns)
                        return r[1] if isinstance(r, tuple) and r[0] == "list" else "unknown"
            for m in self.tree.mods.values():
                for q, fn, c in m.funcs:
                    if c is not None and c.name == t[1] and fn.name == "__getitem__" and fn.returns is not None:
                        return self.ann(fn.returns)
        return "unknown"

    def ann(self, a):
        if a is None:
            return "unknown"
        if isinstance(a, ast.Constant) and a.value is None:
            return "none"
        if isinstance(a, ast.Name):
            if a.id in ("str", "int", "float", "bool", "bytes", "range"):
                return a.id
            if a.id == "dict" or a.id == "list" or a.id == "Any":
                return "unknown"
            if a.id in self.tree.enums:
                return "unknown"
            # alias defined at module level anywhere in the package (e.g. Headers = List[Tuple[bytes, bytes]])
            for m in self.tree.mods.values():
                if a.id in m.consts and isinstance(m.consts[a.id], ast.Subscript) and not any(q == a.id for q, _f, _c in m.funcs):
                    return self.ann(m.consts[a.id])
            if a.id in self.tree.class_ann:
                return ("obj", a.id)
            return "unknown"
        if isinstance(a, ast.Subscript):
            head = a.value.id if isinstance(a.value, ast.Name) else getattr(a.value, "attr", "")
            args = a.slice.elts if isinstance(a.slice, ast.Tuple) else [a.slice]
            if head == "Optional":
                return ("union", [self.ann(args[0]), "none"])
            if head in ("List", "list", "Deque", "deque", "Iterator", "Iterable", "Sequence"):
                return ("list", self.ann(args[0]))
            if head in ("Tuple", "tuple"):
                return ("tuple", [self.ann(x) for x in args])
            if head in ("Dict", "dict") and len(args) == 2 and self.ann(args[0]) == "str":
                return ("dict", self.ann(args[1]))
            return "unknown"
        return "unknown"

    def enum_is_int(self, cname):
        for m in self.tree.mods.values():
            for st in m.tree.body:
                if isinstance(st, ast.ClassDef) and st.name == cname:
                    return any((b.id if isinstance(b, ast.Name) else getattr(b, "attr", "")) in ("IntEnum", "IntFlag") for b in st.bases)
        return False

    def class_node(self, cname):
        for m in self.tree.mods.values():
            for st in m.tree.body:
                if isinstance(st, ast.ClassDef) and st.name == cname:
                    return m, st
        return None, None

    def attr_of_class(self, cname, attr, _busy=set()):
        """declared annotation of <cname>.attr (class level or `self.attr: T = ..`); a list-like field whose declared
        element type is not JSON gets the join of everything the class appends to it; an undeclared field gets the join of
        the values the class assigns to it; base classes are consulted"""
        a = self.tree.class_ann.get(cname, {}).get(attr)
        if cname in self.tree.stub_classes:
            r = self.tree.stub_classes[cname]["props"].get(attr)
            return self.ann(r) if r is not None else "unknown"
        m, cnode = self.class_node(cname)
        if cnode is None:
            return "unknown"
        for x in cnode.body:
            if isinstance(x, ast.FunctionDef) and x.name == attr and any(isinstance(d, ast.Name) and d.id == "property" for d in x.decorator_list):
                return self.ann(x.returns) if x.returns is not None else "unknown"
        key = (cname, attr)
        if key in _busy:
            return None
        _busy.add(key)
        try:
            typer = self if (self.cls is cnode) else JsonTyper(self.tree, m, cnode, self.loose)
            if a is not None:
                t = self.ann(a)
                if isinstance(t, tuple) and t[0] == "list" and "unknown" in repr(t):  # declared element type is imprecise (Any)
                    el = None
                    found = False
                    for n in ast.walk(cnode):
                        if isinstance(n, ast.Call) and isinstance(n.func, ast.Attribute) and n.func.attr in ("append", "appendleft") and _txt(n.func.value) == "self." + attr and len(n.args) == 1:
                            f2 = _enclosing_function(n)
                            el = join(el, typer.ty(n.args[0], typer.env_of(f2), f2, n))
                            found = True
                    if found:
                        return ("list", el)
                return t
            t = None
            for n in ast.walk(cnode):
                if isinstance(n, ast.Assign) and any(isinstance(x, ast.Attribute) and x.attr == attr and isinstance(x.value, ast.Name) and x.value.id == "self" for x in n.targets):
                    f2 = _enclosing_function(n)
                    t = join(t, typer.ty(n.value, typer.env_of(f2), f2, n))
            if t is None:
                for b in cnode.bases:
                    bn = b.id if isinstance(b, ast.Name) else getattr(b, "attr", None)
                    if bn and bn in self.tree.class_ann:
                        return self.attr_of_class(bn, attr)
            return t or "unknown"
        finally:
            _busy.discard(key)

    def method_ret(self, cname, name, depth=0):
        """declared return type of <cname>.name (stub classes, package classes and their bases)"""
        if cname in self.tree.stub_classes:
            r = self.tree.stub_classes[cname]["methods"].get(name)
            return self.ann(r) if r is not None else None
        m, cnode = self.class_node(cname)
        if cnode is None or depth > 4:
            return None
        for x in cnode.body:
            if isinstance(x, ast.FunctionDef) and x.name == name:
                return self.ann(x.returns) if x.returns is not None else "unknown"
        for b in cnode.bases:
            bn = b.id if isinstance(b, ast.Name) else getattr(b, "attr", None)
            r = self.method_ret(bn, name, depth + 1) if bn else None
            if r is not None:
                return r
        return None

    def fn_type(self, fn, cls):
        """inferred type of the value returned by fn (join over its return statements)"""
        key = id(fn)
        if key in self.ret_cache:
            return self.ret_cache[key]  # None while in progress (identity of join)
        self.ret_cache[key] = None
        env = self.env_of(fn)
        t = None
        for n in ast.walk(fn):
            if isinstance(n, ast.Return):
                t = join(t, self.ty(n.value, env, fn, n))
        self.ret_cache[key] = t or "none"
        return self.ret_cache[key]

    def env_of(self, fn):
        """flow-insensitive types of parameters and locals: join over every binding of the name in the function, iterated
        to a fixpoint (bindings may refer to each other)"""
        if id(fn) in self.env_cache:
            return self.env_cache[id(fn)]
        base = {}
        a = fn.args
        for p in a.posonlyargs + a.args + a.kwonlyargs:
            base[p.arg] = ("self",) if p.arg == "self" else self.ann(p.annotation)
            k = (self.cls.name if self.cls is not None else "", fn.name, p.arg)
            if k in self.ASSUMED_PARAMS:
                base[p.arg] = self.ASSUMED_PARAMS[k]
        env = dict(base)
        self.env_cache[id(fn)] = env  # provisional (recursive references see the parameter types)
        for _round in range(5):
            new = dict(base)
            nodes = list(ast.walk(fn))
            for n in nodes:
                if isinstance(n, (ast.Assign, ast.AnnAssign)) and n.value is not None:
                    for t in n.targets if isinstance(n, ast.Assign) else [n.target]:
                        if isinstance(t, ast.Name):
                            new[t.id] = join(new.get(t.id), self.ty(n.value, env, fn, n))
                        elif isinstance(t, ast.Tuple):
                            vt = self.ty(n.value, env, fn, n)
                            for i, x in enumerate(t.elts):
                                if isinstance(x, ast.Name):
                                    new[x.id] = join(new.get(x.id), vt[1][i] if isinstance(vt, tuple) and vt[0] == "tuple" and i < len(vt[1]) else "unknown")
                elif isinstance(n, ast.AugAssign) and isinstance(n.target, ast.Name):
                    new[n.target.id] = join(new.get(n.target.id), self.ty(ast.BinOp(left=n.target, op=n.op, right=n.value), env, fn, n))
                elif isinstance(n, (ast.For, ast.comprehension)):
                    el = self.elem_of(self.ty(n.iter, env, fn, n))
                    if False:
                        el = "unknown"
                    if isinstance(n.target, ast.Name):
                        new[n.target.id] = join(new.get(n.target.id), el)
                    elif isinstance(n.target, ast.Tuple):
                        for i, x in enumerate(n.target.elts):
                            if isinstance(x, ast.Name):
                                new[x.id] = join(new.get(x.id), el[1][i] if isinstance(el, tuple) and el[0] == "tuple" and i < len(el[1]) else "unknown")
                elif isinstance(n, ast.withitem) and n.optional_vars is not None:
                    for x in ast.walk(n.optional_vars):
                        if isinstance(x, ast.Name):
                            new[x.id] = "unknown"
                elif isinstance(n, ast.ExceptHandler) and n.name:
                    new[n.name] = "unknown"
                elif isinstance(n, ast.NamedExpr) and isinstance(n.target, ast.Name):
                    new[n.target.id] = join(new.get(n.target.id), self.ty(n.value, env, fn, n))
            # element stores / updates of locals that hold a dict created here: d[k] = v, d.update({..})
            for n in nodes:
                if isinstance(n, ast.Assign):
                    for t in n.targets:
                        if isinstance(t, ast.Subscript) and isinstance(t.value, ast.Name) and t.value.id in new:
                            cur = new[t.value.id]
                            if isinstance(cur, tuple) and cur[0] == "dict" and self.ty(t.slice, env, fn, n) == "str":
                                new[t.value.id] = ("dict", join(cur[1], self.ty(n.value, env, fn, n)))
                            else:
                                new[t.value.id] = "unknown"
                elif isinstance(n, ast.Call) and isinstance(n.func, ast.Attribute) and isinstance(n.func.value, ast.Name) and n.func.value.id in new and n.func.attr in ("update", "append", "extend", "setdefault", "insert", "pop"):
                    cur = new[n.func.value.id]
                    if n.func.attr == "update" and len(n.args) == 1 and isinstance(cur, tuple) and cur[0] == "dict":
                        new[n.func.value.id] = join(cur, self.ty(n.args[0], env, fn, n))
                    elif n.func.attr == "append" and len(n.args) == 1 and isinstance(cur, tuple) and cur[0] == "list":
                        new[n.func.value.id] = ("list", join(cur[1], self.ty(n.args[0], env, fn, n)))
                    else:
                        new[n.func.value.id] = "unknown"
            if new == env:
                break
            env = new
            self.env_cache[id(fn)] = env
        self.env_cache[id(fn)] = env
        return env

    def narrowed(self, name, node, fn):
        """type of `name` at `node` if node sits in the body of `if isinstance(name, C)` (C in bool/int/bytes/str/float)"""
        p, child = getattr(node, "_parent", None), node
        while p is not None and p is not fn:
            if isinstance(p, ast.If) and any(child is s for s in p.body):
                t = p.test
                if isinstance(t, ast.Call) and isinstance(t.func, ast.Name) and t.func.id == "isinstance" and len(t.args) == 2 and isinstance(t.args[0], ast.Name) and t.args[0].id == name and isinstance(t.args[1], ast.Name) and t.args[1].id in ("bool", "int", "bytes", "str", "float"):
                    stores = [s for s in ast.walk(p) if isinstance(s, ast.Name) and s.id == name and isinstance(s.ctx, ast.Store)]
                    if not stores:
                        return t.args[1].id
            child, p = p, getattr(p, "_parent", None)
        return None

    def ty(self, e, env, fn, at, comp=None):
        comp = comp or {}
        R = lambda x: self.ty(x, env, fn, at, comp)  # noqa: E731
        if e is None:
            return "none"
        if isinstance(e, ast.Constant):
            v = e.value
            return "none" if v is None else "bool" if isinstance(v, bool) else "int" if isinstance(v, int) else "float" if isinstance(v, float) else "str" if isinstance(v, str) else "bytes" if isinstance(v, bytes) else "unknown"
        if isinstance(e, ast.Name):
            if e.id in comp:
                return comp[e.id]
            if e.id == FRAMES:
                return ("list", "json")  # only encoder results are appended (.json obligation of every append sink)
            nt = self.narrowed(e.id, e, fn)
            if nt:
                return nt
            if e.id in env:
                return env[e.id] or "unknown"
            c = self.mod.consts.get(e.id)
            if c is not None and isinstance(c, ast.Constant):
                return R(c)
            return "unknown"
        if isinstance(e, ast.Dict):
            t = None
            for k, v in zip(e.keys, e.values):
                if k is None or R(k) != "str":
                    return "unknown"
                t = join(t, R(v))
            return ("dict", t or "json")
        if isinstance(e, (ast.List,)):
            t = None
            for x in e.elts:
                t = join(t, R(x))
            return ("list", t or "json")
        if isinstance(e, ast.Tuple):
            return ("tuple", [R(x) for x in e.elts])
        if isinstance(e, ast.ListComp) and len(e.generators) == 1:
            g = e.generators[0]  # conditions only filter: the element type is unaffected
            el = self.elem_of(R(g.iter))
            c2 = dict(comp)
            if isinstance(g.target, ast.Name):
                c2[g.target.id] = el
            else:
                return "unknown"
            return ("list", self.ty(e.elt, env, fn, at, c2))
        if isinstance(e, ast.IfExp):
            return join(R(e.body), R(e.orelse))
        if isinstance(e, ast.Compare) or (isinstance(e, ast.UnaryOp) and isinstance(e.op, ast.Not)):
            return "bool"
        if isinstance(e, ast.BinOp):
            a, b = R(e.left), R(e.right)
            if isinstance(e.op, (ast.Add, ast.Sub, ast.Mult)):
                if a == "str" and b == "str" and isinstance(e.op, ast.Add):
                    return "str"
                if a in ("int", "bool") and b in ("int", "bool"):
                    return "int"
                if a in ("int", "float", "bool") and b in ("int", "float", "bool"):
                    return "float"
            if isinstance(e.op, ast.Mod) and a == "str":
                return "str"
            return "unknown"
        if isinstance(e, ast.Subscript):
            b = R(e.value)
            if isinstance(b, tuple) and b[0] == "tuple" and isinstance(e.slice, ast.Constant) and isinstance(e.slice.value, int) and 0 <= e.slice.value < len(b[1]):
                return b[1][e.slice.value]
            if isinstance(b, tuple) and b[0] == "list" and not isinstance(e.slice, ast.Slice):
                return b[1]
            if isinstance(b, tuple) and b[0] == "dict":
                return b[1]
            if isinstance(e.value, ast.Name) and e.value.id in self.mod.consts and isinstance(self.mod.consts[e.value.id], ast.Dict):
                t = None
                for v in self.mod.consts[e.value.id].values:
                    t = join(t, R(v))
                return t or "unknown"
            return "unknown"
        if isinstance(e, ast.Attribute):
            if is_handle(e) or e.attr in OWNED and e.attr != FRAMES:
                return "unknown"
            if e.attr == FRAMES:
                return ("list", "json")  # only encoder results are appended (.json obligation of every append sink)
            b = R(e.value)
            if b == ("self",):
                return self.attr_of_class(self.cls.name if self.cls is not None else "", e.attr)
            if b == "range" and e.attr in ("start", "stop", "step"):
                return "int"
            if isinstance(b, tuple) and b[0] == "obj":
                return self.attr_of_class(b[1], e.attr)
            if isinstance(b, tuple) and b[0] == "union":
                # Optional[C].attr: the read itself is covered by assumption T; type from the non-None member
                objs = [x for x in b[1] if isinstance(x, tuple) and x[0] == "obj"]
                if len(objs) == 1:
                    return self.attr_of_class(objs[0][1], e.attr)
            if isinstance(e.value, ast.Name) and e.value.id in self.tree.enums and e.attr in self.tree.enums[e.value.id]:
                v = self.tree.enums[e.value.id][e.attr]
                return "int" if isinstance(v, int) and self.enum_is_int(e.value.id) else "unknown"
            if self.loose:
                # receiver of unknown type: every class of the package that declares an attribute of this name
                t = None
                for cname, ann in self.tree.class_ann.items():
                    if e.attr in ann:
                        t = join(t, self.ann(ann[e.attr]))
                return t or "unknown"
            return "unknown"
        if isinstance(e, ast.Call):
            f = e.func
            if isinstance(f, ast.Name):
                if f.id == "len" and len(e.args) == 1:
                    return "int"
                if f.id == "list" and len(e.args) == 1:
                    a = R(e.args[0])
                    return a if isinstance(a, tuple) and a[0] == "list" else "unknown"
                if f.id in ("int", "str", "bool", "float") and len(e.args) == 1:
                    return f.id
                for q, fn2, c2 in self.mod.funcs:
                    if q == f.id and c2 is None:
                        return self.fn_type(fn2, None)
                if f.id in self.tree.stub_classes or (f.id in self.tree.class_ann and f.id not in self.tree.enums and self.class_node(f.id)[1] is not None):
                    return ("obj", f.id)  # constructor call
                if f.id in ("min", "max") and e.args and not e.keywords:
                    t = None
                    for a in e.args:
                        t = join(t, R(a))
                    return t if t in ("int", "float") else "unknown"
                if self.loose and f.id in self.tree.defs:
                    t = None
                    for m2, q2, fn2, c2 in self.tree.defs[f.id]:
                        if c2 is None:
                            t = join(t, self.ann(fn2.returns) if fn2.returns is not None else "unknown")
                    return t or "unknown"
                return "unknown"
            if isinstance(f, ast.Attribute) and is_handle(f.value):
                lm = self.tree.mods.get(LOGGER_FILE)
                for q, fn2, c2 in (lm.funcs if lm else []):
                    if c2 is not None and c2.name == "QuicLoggerTrace" and fn2.name == f.attr:
                        return JsonTyper(self.tree, lm, c2).fn_type(fn2, c2)
                return "unknown"
            if isinstance(f, ast.Attribute):
                recv = R(f.value)
                if f.attr == "decode" and (recv == "bytes"):
                    return "str"
                if isinstance(f.value, ast.Name) and f.value.id == "binascii" and f.attr == "hexlify":
                    return "bytes"
                if isinstance(f.value, ast.Name) and f.value.id == "time" and f.attr == "time" and not e.args:
                    return "float"
                if recv == ("self",) and self.cls is not None:
                    for q, fn2, c2 in self.mod.funcs:
                        if c2 is self.cls and fn2.name == f.attr:
                            return self.fn_type(fn2, c2)
                    return "unknown"
                if isinstance(recv, tuple) and recv[0] == "obj" and f.attr == "to_dict":
                    # a method of another class of this module: inferred from its body
                    for q, fn2, c2 in self.mod.funcs:
                        if c2 is not None and c2.name == recv[1] and fn2.name == f.attr:
                            return JsonTyper(self.tree, self.mod, c2).fn_type(fn2, c2)
                if f.attr == "items" and not e.args and isinstance(f.value, ast.Attribute) and f.value.attr == "__dict__":
                    return ("list", ("tuple", ["str", "unknown"]))  # keys of an instance __dict__ are str
                if f.attr == "hex" and recv == "bytes" and not e.args:
                    return "str"
                if isinstance(f.value, ast.Dict) and f.attr == "get" and len(e.args) == 2 and not e.keywords:
                    t = R(e.args[1])
                    for v in f.value.values:
                        t = join(t, R(v))
                    return t
                if isinstance(recv, tuple) and recv[0] == "obj":
                    r = self.method_ret(recv[1], f.attr)
                    if r is not None and "unknown" not in repr(r):
                        return r  # (an imprecise declaration - Any - falls through to the inferred type of every definition)
                if f.attr == "get" and isinstance(recv, tuple) and recv[0] == "dict" and 1 <= len(e.args) <= 2:
                    return join(recv[1], R(e.args[1]) if len(e.args) == 2 else "none")
                if isinstance(f.value, ast.Call) and isinstance(f.value.func, ast.Name) and f.value.func.id == "super" and self.cls is not None:
                    for b in self.cls.bases:
                        bn = b.id if isinstance(b, ast.Name) else getattr(b, "attr", None)
                        m2, c2 = self.class_node(bn) if bn else (None, None)
                        for x in (c2.body if c2 is not None else []):
                            if isinstance(x, ast.FunctionDef) and x.name == f.attr:
                                return JsonTyper(self.tree, m2, c2, self.loose).fn_type(x, c2)
                    return "unknown"
                if self.loose and f.attr in self.tree.defs:
                    # a method of the package called on a receiver of unknown class: every definition of that name, by
                    # its inferred result if it is a log-data helper, else by its declared return annotation
                    t = None
                    for m2, q2, fn2, c2 in self.tree.defs[f.attr]:
                        if fn2.returns is not None and "unknown" not in repr(self.ann(fn2.returns)):
                            t = join(t, self.ann(fn2.returns))
                        else:
                            t = join(t, JsonTyper(self.tree, m2, c2, self.loose).fn_type(fn2, c2))
                    return t or "unknown"
                return "unknown"
        return "unknown"


def analyse_logger(tree: Tree):
    mod = tree.mods[LOGGER_FILE]
    ana = Analysis(tree)
    ana.modular_cls = set(LOGGER_CLASSES)
    obs = []
    targets = [(q, fn, cls) for q, fn, cls in mod.funcs if cls is None or cls.name in LOGGER_CLASSES]
    for q, fn, cls in targets:
        if fn.name in ("__init__", "start_trace", "end_trace"):
            continue  # constructors / trace registry: QuicLogger API, trusted (see PROPS["C20"].trusted_base)
        F, T = Findings(), Findings()
        sc = Scope(ana, mod, fn, cls, 0)
        sc.helper = True
        body = fn.body
        if body and isinstance(body[0], ast.Expr) and isinstance(body[0].value, ast.Constant) and isinstance(body[0].value.value, str):
            body = body[1:]
        if q == "QuicLoggerTrace.log_event":
            # the one sink: exactly `self._events.append(<pure>)`
            ok = len(body) == 1 and isinstance(body[0], ast.Expr) and isinstance(body[0].value, ast.Call) and _txt(body[0].value.func) == "self._events.append" and len(body[0].value.args) == 1 and not body[0].value.keywords
            if ok:
                ana.pure(body[0].value.args[0], sc, body[0], F, T)
            else:
                F.v(fn, "log_event is not the single statement self._events.append(<record>)")
        else:
            ana.stmts(body, sc, F, T)
        # inside logger.py `time.time()` is the only external call accepted
        F.items = [(s, ln, m) for s, ln, m in F.items if "call of method `time`" not in m]
        T.items = [(s, ln, m) for s, ln, m in T.items if "call of method `time`" not in m]
        what = "%s (line %d)" % (q, fn.lineno)
        obs.append(_mk("%s:frame" % q, F, what + (": writes only self._events (one append)" if q.endswith("log_event") else ": writes nothing but containers it creates") + " [syntactic frame analysis]", fn.lineno))
        obs.append(_mk("%s:total" % q, T, what + ": cannot raise for arguments of the declared types [syntactic frame analysis]", fn.lineno))
        if fn.name.startswith(("encode_", "_encode_")) or fn.name in ("to_dict", "packet_type", "hexdump"):
            J = Findings()
            ty = JsonTyper(tree, mod, cls).fn_type(fn, cls)
            if not is_json(ty):
                J.v(fn, "inferred result type %s is not JSON-typed (str/int/float/bool/None/list/dict of those)" % (ty,))
            obs.append(_mk("%s:json" % q, J, what + ": the result is JSON-typed (declared-type-directed shape inference; inferred %s) [syntactic frame analysis]" % (ty,), fn.lineno))
    I = Findings()
    if not any(q == "QuicLoggerTrace.log_event" for q, _f, _c in targets):
        I.u(mod.tree.body[0], "QuicLoggerTrace.log_event not found")
    # nothing but log_event touches self._events (reads: to_dict)
    for n in ast.walk(mod.tree):
        if isinstance(n, ast.Attribute) and n.attr == "_events":
            f = _enclosing_function(n)
            if f is None or f.name not in ("__init__", "log_event", "to_dict"):
                I.v(n, "`_events` used in %s" % (f.name if f else "<module>"))
    obs.append(_mk("<file>:inventory", I, "%s: %d functions analysed; the trace's _events deque is touched only by __init__, log_event, to_dict [syntactic frame analysis]" % (LOGGER_FILE, len(targets)), 1))
    return obs, mod


def build(qual):
    """-> engine.pyvc.verify.FunctionResult for a 'logblocks::<...>' qual"""
    from engine.pyvc.verify import FunctionResult

    r = FunctionResult(qual)
    what = qual.split("::", 1)[1]
    try:
        tree = Tree()
    except SyntaxError as e:
        r.errors.append("cannot parse the current source: %s" % e)
        return r
    r.paths = 1
    r.assumptions.add("T (typing): inside logger-guarded blocks, names and attribute chains denote values of their declared types; reading an attribute of such a value does not raise")
    if what == "@rest":
        r.obligations, r.sha = analyse_rest(tree)
        return r
    if what not in tree.mods:
        r.errors.append("no file %s in the current source" % what)
        return r
    if what == LOGGER_FILE:
        r.obligations, mod = analyse_logger(tree)
    else:
        r.obligations, mod = analyse_blocks(tree, what)
        if analyse_blocks.cycles:
            r.assumptions.add("call cycles among callees followed from guarded blocks (by-name resolution: %s) do not recurse without bound (no RecursionError)" % ", ".join(analyse_blocks.cycles))
    # the verdicts depend on callees in other files as well: hash the whole package
    h = hashlib.sha256()
    for rel in sorted(tree.mods):
        h.update(tree.mods[rel].text.encode())
    r.sha = h.hexdigest()[:16]
    return r
