"""Native side (run under /venv/bin/python): replay of counter-models and bounded stand-ins.

  python -m engine.native.run replay  <qual>   (stdin: {"model": {...}, "seed": n})
  python -m engine.native.run bounded <name> --tier quick|thorough --seed n

Both evaluate the sidecar contracts (the same clause strings the prover translates to SMT) on
the REAL functions imported from the working tree.  Last stdout line is one JSON object.
"""
import glob
import importlib
import json
import os
import random
import re
import sys
import time
import traceback

ROOT = os.path.dirname(os.path.dirname(os.path.dirname(os.path.abspath(__file__))))
if os.environ.get("VERIF_SRC_PARENT"):
    sys.path.insert(0, os.environ["VERIF_SRC_PARENT"])
sys.path.insert(0, ROOT)

from engine.native import gens  # noqa: E402
from engine.native.monitor import NativeContracts, Violation, checked_call  # noqa: E402
from engine.pyvc.registry import load_sidecars  # noqa: E402


def resolve(qual):
    rel, name = qual.split("::")
    mod = importlib.import_module("aioquic." + rel[:-3].replace("/", "."))
    if "." in name:
        c, f = name.split(".", 1)
        cls = getattr(mod, c)
        return mod, cls, getattr(cls, f), "%s.%s" % (c, f)
    return mod, None, getattr(mod, name), name


def parse_model_value(s):
    if s is None:
        return None
    s = str(s)
    if re.search(r"\b(none|None|NONE)\b", s) and not re.search(r"\d", s):
        return None
    m = re.search(r"-\s*\d+|\d+", s.replace("(- ", "-").replace(")", ""))
    if m:
        return int(m.group(0).replace(" ", ""))
    if s in ("True", "False"):
        return s == "True"
    return s


def params_of(fn, is_method):
    import inspect

    ps = list(inspect.signature(fn).parameters)
    return ps[1:] if is_method and ps and ps[0] == "self" else ps


def run_cases(nc, qual, cases, limit, stats):
    mod, cls, fn, key = resolve(qual)
    pnames = params_of(fn, cls is not None)
    n = 0
    distinct = set()
    for self_obj, args, kwargs in cases:
        if n >= limit:
            break
        n += 1
        desc = {"self": gens.describe(self_obj), "args": [gens.describe(a) for a in args], "kwargs": {k: gens.describe(v) for k, v in kwargs.items()}}
        try:
            call = fn if self_obj is None else getattr(self_obj, fn.__name__)
            st = checked_call(nc, key, call, self_obj, tuple(args), dict(kwargs), pnames, stats)
            stats[st[0]] = stats.get(st[0], 0) + 1
            if st[0] != "skip":
                distinct.add(json.dumps(desc, sort_keys=True, default=str))
        except Violation as v:
            return n, len(distinct), {"input": desc, "function": v.function, "kind": v.kind, "clause": v.clause, "detail": v.detail, "what": "%s:%s" % (v.kind, v.clause)}
    return n, len(distinct), None


def main(argv):
    t0 = time.time()
    mode, name = argv[0], argv[1]
    reg = load_sidecars([p for p in sorted(glob.glob(os.path.join(ROOT, "contracts", "*.py"))) if not os.path.basename(p).startswith("c_")])  # c_*.py are z3-level C contracts (prover side only)
    nc = NativeContracts(reg, extra_env=gens.native_env())
    if mode == "replay":
        inp = json.loads(sys.stdin.read() or "{}")
        model = {k: parse_model_value(v) for k, v in (inp.get("model") or {}).items()}
        rng = random.Random(inp.get("seed", 0))
        stats = {}
        if name not in gens.GENS:
            print(json.dumps({"reproduced": False, "why": "no native generator for " + name}))
            return 0
        n, _d, viol = run_cases(nc, name, gens.GENS[name](rng, model, 20000), 20000, stats)
        print(json.dumps({"reproduced": viol is not None, "cases_tried": n, "model_used": model, "failing": viol, "stats": stats, "wall_s": round(time.time() - t0, 2)}, default=str))
        return 0
    if mode == "replayc":
        from engine.native import cnative

        inp = json.loads(sys.stdin.read() or "{}")
        try:
            res = cnative.replay_c(name, inp.get("model") or {})
        finally:
            cnative.cleanup()
        res["wall_s"] = round(time.time() - t0, 2)
        print(json.dumps(res, default=str))
        return 0
    if mode == "bounded":
        tier = argv[argv.index("--tier") + 1] if "--tier" in argv else "quick"
        seed = int(argv[argv.index("--seed") + 1]) if "--seed" in argv else 0
        spec = gens.BOUNDED[name]
        limit = spec["quick"] if tier == "quick" else spec["thorough"]
        out = {"name": name, "bound": spec["bound"], "functions": {}, "violations": [], "labelled": "bounded (not proof)"}
        for qual in spec["functions"]:
            stats = {}
            rng = random.Random(seed)
            n, d, viol = run_cases(nc, qual, gens.GENS[qual](rng, {}, limit), limit, stats)
            out["functions"][qual] = {"cases": n, "distinct_checked": d, "stats": stats}
            if viol:
                viol["function_qual"] = qual
                out["violations"].append(viol)
        for extra in spec.get("extra", []):
            res = getattr(gens, extra)(random.Random(seed), limit)
            out["functions"][extra] = {k: v for k, v in res.items() if k != "violations"}
            out["violations"].extend(res.get("violations", []))
        out["wall_s"] = round(time.time() - t0, 2)
        print(json.dumps(out, default=str))
        return 0
    return 3


if __name__ == "__main__":
    try:
        sys.exit(main(sys.argv[1:]))
    except Exception:
        print(json.dumps({"crash": traceback.format_exc()[-3000:]}))
        sys.exit(3)
