"""Native input generators for replay and bounded stand-ins (run under /venv/bin/python).

GENS[qual](rng, model, limit) yields (self_obj | None, args, kwargs); the first cases are
built from the verifier's counter-model where it names integer arguments, the rest enumerate /
sample a small scope.  States of objects are only ever built through the public API of the real
class, so every generated state is reachable.
"""
import itertools


def describe(x):
    if x is None or isinstance(x, (int, bool, str, float)):
        return x
    if isinstance(x, (bytes, bytearray)):
        return "bytes:" + bytes(x).hex()
    if isinstance(x, range):
        return "range(%d,%d)" % (x.start, x.stop)
    if isinstance(x, (list, tuple)):
        return [describe(y) for y in x]
    try:
        return repr(x)[:300]
    except Exception:
        return "<%s>" % type(x).__name__


# ---------------------------------------------------------------- ghost implementations
class _Cover:
    def __init__(self, rs):
        self.rs = list(rs)

    def __getitem__(self, x):
        return any(r.start <= x < r.stop for r in self.rs)


class _Index:
    def __init__(self, rs):
        self.rs = list(rs)

    def __getitem__(self, x):
        for i, r in enumerate(self.rs):
            if r.start <= x < r.stop:
                return i
        return -1


def _py_int_ok(b):
    try:
        int(bytes(b))
        return True
    except ValueError:
        return False


def _elem(seq, i):
    if not 0 <= i < len(seq):
        raise IndexError(i)  # outside the guarded range the clause says nothing (-> Skip)
    return seq[i]


def native_env():
    return {
        "rs_cover_map": lambda rs: _Cover(rs),
        "rs_index_map": lambda rs: _Index(rs),
        # C15 (contracts/h3_headers.py): native meaning of the spec builtins / uninterpreted functions used there
        "elem": _elem,
        "py_int_ok": _py_int_ok,
        "py_int_val": lambda b: int(bytes(b)),
        "bkey": lambda b: bytes(b),
        "has_key": lambda s, c: c in s,
    }


# ---------------------------------------------------------------- generators
def _ints(model, *names):
    return [model[n] for n in names if isinstance(model.get(n), int) and not isinstance(model.get(n), bool)]


def gen_decode_packet_number(rng, model, limit):
    if all(isinstance(model.get(k), int) for k in ("truncated", "num_bits", "expected")):
        yield None, (model["truncated"], model["num_bits"], model["expected"]), {}
    for bits in (8, 16, 24, 32):
        h = 1 << (bits - 1)
        w = 1 << bits
        for e in (0, 1, h - 1, h, h + 1, w - 1, w, w + 1, 3 * w + h, (1 << 62) - 1, (1 << 62) - h, (1 << 62) - w):
            for t in (0, 1, h - 1, h, h + 1, w - 1, (e + 1) % w, (e + 1 + h) % w, (e + h) % w, (e + 2 + h) % w):
                if 0 <= e < (1 << 62):
                    yield None, (t, bits, e), {}
    while True:
        bits = rng.choice((8, 16, 24, 32))
        e = rng.choice((rng.randrange(1 << 62), rng.randrange(1 << 34), (1 << 62) - 1 - rng.randrange(1 << 33)))
        yield None, (rng.randrange(1 << bits), bits, e), {}


def _rangesets(rng, extra_ints=()):
    from aioquic.quic.rangeset import RangeSet

    dom = sorted(set(range(0, 12)) | {i for i in extra_ints if abs(i) < 10 ** 9})
    # exhaustive: every set of up to 3 ranges over 0..9 built by add
    small = list(range(0, 10))
    pairs = [(a, b) for a in small for b in small if a < b]
    yield RangeSet()
    for p in pairs:
        yield RangeSet([range(*p)])
    for p, q in itertools.combinations(pairs[::2], 2):
        yield RangeSet([range(*p), range(*q)])
    while True:
        rs = RangeSet()
        for _ in range(rng.randrange(0, 6)):
            a = rng.choice(dom)
            b = a + rng.randrange(1, 4)
            if rng.random() < 0.75:
                rs.add(a, b)
            else:
                rs.subtract(a, b)
        yield rs


def gen_rs_add(rng, model, limit):
    ints = _ints(model, "start", "stop")
    for rs in _rangesets(rng, ints):
        cands = sorted(set(range(-1, 13)) | set(ints))
        import copy

        if rng.random() < 0.2 or len(rs) <= 1:
            for a in cands:
                yield copy.deepcopy(rs), (a,), {}
                for b in cands:
                    if b > a:
                        yield copy.deepcopy(rs), (a, b), {}
        else:
            a = rng.choice(cands)
            yield copy.deepcopy(rs), (a, a + rng.randrange(1, 6)), {}


def gen_rs_subtract(rng, model, limit):
    ints = _ints(model, "start", "stop")
    import copy

    for rs in _rangesets(rng, ints):
        cands = sorted(set(range(-1, 13)) | set(ints))
        if rng.random() < 0.2 or len(rs) <= 1:
            for a in cands:
                for b in cands:
                    if b > a:
                        yield copy.deepcopy(rs), (a, b), {}
        else:
            a = rng.choice(cands)
            yield copy.deepcopy(rs), (a, a + rng.randrange(1, 6)), {}


def gen_rs_noargs(rng, model, limit):
    import copy

    for rs in _rangesets(rng):
        yield copy.deepcopy(rs), (), {}


GENS = {
    "quic/packet.py::decode_packet_number": gen_decode_packet_number,
    "quic/rangeset.py::RangeSet.add": gen_rs_add,
    "quic/rangeset.py::RangeSet.subtract": gen_rs_subtract,
    "quic/rangeset.py::RangeSet.shift": gen_rs_noargs,
    "quic/rangeset.py::RangeSet.bounds": gen_rs_noargs,
}

BOUNDED = {}


# ---------------------------------------------------------------- bounded stand-ins
def _viol(what, inp):
    return {"what": what, "input": inp}


def varint_codec(rng, limit):
    """C varint codec vs a spec function written from RFC 9000 section 16."""
    from aioquic.buffer import Buffer, BufferReadError, encode_uint_var, size_uint_var

    def spec(v):
        for n, pfx in ((1, 0), (2, 1), (4, 2), (8, 3)):
            if v < (1 << (8 * n - 2)):
                return ((pfx << (8 * n - 2)) | v).to_bytes(n, "big")
        raise ValueError

    vals = set()
    for k in (0, 6, 14, 30, 62):
        for d in (-2, -1, 0, 1, 2):
            v = (1 << k) + d
            if 0 <= v < (1 << 62):
                vals.add(v)
    vals |= set(range(0, 300))
    while len(vals) < limit:
        vals.add(rng.randrange(1 << rng.choice((6, 14, 30, 62))))
    out = {"cases": 0, "violations": [], "bound": "boundary values of every length class + %d random values < 2^62" % limit}
    for v in sorted(vals):
        out["cases"] += 1
        e = encode_uint_var(v)
        if e != spec(v) or len(e) != size_uint_var(v):
            out["violations"].append(_viol("encode!=spec", v))
            break
        b = Buffer(data=e)
        if b.pull_uint_var() != v or not b.eof():
            out["violations"].append(_viol("decode(encode(v))!=v", v))
            break
        if len(e) > 1:
            try:
                Buffer(data=e[:-1]).pull_uint_var()
                out["violations"].append(_viol("truncated varint accepted", v))
                break
            except BufferReadError:
                pass
    return out


def receiver_model(rng, limit):
    """receive half vs offset->byte reference map on random/small frame sequences."""
    from aioquic.quic.packet import QuicStreamFrame
    from aioquic.quic.stream import FinalSizeError, QuicStreamReceiver

    out = {"cases": 0, "frames": 0, "violations": [], "bound": "%d random histories of <= 8 frames/resets over stream offsets 0..23" % limit}
    for _case in range(limit):
        n = rng.randrange(4, 24)
        content = bytes(rng.randrange(256) for _ in range(n))
        rx = QuicStreamReceiver(stream_id=0, readable=True)
        ref = {}
        final = None
        delivered = b""
        ended = False
        hist = []
        for _ in range(rng.randrange(1, 9)):
            if rng.random() < 0.1:
                fs = rng.choice((n, rng.randrange(0, n + 2)))
                hist.append(("reset", fs))
                try:
                    rx.handle_reset(final_size=fs)
                    if final is not None and fs != final:
                        out["violations"].append(_viol("reset accepted against fixed final size", hist))
                    final = fs
                except FinalSizeError:
                    if final is None or fs == final:
                        out["violations"].append(_viol("spurious FinalSizeError on reset", hist))
                break
            off = rng.randrange(0, n + 1)
            ln = rng.randrange(0, n - off + 1)
            fin = rng.random() < 0.25
            if fin and rng.random() < 0.8:
                ln = n - off
            hist.append((off, ln, fin))
            out["frames"] += 1
            end = off + ln
            expect_err = final is not None and (end > final or (fin and end != final))
            try:
                ev = rx.handle_frame(QuicStreamFrame(offset=off, data=content[off:end], fin=fin))
            except FinalSizeError:
                if not expect_err:
                    out["violations"].append(_viol("spurious FinalSizeError", hist))
                continue
            if expect_err:
                out["violations"].append(_viol("missing FinalSizeError", hist))
                break
            if fin:
                final = end
            for i in range(off, end):
                ref[i] = content[i]
            if ev is not None:
                if ended and ev.data:
                    out["violations"].append(_viol("data after end marker", hist))
                delivered += ev.data
                ended = ended or ev.end_stream
            k = 0
            while k in ref:
                k += 1
            want = bytes(ref[i] for i in range(k))
            if delivered != want:
                out["violations"].append(_viol("delivered bytes != contiguous prefix of the reference map", hist))
                break
            if ended != (final is not None and k == final):
                out["violations"].append(_viol("end marker mismatch", hist))
                break
        out["cases"] += 1
        if out["violations"]:
            out["violations"] = out["violations"][:1]
            break
    return out


def sender_model(rng, limit):
    """send half vs reference: frames carry exactly the written bytes, caps respected, loss re-offers, completion."""
    from aioquic.quic.packet_builder import QuicDeliveryState
    from aioquic.quic.stream import QuicStreamSender

    out = {"cases": 0, "frames": 0, "violations": [], "bound": "%d random histories of <= 30 operations (write/get_frame/ack/loss/reset), <= 40 bytes" % limit}
    for _case in range(limit):
        tx = QuicStreamSender(stream_id=0, writable=True)
        written = b""
        fin_written = False
        outstanding = []
        acked = set()
        fin_acked = False
        reset = False
        hist = []
        for _ in range(rng.randrange(1, 31)):
            op = rng.random()
            if op < 0.3 and not fin_written and not reset and len(written) < 40:
                d = bytes(rng.randrange(256) for _ in range(rng.randrange(0, 9)))
                fin = rng.random() < 0.2
                tx.write(d, end_stream=fin)
                written += d
                fin_written = fin
                hist.append(("write", len(d), fin))
            elif op < 0.65 and not reset:
                ms = rng.randrange(0, 12)
                mo = rng.choice((None, rng.randrange(0, 45)))
                hw = tx.highest_offset
                f = tx.get_frame(ms, mo)
                hist.append(("get_frame", ms, mo, None if f is None else (f.offset, len(f.data), f.fin)))
                if f is not None:
                    out["frames"] += 1
                    end = f.offset + len(f.data)
                    if f.data != written[f.offset:end]:
                        out["violations"].append(_viol("frame bytes differ from written bytes", hist))
                    if len(f.data) > ms or (mo is not None and len(f.data) and end > mo):
                        out["violations"].append(_viol("frame exceeds size/offset cap", hist))
                    if f.fin and not (fin_written and end == len(written)):
                        out["violations"].append(_viol("FIN not at the written end", hist))
                    if tx.highest_offset != max(hw, end):
                        out["violations"].append(_viol("highest_offset is not the running maximum", hist))
                    outstanding.append((f.offset, end, f.fin))
            elif op < 0.9 and outstanding:
                a, b, fin = outstanding.pop(rng.randrange(len(outstanding)))
                ok = rng.random() < 0.6
                tx.on_data_delivery(QuicDeliveryState.ACKED if ok else QuicDeliveryState.LOST, a, b, fin)
                hist.append(("ack" if ok else "lost", a, b, fin))
                if ok and not reset:
                    acked.update(range(a, b))
                    fin_acked = fin_acked or fin
                if not ok and not reset:
                    if b > a and tx.next_offset > a:
                        out["violations"].append(_viol("lost range not re-offered", hist))
            elif op < 0.93 and not reset:
                tx.reset(7)
                reset = True
                hist.append(("reset",))
                if not tx.reset_pending:
                    out["violations"].append(_viol("reset not pending", hist))
            if not reset:
                want = fin_written and fin_acked and len(acked) == len(written)
                if tx.is_finished != want:
                    out["violations"].append(_viol("completion flag mismatch", hist))
            if out["violations"]:
                break
        out["cases"] += 1
        if out["violations"]:
            out["violations"] = out["violations"][:1]
            break
    return out


BOUNDED.update(
    {
        "rangeset-smallscope": dict(
            functions=["quic/rangeset.py::RangeSet.subtract", "quic/rangeset.py::RangeSet.add", "quic/rangeset.py::RangeSet.shift", "quic/rangeset.py::RangeSet.bounds"],
            bound="range sets enumerated in order: empty, every single range over 0..9, pairs of ranges over 0..9, then random sets from <= 5 add/subtract operations over 0..14; for sets of <= 1 range every (start, stop) over -1..12 is tried, otherwise one random interval; quick 15000 / thorough 150000 cases per function (the enumeration is cut at the case limit, see cases)",
            quick=15000,
            thorough=150000,
        ),
        "varint-codec": dict(functions=[], extra=["varint_codec"], bound="see result", quick=3000, thorough=200000),
        "stream-receiver-model": dict(functions=[], extra=["receiver_model"], bound="see result", quick=3000, thorough=100000),
        "stream-sender-model": dict(functions=[], extra=["sender_model"], bound="see result", quick=2000, thorough=60000),
    }
)


# ---------------------------------------------------------------- more replay generators
def gen_size_uint_var(rng, model, limit):
    vals = set(_ints(model, "value"))
    for k in (0, 6, 14, 15, 30, 31, 62, 63):
        for d in (-2, -1, 0, 1, 2):
            vals.add(max(0, (1 << k) + d))
    for v in sorted(vals):
        yield None, (v,), {}
    while True:
        yield None, (rng.randrange(1 << rng.choice((7, 15, 31, 63, 64))),), {}


_BYTES = [0x00, 0x09, 0x0A, 0x0D, 0x1F, 0x20, 0x21, 0x3A, 0x40, 0x41, 0x5A, 0x5B, 0x61, 0x7A, 0x7E, 0x7F, 0x80, 0xFF]


def gen_header_name(rng, model, limit):
    yield None, (b"",), {}
    for a in _BYTES:
        yield None, (bytes([a]),), {}
    for a in _BYTES:
        for b in _BYTES:
            yield None, (bytes([a, b]),), {}
    while True:
        yield None, (bytes(rng.choice(_BYTES + [0x61] * 10) for _ in range(rng.randrange(0, 6))),), {}


def gen_header_value(rng, model, limit):
    for _s, a, _kw in gen_header_name(rng, model, limit):
        yield None, (b"x-k", a[0]), {}


_H3_NAMES = [b":method", b":scheme", b":authority", b":path", b":protocol", b":status", b":foo", b":", b"content-length", b"transfer-encoding",
             b"x-a", b"te", b"", b"a:b", b"X", b"aZ", b"a b", b"\x7f", b"\x80a", b"a\xff", b"!", b"a\x00", b"z", b"\t", b"a~"]
_H3_VALUES = [b"", b"GET", b"https", b"http", b"ftp", b"/", b"h", b" ", b"\t", b" a", b"a ", b"a\t", b"a\tb", b"a\x00", b"a\nb", b"\r", b"0", b"00", b"5", b"+5",
              b"-1", b"-0", b"1_0", b"1__0", b"x", b"5x", b"trailers", b"gzip", b"200", b"\x80", b"\xff", b"!", b"\x0b5", b"\x7f"]
_H3_BASE = {
    "validate_request_headers": [(b":method", b"GET"), (b":scheme", b"https"), (b":authority", b"h"), (b":path", b"/")],
    "validate_push_promise_headers": [(b":method", b"GET"), (b":scheme", b"https"), (b":authority", b"h"), (b":path", b"/")],
    "validate_response_headers": [(b":status", b"200")],
    "validate_trailers": [(b"x-a", b"1")],
}


def _h3_blocks(rng, kind):
    """header lists: a well-formed block of the kind, then 0..3 edits (insert / duplicate / swap / delete / replace name or
    value) over the boundary names and values; plus unstructured short lists"""
    while True:
        if rng.random() < 0.15:
            h = [(rng.choice(_H3_NAMES), rng.choice(_H3_VALUES)) for _ in range(rng.randrange(0, 5))]
        else:
            h = list(_H3_BASE[kind])
            if rng.random() < 0.5:
                h.append((b"content-length", rng.choice([b"0", b"5", b"+5", b"-1", b"1_0", b"", b"x", b"00"])))
            if rng.random() < 0.3:
                h.append((rng.choice([b"x-a", b"te", b"transfer-encoding"]), rng.choice([b"1", b"trailers", b"gzip"])))
            for _ in range(rng.randrange(0, 4)):
                op = rng.randrange(6)
                pos = rng.randrange(0, len(h) + 1)
                if op == 0:
                    h.insert(pos, (rng.choice(_H3_NAMES), rng.choice(_H3_VALUES)))
                elif op == 1 and h:
                    h.insert(pos, h[rng.randrange(len(h))])
                elif op == 2 and len(h) > 1:
                    i, j = rng.randrange(len(h)), rng.randrange(len(h))
                    h[i], h[j] = h[j], h[i]
                elif op == 3 and h:
                    del h[rng.randrange(len(h))]
                elif op == 4 and h:
                    i = rng.randrange(len(h))
                    h[i] = (rng.choice(_H3_NAMES), h[i][1])
                elif op == 5 and h:
                    i = rng.randrange(len(h))
                    h[i] = (h[i][0], rng.choice(_H3_VALUES))
        yield h


def _gen_h3_block(kind, with_stream):
    def gen(rng, model, limit):
        from aioquic.h3.connection import H3Stream

        for h in _h3_blocks(rng, kind):
            if not with_stream:
                yield None, (h,), {}
            elif rng.random() < 0.2:
                yield None, (h, None), {}
            else:
                st = H3Stream(0)
                st.expected_content_length = rng.choice([None, None, 0, 5, 7])
                st.content_length = rng.choice([0, 5])
                yield None, (h, st), {}

    return gen


def _receivers(rng):
    from aioquic.quic.packet import QuicStreamFrame
    from aioquic.quic.stream import FinalSizeError, QuicStreamReceiver

    while True:
        rx = QuicStreamReceiver(stream_id=0, readable=True)
        for _ in range(rng.randrange(0, 5)):
            off = rng.randrange(0, 10)
            try:
                rx.handle_frame(QuicStreamFrame(offset=off, data=bytes(rng.randrange(0, 5)), fin=rng.random() < 0.3))
            except FinalSizeError:
                pass
        yield rx


def gen_rx_reset(rng, model, limit):
    for rx in _receivers(rng):
        yield rx, (), {"final_size": rng.randrange(0, 16)}


def gen_rx_frame(rng, model, limit):
    from aioquic.quic.packet import QuicStreamFrame

    for rx in _receivers(rng):
        yield rx, (QuicStreamFrame(offset=rng.randrange(0, 12), data=bytes(rng.randrange(0, 5)), fin=rng.random() < 0.4),), {}


def _senders(rng):
    from aioquic.quic.packet_builder import QuicDeliveryState
    from aioquic.quic.stream import QuicStreamSender

    while True:
        tx = QuicStreamSender(stream_id=0, writable=True)
        out = []
        for _ in range(rng.randrange(0, 7)):
            r = rng.random()
            if r < 0.45 and tx._buffer_fin is None:
                tx.write(bytes(rng.randrange(0, 7)), end_stream=rng.random() < 0.15)
            elif r < 0.8:
                f = tx.get_frame(rng.randrange(0, 6), rng.choice((None, rng.randrange(0, 20))))
                if f is not None:
                    out.append(f)
            elif out:
                f = out.pop()
                tx.on_data_delivery(rng.choice((QuicDeliveryState.ACKED, QuicDeliveryState.LOST)), f.offset, f.offset + len(f.data), f.fin)
        yield tx


def gen_tx_get_frame(rng, model, limit):
    for tx in _senders(rng):
        yield tx, (rng.randrange(0, 8), rng.choice((None, rng.randrange(0, 24)))), {}


def gen_tx_write(rng, model, limit):
    for tx in _senders(rng):
        yield tx, (bytes(rng.randrange(0, 6)),), {"end_stream": rng.random() < 0.3}


def _renos(rng, model):
    from aioquic.quic.congestion.reno import RenoCongestionControl
    from aioquic.quic.packet_builder import QuicSentPacket

    def pkt(t):
        return QuicSentPacket(epoch=None, in_flight=True, is_ack_eliciting=True, is_crypto_packet=False, packet_number=0, packet_type=None, sent_time=t, sent_bytes=rng.choice((50, 1200, 1280)))

    while True:
        cc = RenoCongestionControl(max_datagram_size=rng.choice((1, 1200, 1280, 1500)))
        t = 1.0
        for _ in range(rng.randrange(0, 8)):
            t += rng.random()
            if rng.random() < 0.6:
                cc.on_packets_lost(now=t, packets=[pkt(t - 0.1)])
            else:
                cc.on_packet_acked(now=t, packet=pkt(t - 0.1))
        yield cc, pkt, t


def gen_reno_lost(rng, model, limit):
    for cc, pkt, t in _renos(rng, model):
        yield cc, (), {"now": t + 1, "packets": [pkt(t + 0.5) for _ in range(rng.randrange(0, 3))]}


def gen_reno_acked(rng, model, limit):
    for cc, pkt, t in _renos(rng, model):
        yield cc, (), {"now": t + 1, "packet": pkt(t + 0.5)}


def gen_cubic_lost(rng, model, limit):
    from aioquic.quic.congestion.cubic import CubicCongestionControl
    from aioquic.quic.packet_builder import QuicSentPacket

    def pkt(t):
        return QuicSentPacket(epoch=None, in_flight=True, is_ack_eliciting=True, is_crypto_packet=False, packet_number=0, packet_type=None, sent_time=t, sent_bytes=rng.choice((50, 1200, 1280)))

    while True:
        cc = CubicCongestionControl(max_datagram_size=rng.choice((1200, 1280, 1500)))
        t = 1.0
        for _ in range(rng.randrange(0, 6)):
            t += rng.random()
            p = pkt(t - 0.1)
            cc.on_packet_sent(packet=p)
            if rng.random() < 0.5:
                cc.on_packets_lost(now=t, packets=[p])
            else:
                cc.on_packet_acked(now=t, packet=p)
        yield cc, (), {"now": t + 1, "packets": [pkt(t + 0.5) for _ in range(rng.randrange(0, 3))]}


GENS.update(
    {
        "quic/congestion/cubic.py::CubicCongestionControl.on_packets_lost": gen_cubic_lost,
        "buffer.py::size_uint_var": gen_size_uint_var,
        "h3/connection.py::validate_header_name": gen_header_name,
        "h3/connection.py::validate_header_value": gen_header_value,
        "h3/connection.py::validate_request_headers": _gen_h3_block("validate_request_headers", True),
        "h3/connection.py::validate_response_headers": _gen_h3_block("validate_response_headers", True),
        "h3/connection.py::validate_trailers": _gen_h3_block("validate_trailers", False),
        "h3/connection.py::validate_push_promise_headers": _gen_h3_block("validate_push_promise_headers", False),
        "quic/stream.py::QuicStreamReceiver.handle_reset": gen_rx_reset,
        "quic/stream.py::QuicStreamReceiver.handle_frame": gen_rx_frame,
        "quic/stream.py::QuicStreamSender.get_frame": gen_tx_get_frame,
        "quic/stream.py::QuicStreamSender.write": gen_tx_write,
        "quic/congestion/reno.py::RenoCongestionControl.on_packets_lost": gen_reno_lost,
        "quic/congestion/reno.py::RenoCongestionControl.on_packet_acked": gen_reno_acked,
    }
)


_XC = "cross-check of the proved contracts against CPython: the same clause strings are evaluated natively around the REAL function on generated reachable states; quick %d / thorough %d cases per function"
for _name, _fns, _q, _t in (
    ("native-xcheck-stream", ["quic/stream.py::QuicStreamReceiver.handle_reset", "quic/stream.py::QuicStreamReceiver.handle_frame", "quic/stream.py::QuicStreamSender.get_frame", "quic/stream.py::QuicStreamSender.write"], 3000, 60000),
    ("native-xcheck-reno", ["quic/congestion/reno.py::RenoCongestionControl.on_packets_lost", "quic/congestion/reno.py::RenoCongestionControl.on_packet_acked", "quic/congestion/cubic.py::CubicCongestionControl.on_packets_lost"], 5000, 100000),
    ("native-xcheck-h3", ["h3/connection.py::validate_header_name", "h3/connection.py::validate_header_value", "h3/connection.py::validate_request_headers", "h3/connection.py::validate_response_headers", "h3/connection.py::validate_trailers", "h3/connection.py::validate_push_promise_headers"], 3000, 100000),
    ("native-xcheck-varint", ["buffer.py::size_uint_var"], 3000, 100000),
    ("native-xcheck-pn", ["quic/packet.py::decode_packet_number"], 5000, 300000),
):
    BOUNDED[_name] = dict(functions=_fns, bound=_XC % (_q, _t), quick=_q, thorough=_t)


# ---- C helpers (engine/native/cnative.py): built from the current C sources on every run
def cbuffer_model(rng, limit):
    from engine.native import cnative

    try:
        return cnative.cbuffer_model(rng, limit)
    finally:
        cnative.cleanup()


def ccrypto_boundary(rng, limit):
    from engine.native import cnative

    try:
        return cnative.ccrypto_boundary(rng, limit)
    finally:
        cnative.cleanup()


BOUNDED["cbuffer-model"] = dict(functions=[], extra=["cbuffer_model"], bound="see result", quick=30000, thorough=400000)
BOUNDED["ccrypto-boundary"] = dict(functions=[], extra=["ccrypto_boundary"], bound="see result", quick=1, thorough=1)


def server_routing_model(rng, limit):
    """asyncio QuicServer routing callbacks vs a dict reference model (C19): random tables (keys: issued IDs, the original
    destination ID, a retry source ID, foreign IDs), then _connection_id_issued / _connection_id_retired /
    _connection_terminated in random order on the REAL QuicServer; after _connection_terminated(p) no key maps to p and every
    other entry is unchanged."""
    import types

    from aioquic.asyncio.server import QuicServer
    out = {"cases": 0, "violations": [], "bound": "tables of <= 8 entries over <= 3 protocols, <= 6 operations each; %d tables" % limit}
    for _case in range(limit):
        server = QuicServer.__new__(QuicServer)  # the constructor needs a running event loop; the three callbacks only use _protocols
        protos = []
        for i in range(rng.randint(1, 3)):
            n_host = rng.randint(0, 3)
            quic = types.SimpleNamespace(
                _host_cids=[types.SimpleNamespace(cid=bytes([i, 10 + j]) * 4, sequence_number=j) for j in range(n_host)],
                original_destination_connection_id=bytes([i, 99]) * 4,
                host_cid=bytes([i, 10]) * 4,
            )
            protos.append(types.SimpleNamespace(_quic=quic, name="p%d" % i))
        ref = {}
        for p in protos:
            keys = [c.cid for c in p._quic._host_cids] + [p._quic.original_destination_connection_id]
            if rng.random() < 0.5:
                keys.append(bytes([7, len(ref)]) * 4)  # e.g. the retry source connection ID: filed, but in neither list
            for k in keys:
                if rng.random() < 0.8:
                    ref[k] = p
        server._protocols = dict(ref)
        ops = []
        for _ in range(rng.randint(1, 6)):
            p = rng.choice(protos)
            kind = rng.choice(("issued", "retired", "terminated", "terminated"))
            try:
                if kind == "issued":
                    cid = bytes([8, rng.randrange(4)]) * 4
                    server._connection_id_issued(cid, p)
                    ref[cid] = p
                elif kind == "retired":
                    mine = [k for k, v in ref.items() if v is p]
                    if not mine:
                        continue
                    cid = rng.choice(mine)
                    server._connection_id_retired(cid, p)
                    del ref[cid]
                else:
                    server._connection_terminated(p)
                    ref = {k: v for k, v in ref.items() if v is not p}
                ops.append((kind, p.name))
            except Exception as e:  # noqa
                out["violations"].append(_viol("%s raised %s" % (kind, type(e).__name__), {"ops": ops + [(kind, p.name)]}))
                return out
            got = {k: v for k, v in server._protocols.items()}
            if set(got) != set(ref) or any(got[k] is not ref[k] for k in ref):
                left = sorted(k.hex() for k in set(got) - set(ref))
                out["violations"].append(_viol("routing table differs from the model after %s(%s): entries left behind %s, missing %s" % (kind, p.name, left, sorted(k.hex() for k in set(ref) - set(got))), {"ops": ops}))
                return out
        out["cases"] += 1
    return out


BOUNDED["server-routing-model"] = dict(functions=[], extra=["server_routing_model"], bound="see result", quick=2000, thorough=50000)
