"""Native input generators for replay and bounded stand-ins (run under /venv/bin/python).

GENS[qual](rng, model, limit) yields (self_obj | None, args, kwargs); the first cases are
built from the verifier's counter-model where it names integer arguments, the rest enumerate /
sample a small scope.  States of objects are only ever built through the public API of the real
class, so every generated state is reachable.
"""
import itertools


def describe(x):
    if x is None or isinstance(x, (int, bool, str, float)):
        return x
    if isinstance(x, (bytes, bytearray)):
        return "bytes:" + bytes(x).hex()
    if isinstance(x, range):
        return "range(%d,%d)" % (x.start, x.stop)
    if isinstance(x, (list, tuple)):
        return [describe(y) for y in x]
    try:
        return repr(x)[:300]
    except Exception:
        return "<%s>" % type(x).__name__


# ---------------------------------------------------------------- ghost implementations
class _Cover:
    def __init__(self, rs):
        self.rs = list(rs)

    def __getitem__(self, x):
        return any(r.start <= x < r.stop for r in self.rs)


class _Index:
    def __init__(self, rs):
        self.rs = list(rs)

    def __getitem__(self, x):
        for i, r in enumerate(self.rs):
            if r.start <= x < r.stop:
                return i
        return -1


def native_env():
    return {"rs_cover_map": lambda rs: _Cover(rs), "rs_index_map": lambda rs: _Index(rs)}


# ---------------------------------------------------------------- generators
def _ints(model, *names):
    return [model[n] for n in names if isinstance(model.get(n), int) and not isinstance(model.get(n), bool)]


def gen_decode_packet_number(rng, model, limit):
    if all(isinstance(model.get(k), int) for k in ("truncated", "num_bits", "expected")):
        yield None, (model["truncated"], model["num_bits"], model["expected"]), {}
    for bits in (8, 16, 24, 32):
        h = 1 << (bits - 1)
        w = 1 << bits
        for e in (0, 1, h - 1, h, h + 1, w - 1, w, w + 1, 3 * w + h, (1 << 62) - 1, (1 << 62) - h, (1 << 62) - w):
            for t in (0, 1, h - 1, h, h + 1, w - 1, (e + 1) % w, (e + 1 + h) % w, (e + h) % w, (e + 2 + h) % w):
                if 0 <= e < (1 << 62):
                    yield None, (t, bits, e), {}
    while True:
        bits = rng.choice((8, 16, 24, 32))
        e = rng.choice((rng.randrange(1 << 62), rng.randrange(1 << 34), (1 << 62) - 1 - rng.randrange(1 << 33)))
        yield None, (rng.randrange(1 << bits), bits, e), {}


def _rangesets(rng, extra_ints=()):
    from aioquic.quic.rangeset import RangeSet

    dom = sorted(set(range(0, 12)) | {i for i in extra_ints if abs(i) < 10 ** 9})
    # exhaustive: every set of up to 3 ranges over 0..9 built by add
    small = list(range(0, 10))
    pairs = [(a, b) for a in small for b in small if a < b]
    yield RangeSet()
    for p in pairs:
        yield RangeSet([range(*p)])
    for p, q in itertools.combinations(pairs[::2], 2):
        yield RangeSet([range(*p), range(*q)])
    while True:
        rs = RangeSet()
        for _ in range(rng.randrange(0, 6)):
            a = rng.choice(dom)
            b = a + rng.randrange(1, 4)
            if rng.random() < 0.75:
                rs.add(a, b)
            else:
                rs.subtract(a, b)
        yield rs


def gen_rs_add(rng, model, limit):
    ints = _ints(model, "start", "stop")
    for rs in _rangesets(rng, ints):
        cands = sorted(set(range(-1, 13)) | set(ints))
        import copy

        if rng.random() < 0.2 or len(rs) <= 1:
            for a in cands:
                yield copy.deepcopy(rs), (a,), {}
                for b in cands:
                    if b > a:
                        yield copy.deepcopy(rs), (a, b), {}
        else:
            a = rng.choice(cands)
            yield copy.deepcopy(rs), (a, a + rng.randrange(1, 6)), {}


def gen_rs_subtract(rng, model, limit):
    ints = _ints(model, "start", "stop")
    import copy

    for rs in _rangesets(rng, ints):
        cands = sorted(set(range(-1, 13)) | set(ints))
        if rng.random() < 0.2 or len(rs) <= 1:
            for a in cands:
                for b in cands:
                    if b > a:
                        yield copy.deepcopy(rs), (a, b), {}
        else:
            a = rng.choice(cands)
            yield copy.deepcopy(rs), (a, a + rng.randrange(1, 6)), {}


def gen_rs_noargs(rng, model, limit):
    import copy

    for rs in _rangesets(rng):
        yield copy.deepcopy(rs), (), {}


GENS = {
    "quic/packet.py::decode_packet_number": gen_decode_packet_number,
    "quic/rangeset.py::RangeSet.add": gen_rs_add,
    "quic/rangeset.py::RangeSet.subtract": gen_rs_subtract,
    "quic/rangeset.py::RangeSet.shift": gen_rs_noargs,
    "quic/rangeset.py::RangeSet.bounds": gen_rs_noargs,
}

BOUNDED = {}


# ---------------------------------------------------------------- bounded stand-ins
def _viol(what, inp):
    return {"what": what, "input": inp}


def varint_codec(rng, limit):
    """C varint codec vs a spec function written from RFC 9000 section 16."""
    from aioquic.buffer import Buffer, BufferReadError, encode_uint_var, size_uint_var

    def spec(v):
        for n, pfx in ((1, 0), (2, 1), (4, 2), (8, 3)):
            if v < (1 << (8 * n - 2)):
                return ((pfx << (8 * n - 2)) | v).to_bytes(n, "big")
        raise ValueError

    vals = set()
    for k in (0, 6, 14, 30, 62):
        for d in (-2, -1, 0, 1, 2):
            v = (1 << k) + d
            if 0 <= v < (1 << 62):
                vals.add(v)
    vals |= set(range(0, 300))
    while len(vals) < limit:
        vals.add(rng.randrange(1 << rng.choice((6, 14, 30, 62))))
    out = {"cases": 0, "violations": [], "bound": "boundary values of every length class + %d random values < 2^62" % limit}
    for v in sorted(vals):
        out["cases"] += 1
        e = encode_uint_var(v)
        if e != spec(v) or len(e) != size_uint_var(v):
            out["violations"].append(_viol("encode!=spec", v))
            break
        b = Buffer(data=e)
        if b.pull_uint_var() != v or not b.eof():
            out["violations"].append(_viol("decode(encode(v))!=v", v))
            break
        if len(e) > 1:
            try:
                Buffer(data=e[:-1]).pull_uint_var()
                out["violations"].append(_viol("truncated varint accepted", v))
                break
            except BufferReadError:
                pass
    return out


def receiver_model(rng, limit):
    """receive half vs offset->byte reference map on random/small frame sequences."""
    from aioquic.quic.packet import QuicStreamFrame
    from aioquic.quic.stream import FinalSizeError, QuicStreamReceiver

    out = {"cases": 0, "frames": 0, "violations": [], "bound": "%d random histories of <= 8 frames/resets over stream offsets 0..23" % limit}
    for _case in range(limit):
        n = rng.randrange(4, 24)
        content = bytes(rng.randrange(256) for _ in range(n))
        rx = QuicStreamReceiver(stream_id=0, readable=True)
        ref = {}
        final = None
        delivered = b""
        ended = False
        hist = []
        for _ in range(rng.randrange(1, 9)):
            if rng.random() < 0.1:
                fs = rng.choice((n, rng.randrange(0, n + 2)))
                hist.append(("reset", fs))
                try:
                    rx.handle_reset(final_size=fs)
                    if final is not None and fs != final:
                        out["violations"].append(_viol("reset accepted against fixed final size", hist))
                    final = fs
                except FinalSizeError:
                    if final is None or fs == final:
                        out["violations"].append(_viol("spurious FinalSizeError on reset", hist))
                break
            off = rng.randrange(0, n + 1)
            ln = rng.randrange(0, n - off + 1)
            fin = rng.random() < 0.25
            if fin and rng.random() < 0.8:
                ln = n - off
            hist.append((off, ln, fin))
            out["frames"] += 1
            end = off + ln
            expect_err = final is not None and (end > final or (fin and end != final))
            try:
                ev = rx.handle_frame(QuicStreamFrame(offset=off, data=content[off:end], fin=fin))
            except FinalSizeError:
                if not expect_err:
                    out["violations"].append(_viol("spurious FinalSizeError", hist))
                continue
            if expect_err:
                out["violations"].append(_viol("missing FinalSizeError", hist))
                break
            if fin:
                final = end
            for i in range(off, end):
                ref[i] = content[i]
            if ev is not None:
                if ended and ev.data:
                    out["violations"].append(_viol("data after end marker", hist))
                delivered += ev.data
                ended = ended or ev.end_stream
            k = 0
            while k in ref:
                k += 1
            want = bytes(ref[i] for i in range(k))
            if delivered != want:
                out["violations"].append(_viol("delivered bytes != contiguous prefix of the reference map", hist))
                break
            if ended != (final is not None and k == final):
                out["violations"].append(_viol("end marker mismatch", hist))
                break
        out["cases"] += 1
        if out["violations"]:
            out["violations"] = out["violations"][:1]
            break
    return out


def sender_model(rng, limit):
    """send half vs reference: frames carry exactly the written bytes, caps respected, loss re-offers, completion."""
    from aioquic.quic.packet_builder import QuicDeliveryState
    from aioquic.quic.stream import QuicStreamSender

    out = {"cases": 0, "frames": 0, "violations": [], "bound": "%d random histories of <= 30 operations (write/get_frame/ack/loss/reset), <= 40 bytes" % limit}
    for _case in range(limit):
        tx = QuicStreamSender(stream_id=0, writable=True)
        written = b""
        fin_written = False
        outstanding = []
        acked = set()
        fin_acked = False
        reset = False
        hist = []
        for _ in range(rng.randrange(1, 31)):
            op = rng.random()
            if op < 0.3 and not fin_written and not reset and len(written) < 40:
                d = bytes(rng.randrange(256) for _ in range(rng.randrange(0, 9)))
                fin = rng.random() < 0.2
                tx.write(d, end_stream=fin)
                written += d
                fin_written = fin
                hist.append(("write", len(d), fin))
            elif op < 0.65 and not reset:
                ms = rng.randrange(0, 12)
                mo = rng.choice((None, rng.randrange(0, 45)))
                hw = tx.highest_offset
                f = tx.get_frame(ms, mo)
                hist.append(("get_frame", ms, mo, None if f is None else (f.offset, len(f.data), f.fin)))
                if f is not None:
                    out["frames"] += 1
                    end = f.offset + len(f.data)
                    if f.data != written[f.offset:end]:
                        out["violations"].append(_viol("frame bytes differ from written bytes", hist))
                    if len(f.data) > ms or (mo is not None and len(f.data) and end > mo):
                        out["violations"].append(_viol("frame exceeds size/offset cap", hist))
                    if f.fin and not (fin_written and end == len(written)):
                        out["violations"].append(_viol("FIN not at the written end", hist))
                    if tx.highest_offset != max(hw, end):
                        out["violations"].append(_viol("highest_offset is not the running maximum", hist))
                    outstanding.append((f.offset, end, f.fin))
            elif op < 0.9 and outstanding:
                a, b, fin = outstanding.pop(rng.randrange(len(outstanding)))
                ok = rng.random() < 0.6
                tx.on_data_delivery(QuicDeliveryState.ACKED if ok else QuicDeliveryState.LOST, a, b, fin)
                hist.append(("ack" if ok else "lost", a, b, fin))
                if ok and not reset:
                    acked.update(range(a, b))
                    fin_acked = fin_acked or fin
                if not ok and not reset:
                    if b > a and tx.next_offset > a:
                        out["violations"].append(_viol("lost range not re-offered", hist))
            elif op < 0.93 and not reset:
                tx.reset(7)
                reset = True
                hist.append(("reset",))
                if not tx.reset_pending:
                    out["violations"].append(_viol("reset not pending", hist))
            if not reset:
                want = fin_written and fin_acked and len(acked) == len(written)
                if tx.is_finished != want:
                    out["violations"].append(_viol("completion flag mismatch", hist))
            if out["violations"]:
                break
        out["cases"] += 1
        if out["violations"]:
            out["violations"] = out["violations"][:1]
            break
    return out


BOUNDED.update(
    {
        "rangeset-smallscope": dict(
            functions=["quic/rangeset.py::RangeSet.subtract", "quic/rangeset.py::RangeSet.add", "quic/rangeset.py::RangeSet.shift", "quic/rangeset.py::RangeSet.bounds"],
            bound="range sets enumerated in order: empty, every single range over 0..9, pairs of ranges over 0..9, then random sets from <= 5 add/subtract operations over 0..14; for sets of <= 1 range every (start, stop) over -1..12 is tried, otherwise one random interval; quick 15000 / thorough 150000 cases per function (the enumeration is cut at the case limit, see cases)",
            quick=15000,
            thorough=150000,
        ),
        "varint-codec": dict(functions=[], extra=["varint_codec"], bound="see result", quick=3000, thorough=200000),
        "stream-receiver-model": dict(functions=[], extra=["receiver_model"], bound="see result", quick=3000, thorough=100000),
        "stream-sender-model": dict(functions=[], extra=["sender_model"], bound="see result", quick=2000, thorough=60000),
    }
)
