"""Native checks of the C helpers (run under /venv/bin/python).

The extensions are compiled from the CURRENT _buffer.c / _crypto.c (under $AIOQUIC_SRC or /repo/src/aioquic)
into a temporary directory on every run, loaded under private module names, exercised against independent
reference models written from RFC 9000 §16 / RFC 9001 §5 (pure Python + `cryptography`), and the directory is
removed.  Every call that could crash runs in a forked child.  These are bounded stand-ins / replays, never
counted as proof.
"""
import importlib.machinery
import importlib.util
import json
import os
import shutil
import struct
import subprocess
import sys
import tempfile

SRC = os.environ.get("AIOQUIC_SRC") or (os.path.join(os.environ["VERIF_SRC_PARENT"], "aioquic") if os.environ.get("VERIF_SRC_PARENT") else "/repo/src/aioquic")
PYINC = "/root/.pyenv/versions/3.12.1/include/python3.12"

_built = {}


def build(name):
    """compile <SRC>/<name>.c into a temp dir; returns path of the .so"""
    if name in _built:
        return _built[name]
    d = tempfile.mkdtemp(prefix="verif_cbuild_")
    so = os.path.join(d, name + ".abi3.so")
    cmd = ["gcc", "-shared", "-fPIC", "-O1", "-std=c99", "-DPy_LIMITED_API=0x030A0000", "-I" + PYINC, os.path.join(SRC, name + ".c"), "-o", so]
    if name == "_crypto":
        cmd.append("-lcrypto")
    r = subprocess.run(cmd, capture_output=True, text=True)
    if r.returncode != 0:
        shutil.rmtree(d, ignore_errors=True)
        raise RuntimeError("C build failed: " + r.stderr[-1500:])
    _built[name] = so
    return so


def cleanup():
    for so in _built.values():
        shutil.rmtree(os.path.dirname(so), ignore_errors=True)
    _built.clear()


def load(name):
    so = build(name)
    loader = importlib.machinery.ExtensionFileLoader(name, so)
    spec = importlib.util.spec_from_file_location(name, so, loader=loader)
    mod = importlib.util.module_from_spec(spec)
    loader.exec_module(mod)
    return mod


def in_child(fn, *args):
    """run fn(*args) in a forked child; returns ('ok', json-able) | ('signal', n) | ('exc', text)"""
    r, w = os.pipe()
    pid = os.fork()
    if pid == 0:
        os.close(r)
        try:
            out = ("ok", fn(*args))
        except BaseException as e:  # noqa
            out = ("exc", "%s: %s" % (type(e).__name__, e))
        try:
            os.write(w, json.dumps(out, default=lambda o: o.hex() if isinstance(o, (bytes, bytearray)) else repr(o)).encode())
        finally:
            os._exit(0)
    os.close(w)
    data = b""
    while True:
        chunk = os.read(r, 65536)
        if not chunk:
            break
        data += chunk
    os.close(r)
    _, status = os.waitpid(pid, 0)
    if os.WIFSIGNALED(status):
        return ("signal", os.WTERMSIG(status))
    try:
        return tuple(json.loads(data.decode()))
    except Exception:
        return ("signal", -1)


# ------------------------------------------------------------------ reference model of Buffer (RFC 9000 §16)
class RefBuffer:
    def __init__(self, data: bytes, pos=0):
        self.mem = bytearray(data)
        self.pos = pos

    @property
    def cap(self):
        return len(self.mem)

    def call(self, method, args):
        """returns (kind, value): ('ok', v) | ('err', 'BufferReadError'|'BufferWriteError'|'ValueError'|'OverflowError'...)"""
        m, p, cap = self.mem, self.pos, self.cap
        if method.startswith("pull_uint") and method != "pull_uint_var":
            n = int(method[9:]) // 8
            if p + n > cap:
                return ("err", "BufferReadError")
            self.pos += n
            return ("ok", int.from_bytes(m[p : p + n], "big"))
        if method == "pull_uint_var":
            if p >= cap:
                return ("err", "BufferReadError")
            n = 1 << (m[p] >> 6)
            if p + n > cap:
                return ("err", "BufferReadError")
            self.pos += n
            return ("ok", int.from_bytes(m[p : p + n], "big") & ((1 << (8 * n - 2)) - 1))
        if method.startswith("push_uint") and method != "push_uint_var":
            n = int(method[9:]) // 8
            (v,) = args
            if v < 0:
                return ("err", "OverflowError")
            v &= (1 << (8 * n)) - 1  # format units B / H / I / K do no overflow checking (documented CPython behaviour)
            if p + n > cap:
                return ("err", "BufferWriteError")
            m[p : p + n] = v.to_bytes(n, "big")
            self.pos += n
            return ("ok", None)
        if method == "push_uint_var":
            (v,) = args
            if v < 0:
                return ("err", "OverflowError")
            v &= (1 << 64) - 1
            if v > (1 << 62) - 1:
                return ("err", "ValueError")
            n = 1 if v < 64 else 2 if v < 16384 else 4 if v < (1 << 30) else 8
            if p + n > cap:
                return ("err", "BufferWriteError")
            m[p : p + n] = (v | ({1: 0, 2: 1, 4: 2, 8: 3}[n] << (8 * n - 2))).to_bytes(n, "big")
            self.pos += n
            return ("ok", None)
        if method == "push_bytes":
            (d,) = args
            if p + len(d) > cap:
                return ("err", "BufferWriteError")
            m[p : p + len(d)] = d
            self.pos += len(d)
            return ("ok", None)
        if method == "pull_bytes":
            (n,) = args
            if n < 0 or p + n > cap:
                return ("err", "BufferReadError")
            self.pos += n
            return ("ok", bytes(m[p : p + n]))
        if method == "seek":
            (q,) = args
            if q < 0 or q > cap:
                return ("err", "BufferReadError")
            self.pos = q
            return ("ok", None)
        if method == "tell":
            return ("ok", p)
        if method == "eof":
            return ("ok", p == cap)
        if method == "data_slice":
            a, b = args
            if a < 0 or a > cap or b < 0 or b > cap or b < a:
                return ("err", "BufferReadError")
            return ("ok", bytes(m[a:b]))
        raise KeyError(method)


I64 = (1 << 63) - 1
BOUNDARY_INTS = [0, 1, 2, 63, 64, 255, 256, 16383, 16384, 65535, 65536, (1 << 30) - 1, 1 << 30, (1 << 32) - 1, 1 << 32, (1 << 62) - 1, 1 << 62, (1 << 64) - 1]


def _buffer_case(mod, data, pos, method, args):
    """run one call on the real Buffer; returns observation dict (in child)"""
    b = mod.Buffer(data=data)
    b.seek(pos)
    try:
        v = getattr(b, method)(*args)
        kind = ("ok", v)
    except Exception as e:  # noqa
        kind = ("err", type(e).__name__)
    return {"kind": kind[0], "value": kind[1] if not isinstance(kind[1], (bytes, bytearray)) else "hex:" + bytes(kind[1]).hex(), "pos": b.tell(), "cap": b.capacity, "mem": b.data_slice(0, b.capacity).hex() if b.capacity < 4096 else ""}


def _expect(data, pos, method, args):
    r = RefBuffer(data, pos)
    k, v = r.call(method, args)
    if isinstance(v, (bytes, bytearray)):
        v = "hex:" + bytes(v).hex()
    return {"kind": k, "value": v, "pos": r.pos, "cap": r.cap, "mem": bytes(r.mem).hex()}


def buffer_cases(rng, limit, small=True):
    methods = ["pull_uint8", "pull_uint16", "pull_uint32", "pull_uint64", "pull_uint_var", "tell", "eof"]
    n = 0
    for cap in range(0, 10):
        for pos in range(0, cap + 1):
            for first in (0x00, 0x3F, 0x40, 0x7F, 0x80, 0xBF, 0xC0, 0xFF):
                data = bytes([first if i == pos else (i * 37 + 11) & 0xFF for i in range(cap)])
                for mth in methods:
                    yield data, pos, mth, ()
                for v in BOUNDARY_INTS:
                    for mth in ("push_uint8", "push_uint16", "push_uint32", "push_uint64", "push_uint_var"):
                        if first == 0:
                            yield data, pos, mth, (v,)
                if first == 0:
                    for k in (-1, 0, 1, cap - pos, cap - pos + 1, cap, I64):
                        yield data, pos, "pull_bytes", (k,)
                        yield data, pos, "seek", (k,)
                        for k2 in (-1, 0, cap, cap + 1, I64):
                            yield data, pos, "data_slice", (k, k2)
                    for ln in (0, 1, cap - pos, cap - pos + 1):
                        if ln >= 0:
                            yield data, pos, "push_bytes", (bytes(range(ln)),)
    while True:
        cap = rng.randrange(0, 40)
        pos = rng.randrange(0, cap + 1)
        data = bytes(rng.randrange(256) for _ in range(cap))
        mth = rng.choice(methods + ["push_uint8", "push_uint16", "push_uint32", "push_uint64", "push_uint_var", "pull_bytes", "seek"])
        if mth.startswith("push"):
            args = (rng.choice(BOUNDARY_INTS + [rng.randrange(1 << 64)]),)
        elif mth in ("pull_bytes", "seek"):
            args = (rng.choice([-1, 0, 1, cap - pos, cap - pos + 1, rng.randrange(-3, 50), I64]),)
        else:
            args = ()
        yield data, pos, mth, args


def cbuffer_model(rng, limit):
    """bounded: every Buffer method on every (capacity <= 9, position, boundary argument) + random, vs the reference model"""
    mod = load("_buffer")
    viols = []
    n = 0
    batch = []

    def flush():
        def run(cases):
            return [_buffer_case(mod, *c) for c in cases]

        res = in_child(run, batch)
        if res[0] != "ok":
            # find the crashing case individually
            for c in batch:
                r1 = in_child(_buffer_case, mod, *c)
                if r1[0] != "ok":
                    viols.append({"what": "crash:%s" % c[2], "input": {"data": c[0].hex(), "pos": c[1], "method": c[2], "args": [str(a) if not isinstance(a, bytes) else a.hex() for a in c[3]]}, "observed": list(r1)})
                    return
            return
        for c, got in zip(batch, res[1]):
            want = _expect(*c)
            if c[2] in ("push_uint32", "push_uint64", "push_uint_var", "push_uint8", "push_uint16") and want["kind"] == "err" and want["value"] == "OverflowError":
                if got["kind"] == "err":
                    continue
            if got != want:
                viols.append({"what": "model-mismatch:%s" % c[2], "input": {"data": c[0].hex(), "pos": c[1], "method": c[2], "args": [str(a) if not isinstance(a, bytes) else a.hex() for a in c[3]]}, "observed": got, "expected": want})
                return

    for case in buffer_cases(rng, limit):
        batch.append(case)
        n += 1
        if len(batch) >= 500:
            flush()
            batch = []
            if viols:
                break
        if n >= limit:
            break
    if batch and not viols:
        flush()
    # constructor
    if not viols:
        for kw in ({"capacity": -1}, {"capacity": -(1 << 62)}, {"capacity": 1 << 62}, {"capacity": 0}, {"data": b""}):
            def ctor(kw=kw):
                try:
                    b = mod.Buffer(**kw)
                except (ValueError, MemoryError, OverflowError) as e:
                    return "rejected:" + type(e).__name__
                try:
                    b.push_uint8(1)
                    return "accepted and wrote 1 byte into capacity %d" % b.capacity
                except Exception as e:  # noqa
                    return "usable:" + type(e).__name__
            r = in_child(ctor)
            bad = r[0] != "ok" or (isinstance(r[1], str) and r[1].startswith("accepted") and kw.get("capacity", 0) <= 0)
            if bad:
                viols.append({"what": "crash:Buffer.__init__", "input": {k: (v if isinstance(v, int) else v.hex()) for k, v in kw.items()}, "observed": list(r)})
                break
    return {"cases": n, "violations": viols, "bound": "all methods x capacities 0..9 x all positions x boundary arguments (0, 63/64, 16383/16384, 2^30, 2^62-1, 2^62, 2^64-1, -1, 2^63-1) exhaustively, then random up to the case limit; constructor with negative / huge / zero capacity"}


# ------------------------------------------------------------------ crypto reference (RFC 9001 §5.3, §5.4)
CIPHERS = [(b"aes-128-ecb", b"aes-128-gcm", 16), (b"aes-256-ecb", b"aes-256-gcm", 32), (b"chacha20", b"chacha20-poly1305", 32)]


def ref_aead_encrypt(aead_name, key, iv, pn, data, aad):
    from cryptography.hazmat.primitives.ciphers.aead import AESGCM, ChaCha20Poly1305

    nonce = bytes(a ^ b for a, b in zip(iv, bytes(4) + pn.to_bytes(8, "big")))
    c = (ChaCha20Poly1305 if aead_name.startswith(b"chacha") else AESGCM)(key)
    return c.encrypt(nonce, data, aad)


def ref_mask(hp_name, key, sample):
    from cryptography.hazmat.primitives.ciphers import Cipher, algorithms, modes

    if hp_name == b"chacha20":
        enc = Cipher(algorithms.ChaCha20(key, sample), mode=None).encryptor()
        return enc.update(bytes(5))
    enc = Cipher(algorithms.AES(key), modes.ECB()).encryptor()
    return enc.update(sample)[:5]


def ref_hp_apply(hp_name, key, header, payload):
    pnl = (header[0] & 3) + 1
    sample = payload[4 - pnl : 4 - pnl + 16]
    mask = ref_mask(hp_name, key, sample)
    out = bytearray(header + payload)
    out[0] ^= mask[0] & (0x0F if out[0] & 0x80 else 0x1F)
    off = len(header) - pnl
    for i in range(pnl):
        out[off + i] ^= mask[1 + i]
    return bytes(out)


def ccrypto_boundary(rng, limit):
    """bounded: AEAD / HeaderProtection vs independent RFC 9001 reference; boundary lengths; single-bit tampering of tags"""
    mod = load("_crypto")
    viols = []
    n = 0

    def add(what, inp, obs, exp=None):
        viols.append({"what": what, "input": inp, "observed": obs, "expected": exp})

    for hp_name, aead_name, klen in CIPHERS:
        key = bytes(rng.randrange(256) for _ in range(klen))
        iv = bytes(rng.randrange(256) for _ in range(12))
        hpk = bytes(rng.randrange(256) for _ in range(klen))

        def one_aead(dlen, alen, pn):
            a = mod.AEAD(aead_name, key, iv)
            data = bytes((i * 7 + dlen) & 0xFF for i in range(dlen))
            aad = bytes((i * 3 + 1) & 0xFF for i in range(alen))
            try:
                ct = a.encrypt(data, aad, pn)
            except mod.CryptoError:
                ct2 = a.encrypt(b"probe", b"", 1)
                return {"enc": "rejected", "still_usable": ct2.hex()}
            back = a.decrypt(ct, aad, pn)
            # tamper: flip one bit in each of the last 16 bytes (tag) and two in the body
            accepted = []
            for pos in list(range(len(ct) - 16, len(ct))) + ([0] if dlen else []):
                bad = bytearray(ct)
                bad[pos] ^= 1 << (pos % 8)
                try:
                    a.decrypt(bytes(bad), aad, pn)
                    accepted.append(pos - len(ct))
                except mod.CryptoError:
                    pass
            # altered associated data must be rejected too
            if alen:
                try:
                    a.decrypt(ct, aad[:-1] + bytes([aad[-1] ^ 0x80]), pn)
                    accepted.append("aad")
                except mod.CryptoError:
                    pass
            ct2 = a.encrypt(b"probe", b"", 1)
            return {"enc": ct.hex(), "back": back.hex(), "tamper_accepted": accepted, "still_usable": ct2.hex()}

        probe_ref = ref_aead_encrypt(aead_name, key, iv, 1, b"probe", b"").hex()
        for dlen in (0, 1, 15, 16, 17, 1200, 1483, 1484, 1485, 1499, 1500, 1501, 1517, 1600):
            for alen, pn in ((0, 0), (1, 1), (25, (1 << 62) - 1), (60, 0x0102030405060708), (30, (1 << 32) + 5)):
                n += 1
                r = in_child(one_aead, dlen, alen, pn)
                inp = {"cipher": aead_name.decode(), "plaintext_len": dlen, "aad_len": alen, "pn": pn}
                if r[0] != "ok":
                    add("crash:AEAD", inp, list(r))
                    break
                o = r[1]
                if o["still_usable"] != probe_ref:
                    add("state-corrupted:AEAD", inp, "after the call the same AEAD object no longer produces the reference ciphertext (key/iv clobbered)")
                    break
                if o["enc"] == "rejected":
                    if dlen <= 1484:
                        add("spurious-reject:AEAD.encrypt", inp, "rejected")
                    continue
                data = bytes((i * 7 + dlen) & 0xFF for i in range(dlen))
                aad = bytes((i * 3 + 1) & 0xFF for i in range(alen))
                want = ref_aead_encrypt(aead_name, key, iv, pn, data, aad).hex()
                if o["enc"] != want:
                    add("reference-mismatch:AEAD.encrypt", inp, o["enc"][:80], want[:80])
                    break
                if o["back"] != data.hex():
                    add("roundtrip:AEAD", inp, o["back"][:80])
                    break
                if o["tamper_accepted"]:
                    add("tamper-accepted:AEAD.decrypt", inp, o["tamper_accepted"])
                    break
            if viols:
                break
        if viols:
            break

        def one_hp(hlen, plen, first, off_override=None):
            h = mod.HeaderProtection(hp_name, hpk)
            header = bytes([first]) + bytes((i * 5 + 9) & 0xFF for i in range(max(hlen - 1, 0))) if hlen else b""
            payload = bytes((i * 11 + 3) & 0xFF for i in range(plen))
            try:
                prot = h.apply(header, payload)
            except mod.CryptoError:
                return {"apply": "rejected"}
            pnl = (first & 3) + 1
            off = hlen - pnl if off_override is None else off_override
            try:
                ph, pn = h.remove(prot, off)
            except mod.CryptoError:
                return {"apply": prot.hex(), "remove": "rejected"}
            return {"apply": prot.hex(), "remove": [ph.hex(), pn]}

        for first in (0xC0, 0xC3, 0x43, 0x41, 0x7F, 0xFF):
            for hlen, plen in ((0, 40), (1, 40), (2, 40), (5, 20), (5, 19), (5, 18), (5, 17), (5, 16), (30, 1200), (30, 1470), (30, 1471), (700, 800), (700, 801), (1500, 0), (1501, 30), (6000, 40)):
                n += 1
                r = in_child(one_hp, hlen, plen, first)
                inp = {"cipher": hp_name.decode(), "header_len": hlen, "payload_len": plen, "first_byte": first}
                if r[0] != "ok":
                    add("crash:HeaderProtection", inp, list(r))
                    break
                o = r[1]
                pnl = (first & 3) + 1
                fits = hlen >= 1 and hlen - pnl >= 1 and hlen + plen <= 1500 and plen >= 4 - pnl + 16
                if o["apply"] == "rejected":
                    if fits:
                        add("spurious-reject:HeaderProtection.apply", inp, "rejected")
                        break
                    continue
                if not fits:
                    add("accepted-out-of-bounds:HeaderProtection.apply", inp, "accepted although header+payload do not fit the 1500-byte scratch buffer / the sample lies outside the payload")
                    break
                header = bytes([first]) + bytes((i * 5 + 9) & 0xFF for i in range(hlen - 1))
                payload = bytes((i * 11 + 3) & 0xFF for i in range(plen))
                want = ref_hp_apply(hp_name, hpk, header, payload).hex()
                if o["apply"] != want:
                    add("reference-mismatch:HeaderProtection.apply", inp, o["apply"][:80], want[:80])
                    break
                if o["remove"] == "rejected":
                    add("spurious-reject:HeaderProtection.remove", inp, "rejected")
                    break
                want_pn = int.from_bytes(header[hlen - pnl :], "big")
                if o["remove"] != [header.hex(), want_pn]:
                    add("roundtrip:HeaderProtection", inp, o["remove"], [header.hex(), want_pn])
                    break
            if viols:
                break
        if viols:
            break
        # remove(): offsets around the packet end / scratch size
        for plen, off in ((0, 0), (2, 1), (21, 1), (20, 1), (21, 2), (40, 0), (40, 20), (40, 21), (1500, 1480), (1520, 1496), (1520, 1497), (7000, 6000), (40, (1 << 31)), (40, (1 << 32) - 1)):
            n += 1

            def rm(plen=plen, off=off):
                h = mod.HeaderProtection(hp_name, hpk)
                try:
                    ph, pn = h.remove(bytes([0x40]) + bytes(max(plen - 1, 0)) if plen else b"", off)
                    return "accepted"
                except (mod.CryptoError, OverflowError) as e:
                    return "rejected:" + type(e).__name__

            r = in_child(rm)
            inp = {"cipher": hp_name.decode(), "packet_len": plen, "pn_offset": off}
            fits = 1 <= off <= 1496 and off + 20 <= plen
            if r[0] != "ok":
                add("crash:HeaderProtection.remove", inp, list(r))
                break
            if r[1] == "accepted" and not fits:
                add("accepted-out-of-bounds:HeaderProtection.remove", inp, "accepted although the sample / copy lies outside the packet or the scratch buffer")
                break
            if r[1] != "accepted" and fits:
                add("spurious-reject:HeaderProtection.remove", inp, r[1])
                break
        if viols:
            break
    return {"cases": n, "violations": viols, "bound": "3 cipher suites x plaintext lengths {0,1,15,16,17,1200,1483..1485,1499..1501,1517,1600} x 5 (aad, pn) pairs, single-bit flips of every tag byte; header protection on 6 first bytes x 16 (header,payload) length pairs; remove() offsets around the packet end and scratch size"}


def replay_c(qual, model):
    """replay of a refuted C obligation: run the small-scope model check of the function's family and report the first failing input"""
    import random

    rng = random.Random(0)
    fam = cbuffer_model if qual.startswith("_buffer.c") else ccrypto_boundary
    res = fam(rng, 40000)
    fn = qual.split("::")[1].replace("Buffer_", "").replace("HeaderProtection_", "HeaderProtection.").replace("AEAD_", "AEAD")
    mine = [v for v in res["violations"]]
    return {"reproduced": bool(mine), "cases_tried": res["cases"], "failing": mine[0] if mine else None, "model_used": model}
