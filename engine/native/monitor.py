"""Native evaluation of the sidecar contracts on the REAL code (run under /venv/bin/python).

The same clause strings the prover translates to SMT are evaluated here with Python's own
`eval` on real objects: `old(e)` is rebound to a deep copy of the pre-state, quantifiers range
over a finite candidate domain derived from the integers present in the state, ghost fields are
computed from the concrete state by the functions named in `R.ghost_field(..., native=...)`.

Used for (a) replaying counter-models, (b) the bounded stand-in (random / small-scope
histories), (c) the run-time monitor.  Nothing here is ever counted as proved.
"""
from __future__ import annotations

import ast
import collections
import copy
import itertools
import sys
import textwrap

import os  # noqa: E402

sys.path.insert(0, os.path.dirname(os.path.dirname(os.path.dirname(os.path.abspath(__file__)))))
from engine.pyvc.registry import Registry, load_sidecars  # noqa: E402

_DOMAIN = [list(range(-2, 12))]


class Skip(Exception):
    """clause not evaluable natively on this state"""


def forall(fn, **_kw):
    n = fn.__code__.co_argcount
    for xs in itertools.product(_DOMAIN[0], repeat=n):
        if not fn(*xs):
            return False
    return True


def exists(fn, **_kw):
    n = fn.__code__.co_argcount
    for xs in itertools.product(_DOMAIN[0], repeat=n):
        if fn(*xs):
            return True
    return False


def implies(a, b):
    return (not a) or bool(b)


def iff(a, b):
    return bool(a) == bool(b)


def ite(c, a, b):
    return a if c else b


def raw(o, name):
    return getattr(o, name)


class _Total:
    """total sequence view: out-of-range reads give a harmless default (spec semantics are unspecified there)."""

    def __init__(self, seq):
        self.seq = seq


def at(seq, i):
    return seq[i]


def same(a, b):
    return a == b


def bytes_eq(a, b):
    return bytes(a) == bytes(b)


def is_none(x):
    return x is None


def some(x):
    return x


class AMap:
    def __init__(self, fn):
        self.fn = fn

    def __getitem__(self, k):
        return self.fn(k)

    def __eq__(self, other):
        return all(self[x] == other[x] for x in _DOMAIN[0])


def amap(fn):
    return AMap(fn)


class SafeList(list):
    pass


BASE_ENV = dict(
    forall=forall, exists=exists, implies=implies, iff=iff, ite=ite, raw=raw, at=at, same=same, bytes_eq=bytes_eq,
    is_none=is_none, some=some, amap=amap,
)


class GhostRewriter(ast.NodeTransformer):
    def __init__(self, ghost_names, param_names):
        self.ghost_names = ghost_names
        self.param_names = param_names

    def visit_Attribute(self, node):
        self.generic_visit(node)
        if node.attr in self.ghost_names and isinstance(node.ctx, ast.Load):
            return ast.copy_location(
                ast.Call(func=ast.Name(id="__ghost__", ctx=ast.Load()), args=[ast.Constant(node.attr), node.value], keywords=[]), node
            )
        return node

    def visit_Call(self, node):
        if isinstance(node.func, ast.Name) and node.func.id == "old" and self.param_names is not None:
            inner = self.visit(node.args[0])
            lam = ast.Lambda(
                args=ast.arguments(posonlyargs=[], args=[ast.arg(arg=p) for p in self.param_names], kwonlyargs=[], kw_defaults=[], defaults=[]),
                body=inner,
            )
            call = ast.Call(func=lam, args=[ast.Starred(value=ast.Name(id="__snap__", ctx=ast.Load()), ctx=ast.Load())], keywords=[])
            return ast.copy_location(call, node)
        if isinstance(node.func, ast.Name) and node.func.id in ("forall", "exists"):
            # solver hints (pattern=, types=) mention the bound variables: meaningless natively
            node.keywords = [k for k in node.keywords if k.arg not in ("pattern", "types")]
        self.generic_visit(node)
        # logic connectives are total in SMT; natively they must be lazy
        if isinstance(node.func, ast.Name) and node.func.id == "implies" and len(node.args) == 2:
            return ast.copy_location(ast.BoolOp(op=ast.Or(), values=[ast.UnaryOp(op=ast.Not(), operand=node.args[0]), node.args[1]]), node)
        if isinstance(node.func, ast.Name) and node.func.id == "ite" and len(node.args) == 3:
            return ast.copy_location(ast.IfExp(test=node.args[0], body=node.args[1], orelse=node.args[2]), node)
        return node


class NativeContracts:
    def __init__(self, registry: Registry, extra_env=None):
        self.reg = registry
        self.ghost_impl = {}
        self.ghost_names = set()
        for cls, fields in registry.ghost.items():
            for f, native in fields.items():
                self.ghost_names.add(f)
                self.ghost_impl[(cls, f)] = native
        self.env = dict(BASE_ENV)
        if extra_env:
            self.env.update(extra_env)
        self.env["__ghost__"] = self._ghost
        # spec functions are ordinary Python once ghost attributes are rewritten
        for src in registry.spec_src:
            tree = ast.parse(textwrap.dedent(src))
            tree = GhostRewriter(self.ghost_names, None).visit(tree)
            ast.fix_missing_locations(tree)
            exec(compile(tree, "<spec>", "exec"), self.env)
        self._cache = {}

    def _ghost(self, name, obj):
        for c in type(obj).__mro__:
            impl = self.ghost_impl.get((c.__name__, name))
            if impl:
                return self.env[impl](obj)
        raise Skip("no native ghost %s for %s" % (name, type(obj).__name__))

    def compile_clause(self, clause, param_names):
        key = (clause, tuple(param_names))
        if key not in self._cache:
            tree = ast.parse(clause.strip(), mode="eval")
            tree = GhostRewriter(self.ghost_names, list(param_names)).visit(tree)
            ast.fix_missing_locations(tree)
            self._cache[key] = compile(tree, "<clause:%s>" % clause[:40], "eval")
        return self._cache[key]

    def eval_clause(self, clause, names: dict, snap: tuple, param_names):
        code = self.compile_clause(clause, param_names)
        env = dict(self.env)
        env.update(names)
        env["__snap__"] = snap
        try:
            return bool(eval(code, env))
        except Skip:
            raise
        except (IndexError, KeyError, TypeError, AttributeError, ZeroDivisionError, NameError) as e:
            # specification terms are total in the logic; natively an out-of-range read means
            # "this clause says nothing checkable here"
            raise Skip("%s: %s" % (type(e).__name__, e))

    def invariants_for(self, obj):
        out = []
        for c in reversed(type(obj).__mro__):
            out.extend(self.reg.invariants.get(c.__name__, []))
        return out


def collect_ints(x, out, depth=0):
    if depth > 6:
        return
    if isinstance(x, bool) or x is None:
        return
    if isinstance(x, int):
        out.add(x)
    elif isinstance(x, range):
        out.add(x.start)
        out.add(x.stop)
    elif isinstance(x, (bytes, bytearray, str)):
        out.add(len(x))
    elif isinstance(x, (list, tuple, set, frozenset)):
        out.add(len(x))
        for y in list(x)[:64]:
            collect_ints(y, out, depth + 1)
    elif isinstance(x, dict):
        for k, v in list(x.items())[:64]:
            collect_ints(k, out, depth + 1)
            collect_ints(v, out, depth + 1)
    elif hasattr(x, "__dict__"):
        for v in vars(x).values():
            collect_ints(v, out, depth + 1)


def domain_for(*objs, width=40):
    ints = set()
    for o in objs:
        collect_ints(o, ints)
    ints = {i for i in ints if abs(i) < 10 ** 6}
    if not ints:
        return list(range(-2, 6))
    lo, hi = min(ints), max(ints)
    if hi - lo <= width:
        return list(range(lo - 2, hi + 3))
    pts = set()
    for i in ints:
        pts.update((i - 1, i, i + 1))
    return sorted(pts)[: 3 * width]


class Violation(Exception):
    def __init__(self, function, kind, clause, detail=""):
        super().__init__("%s %s: %s %s" % (function, kind, clause, detail))
        self.function, self.kind, self.clause, self.detail = function, kind, clause, detail


def prefix_sums(xs):
    """[0, x0, x0+x1, ...] as a total map (indices beyond the list repeat the total)"""
    out = [0]
    for x in xs:
        out.append(out[-1] + x)
    return collections.defaultdict(lambda: out[-1], enumerate(out))


def checked_call(nc: NativeContracts, key, bound_method_or_func, self_obj, args: tuple, kwargs: dict, func_params, stats=None):
    """Call the real function under its sidecar contract.  Returns ('skip'|'ok', result) or raises Violation."""
    c = nc.reg.contracts[key]
    names = {}
    pnames = list(func_params)
    vals = list(args)
    # bind positional/keyword arguments to parameter names (self excluded)
    bound = {}
    for p, v in zip(pnames, vals):
        bound[p] = v
    bound.update(kwargs)
    import inspect

    sig = inspect.signature(bound_method_or_func)
    ba = sig.bind(*args, **kwargs)
    ba.apply_defaults()
    bound = dict(ba.arguments)
    if self_obj is not None:
        names["self"] = self_obj
    names.update(bound)
    _DOMAIN[0] = domain_for(self_obj, bound)
    all_names = list(names)
    # let-bindings (evaluated in the pre-state)
    snap0 = copy.deepcopy(tuple(names[n] for n in all_names))
    for k, e in c.let.items():
        try:
            names[k] = eval(nc.compile_clause(e, all_names), {**nc.env, **names, "__snap__": snap0})
        except Exception:
            return ("skip", None)
    # ghost parameters: the native run uses the witness expression given in the contract (ghost_native)
    for gp in getattr(c, "ghost_params", {}):
        expr = getattr(c, "ghost_native", {}).get(gp)
        if expr is None:
            return ("skip", None)
        names[gp] = eval(expr, {**nc.env, **names, "prefix_sums": prefix_sums})
    all_names = list(names)
    snap = copy.deepcopy(tuple(names[n] for n in all_names))
    invs = nc.invariants_for(self_obj) if (self_obj is not None and c.use_invariant) else []
    is_init = key.endswith(".__init__")
    pre = list(c.requires) + list(c.assume_pre) + ([] if is_init else invs)
    for cl in pre:
        try:
            if not nc.eval_clause(cl, names, snap, all_names):
                return ("skip", None)
        except Skip:
            # a clause over ghost state without a native meaning cannot be evaluated: it neither admits nor excludes
            # the case (generated states are built through the public API, so they are reachable)
            continue
    # expected exceptional behaviour, decided on the pre-state
    exc = None
    result = None
    try:
        result = bound_method_or_func(*args, **kwargs)
    except Exception as e:  # noqa
        exc = e
    _DOMAIN[0] = domain_for(self_obj, bound, snap, result)
    if exc is not None:
        declared = None
        for d in c.raises:
            if any(k.__name__ == d for k in type(exc).__mro__):
                declared = d
                break
        if declared is None:
            raise Violation(key, "escape", type(exc).__name__, repr(exc))
        cond = c.raises[declared]
        if cond is not None:
            snap_names = dict(zip(all_names, snap))
            try:
                if not nc.eval_clause(cond, snap_names, snap, all_names):
                    raise Violation(key, "raises-iff", "raised %s although not(%s)" % (declared, cond))
            except Skip:
                pass
        post = list(c.on_raise.get(declared, [])) + ([] if is_init else invs)
        kinds = ["on_raise"] * len(c.on_raise.get(declared, [])) + ["invariant"] * (0 if is_init else len(invs))
    else:
        names["result"] = result
        snap_names = dict(zip(all_names, snap))
        for d, cond in c.raises.items():
            if cond is not None:
                try:
                    if nc.eval_clause(cond, snap_names, snap, all_names):
                        raise Violation(key, "raises-iff", "returned normally although %s" % cond)
                except Skip:
                    pass
        post = list(c.ensures) + invs
        kinds = ["ensures"] * len(c.ensures) + ["invariant"] * len(invs)
    for kind, cl in zip(kinds, post):
        try:
            ok = nc.eval_clause(cl, names, snap, all_names)
        except Skip:
            if stats is not None:
                stats["skipped_clauses"] = stats.get("skipped_clauses", 0) + 1
            continue
        if stats is not None:
            stats["clauses"] = stats.get("clauses", 0) + 1
        if not ok:
            raise Violation(key, kind, cl)
    if exc is not None:
        return ("raised", exc)
    return ("ok", result)
