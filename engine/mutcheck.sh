#!/bin/bash
# usage: mutcheck.sh <relfile> <sed-expr> <qual>...   : apply sed to a scratch copy and verify
set -e
d=$(mktemp -d /tmp/mut.XXXX)
cp -r /repo/src/aioquic $d/aioquic
f=$1; e=$2; shift 2
sed -i "$e" $d/aioquic/$f
if diff -q /repo/src/aioquic/$f $d/aioquic/$f >/dev/null; then echo "MUTATION DID NOT APPLY"; fi
cd /verif && AIOQUIC_SRC=$d/aioquic python3-vt -m engine.pyvc.cli "$@" || true
rm -rf $d
