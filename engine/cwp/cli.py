"""python3-vt -m engine.cwp.cli <file.c>::<function> ...  (developer tool)"""
import glob
import os
import sys
import time

from ..pyvc.registry import load_sidecars
from ..pyvc.verify import solve
from .verify import cfile, verify_c_function


def main(argv):
    root = os.path.dirname(os.path.dirname(os.path.dirname(os.path.abspath(__file__))))
    reg = load_sidecars(sorted(glob.glob(os.path.join(root, "contracts", "*.py"))))
    verbose = "-v" in argv
    quals = [a for a in argv if not a.startswith("-")]
    if quals and quals[0].endswith(".c"):
        quals = [q for q in reg.c_contracts if q.startswith(quals[0] + "::")]
    rc = 0
    for q in quals:
        t0 = time.time()
        r = verify_c_function(reg, q)
        print("== %s paths=%d obligations=%d gen=%.2fs errors=%s outcomes=%s" % (q, r.paths, len(r.obligations), time.time() - t0, r.errors, r.outcomes))
        for ob in r.obligations:
            v = solve(ob, timeout_ms=20000)
            if v.status != "discharged" or verbose:
                print("  %-11s %-70s %.2fs %s | %s" % (v.status, ob.name, v.secs, v.detail, ob.note[:90]))
                if v.model is not None:
                    mvs = {k: v.model.eval(x.t, model_completion=True) for k, x in (ob.model_vars or {}).items()}
                    print("     model:", mvs, "path", ob.path)
                rc = 1
    return rc


if __name__ == "__main__":
    sys.exit(main(sys.argv[1:]))
