"""Per-function VC generation for C functions (contracts in contracts/c_*.py)."""
from __future__ import annotations

import z3

from ..pyvc.core import Ctx, Explorer, PathEnd
from ..pyvc.sym import Unsupported
from ..pyvc.verify import FunctionResult
from .cast import CFile
from .cexec import CMachine, CReturn, IV, PV, bv, parse_type
from .stubs import STUBS

_files: dict[str, CFile] = {}


def cfile(name) -> CFile:
    if name not in _files:
        _files[name] = CFile(name)
    return _files[name]


def verify_c_function(registry, qual) -> FunctionResult:
    """qual = '_buffer.c::Buffer_pull_uint16'"""
    res = FunctionResult(qual)
    fname, func = qual.split("::")
    try:
        cf = cfile(fname)
    except Exception as e:  # noqa
        res.errors.append("clang AST extraction failed: %s" % e)
        return res
    if func not in cf.functions:
        res.errors.append("function %s not found in %s" % (func, fname))
        return res
    res.sha = cf.sha(func)
    contract = registry.c_contracts.get(qual)
    if contract is None:
        res.errors.append("no contract for %s" % qual)
        return res
    fd = cf.functions[func]
    params = [c for c in fd["inner"] if c["kind"] == "ParmVarDecl"]
    body = [c for c in fd["inner"] if c["kind"] == "CompoundStmt"][0]
    ex = Explorer(prune_timeout_ms=200, max_paths=contract.get("max_paths", 4000))

    def one_path(ctx: Ctx):
        ctx.model_vars = {}
        m = CMachine(cf, ctx, STUBS, func)
        try:
            st = contract["setup"](m)
            args = st["args"]
            for p, a in zip(params, args):
                m.ltypes[p["name"]] = parse_type(p["type"])
                m.locals[p["name"]] = a
            try:
                m.exec(body)
                outcome = None
            except CReturn as r:
                outcome = r.v
            key = "NULL/err" if (isinstance(outcome, PV) and outcome.obj is None) else ("ret" if outcome is None or isinstance(outcome, PV) else "int")
            res.outcomes[key] = res.outcomes.get(key, 0) + 1
            for name, goal, note in contract["post"](m, st, outcome):
                ctx.oblige("%s:post.%s" % (func, name), "c-ensures", goal, note=note, model_vars=ctx.model_vars)
        except Unsupported as u:
            msg = "%s (line %s)" % (u, m.cur_line)
            if msg not in res.errors:
                res.errors.append(msg)
        finally:
            res.trusted |= {"C external: " + t for t in m.trusted}
            res.assumptions |= m.assumptions

    ex.run(one_path)
    res.paths = ex.paths
    if ex.truncated:
        res.errors.append("path limit reached")
    res.obligations = list(ex.obligations.values())
    res.assumptions.add("A3: flat 64-bit address space, every object at 0 < addr, addr + size <= 2^47; pointer comparison/difference on flat addresses")
    return res
