"""Load the clang JSON AST of one C file of the repository (post-preprocessing, real headers) on every run."""
from __future__ import annotations

import hashlib
import json
import os
import subprocess

SRC = os.environ.get("AIOQUIC_SRC", "/repo/src/aioquic")
PYINC = "/root/.pyenv/versions/3.12.1/include/python3.12"
CLANG = ["clang", "-fsyntax-only", "-DPy_LIMITED_API=0x030A0000", "-I" + PYINC, "-Xclang", "-ast-dump=json"]


class CFile:
    def __init__(self, name):
        self.name = name  # e.g. _buffer.c
        self.path = os.path.join(SRC, name)
        self.text = open(self.path).read()
        r = subprocess.run(CLANG + [self.path], capture_output=True, text=True)
        if r.returncode != 0 or not r.stdout:
            raise RuntimeError("clang failed on %s: %s" % (self.path, r.stderr[-2000:]))
        tu = json.loads(r.stdout)
        self.functions: dict[str, dict] = {}
        self.records: dict[str, dict] = {}  # typedef name -> {field: qualType}
        self.globals: dict[str, dict] = {}
        cur = None
        last_record = None
        for d in tu["inner"]:
            loc = d.get("loc", {})
            f = loc.get("file") or loc.get("spellingLoc", {}).get("file") or loc.get("expansionLoc", {}).get("file")
            if f:
                cur = f
            if not (cur and os.path.abspath(cur) == os.path.abspath(self.path)):
                continue
            k = d["kind"]
            if k == "RecordDecl":
                last_record = [(c["name"], c["type"]) for c in d.get("inner", []) if c["kind"] == "FieldDecl"]
            elif k == "TypedefDecl" and last_record is not None:
                self.records[d["name"]] = last_record
                last_record = None
            elif k == "FunctionDecl" and any(c["kind"] == "CompoundStmt" for c in d.get("inner", [])):
                self.functions[d["name"]] = d
            elif k == "VarDecl":
                self.globals[d["name"]] = d

    def sha(self, fname):
        d = self.functions[fname]
        b, e = d["range"]["begin"], d["range"]["end"]
        bo = b.get("offset", b.get("expansionLoc", {}).get("offset"))
        eo = e.get("offset", e.get("expansionLoc", {}).get("offset"))
        return hashlib.sha256(self.text[bo : eo + 1].encode()).hexdigest()[:16]


def show(n, ind=0, out=None):
    out = out if out is not None else []
    t = n.get("type", {}).get("qualType") if isinstance(n.get("type"), dict) else None
    extra = {k: v for k, v in n.items() if k in ("name", "opcode", "castKind", "value", "isPostfix", "isArrow")}
    if "referencedDecl" in n:
        extra["ref"] = n["referencedDecl"].get("name")
    out.append(" " * ind + "%s %s %s" % (n.get("kind"), t, extra))
    for c in n.get("inner", []):
        show(c, ind + 1, out)
    return out


if __name__ == "__main__":
    import sys

    cf = CFile(sys.argv[1])
    print(list(cf.functions), cf.records.keys())
    for fn in sys.argv[2:]:
        print("\n".join(show(cf.functions[fn])))
