"""Trusted contracts of the external C functions called by _buffer.c / _crypto.c (CPython C-API, libc, OpenSSL EVP).

Every entry is an ASSUMPTION (listed in evidence under trusted_base): extents are taken from the CPython
and OpenSSL manuals.  A function that is not listed makes the caller `undecided`.
"""
from __future__ import annotations

import z3

from ..pyvc.core import PathEnd
from ..pyvc.sym import Unsupported
from .cexec import BV8, BV64, CT, IV, MObj, NULLP, PV, PyRes, SObj, bv

I32 = CT("int", 32, True)

STUBS = {}


def stub(*names):
    def deco(f):
        for n in names:
            STUBS[n] = f
        return f

    return deco


def _args(m, argn):
    return [m.as_val(m.rvalue(a)) for a in argn]


def _ret_int(m, name, lo=None, hi=None):
    t = m.ctx.fresh_const(z3.BitVecSort(32), name)
    if lo is not None:
        m.ctx.assume(t >= lo)
    if hi is not None:
        m.ctx.assume(t <= hi)
    return IV(t, I32)


def _strlit(m, v):
    if isinstance(v, PV) and v.obj is not None and hasattr(v.obj, "literal"):
        return v.obj.literal
    raise Unsupported("format argument is not a string literal")


def _store_out(m, dst, val_t, what):
    """write a parsed value through an output pointer (&local)"""
    if isinstance(dst, tuple) and dst[0] == "addr_local":
        name = dst[1]
        ct = m.ltypes[name]
        w = ct.width if ct.kind == "int" else 64
        m.oblige("parse-output.width.%s" % name, z3.BoolVal(w >= val_t.size()), note="output variable %s is at least as wide as what format '%s' stores" % (name, what))
        t = val_t if val_t.size() == w else (z3.Extract(w - 1, 0, val_t) if val_t.size() > w else z3.ZeroExt(w - val_t.size(), val_t))
        m.locals[name] = IV(t, ct)
        return
    raise Unsupported("parse output is not the address of a local")


def _store_out_ptr(m, dst, pv):
    if isinstance(dst, tuple) and dst[0] == "addr_local":
        m.locals[dst[1]] = PV(pv.obj, pv.off, m.ltypes[dst[1]])
        return
    raise Unsupported("parse output is not the address of a local")


def _parse(m, n, argn, nfixed):
    vals = [m.as_val(m.rvalue(a)) for a in argn]
    fmt = _strlit(m, vals[nfixed - 1] if nfixed == 2 else vals[2])
    outs = vals[nfixed:] if nfixed == 2 else vals[4:]
    ok = m.ctx.branch(m.ctx.fresh_const(z3.BoolSort(), "parse_ok"))
    if not ok:
        m.err = "TypeError"
        return IV(bv(0, 32), I32)
    parsed = []
    i = 0
    oi = 0
    optional = False
    while i < len(fmt):
        c = fmt[i]
        if c == "|":
            optional = True
            i += 1
            continue
        if c == ":" or c == ";":
            break
        given = True
        if optional:
            given = m.ctx.branch(m.ctx.fresh_const(z3.BoolSort(), "given_%d" % oi))
        if fmt[i : i + 2] == "y#":
            if given:
                ln = m.ctx.fresh_const(BV64, "arg%d_len" % len(parsed))
                m.ctx.assume(ln >= 0)
                m.ctx.assume(z3.ULE(ln, bv(1 << 46)))
                o = m.new_obj("arg%d_bytes" % len(parsed), ln + 1, writable=False)  # CPython bytes: len bytes + NUL
                m.ctx.assume(z3.Select(o.mem, ln) == 0)
                _store_out_ptr(m, outs[oi], PV(o, bv(0)))
                _store_out(m, outs[oi + 1], ln, "#")
                parsed.append(("bytes", o, ln))
                getattr(m.ctx, "model_vars", {})["arg%d_len" % (len(parsed) - 1)] = _MV(ln)
            else:
                parsed.append(("absent",))
            oi += 2
            i += 2
            continue
        width = {"n": 64, "I": 32, "K": 64, "B": 8, "H": 16, "i": 32, "k": 64, "L": 64, "l": 64}.get(c)
        if width is None:
            raise Unsupported("PyArg format unit %r" % c)
        if given:
            t = m.ctx.fresh_const(z3.BitVecSort(width), "arg%d_%s" % (len(parsed), c))
            _store_out(m, outs[oi], t, c)
            parsed.append(("int", t, c))
            getattr(m.ctx, "model_vars", {})["arg%d_%s" % (len(parsed) - 1, c)] = _MV(t)
        else:
            parsed.append(("absent",))
        oi += 1
        i += 1
    m.ghost["parsed"] = parsed
    return IV(bv(1, 32), I32)


class _MV:
    def __init__(self, t):
        self.t = t


@stub("_PyArg_ParseTuple_SizeT", "PyArg_ParseTuple")
def s_parsetuple(m, n, argn):
    return _parse(m, n, argn, 2)


@stub("_PyArg_ParseTupleAndKeywords_SizeT", "PyArg_ParseTupleAndKeywords")
def s_parsetuplekw(m, n, argn):
    return _parse(m, n, argn, 4)


def _excname(v):
    if isinstance(v, PV) and v.obj is not None and v.obj.name.startswith("global_"):
        nm = v.obj.name[len("global_"):]
        return nm[len("PyExc_"):] if nm.startswith("PyExc_") else nm
    return "?"


@stub("PyErr_SetString")
def s_seterr(m, n, argn):
    a = _args(m, argn)
    m.err = _excname(a[0])
    return None


@stub("PyErr_Format")
def s_errformat(m, n, argn):
    a = _args(m, argn)
    m.err = _excname(a[0])
    return PV(None, bv(0))


@stub("PyErr_NoMemory")
def s_nomem(m, n, argn):
    m.err = "MemoryError"
    return PV(None, bv(0))


@stub("ERR_clear_error", "Py_DECREF", "Py_INCREF", "Py_XDECREF", "_Py_DECREF", "_Py_INCREF", "Py_DecRef", "Py_IncRef")
def s_noop(m, n, argn):
    _args(m, argn)
    return None


def _pyobj(m, res: PyRes):
    """allocation of a Python object: may fail with MemoryError"""
    if not m.ctx.branch(m.ctx.fresh_const(z3.BoolSort(), "alloc_ok")):
        m.err = "MemoryError"
        return PV(None, bv(0))
    o = MObj("pyobj%d" % len(m.objs), 0, opaque=True)
    m.ctx.assume(o.addr != 0)
    o.pyres = res
    m.objs.append(o)
    return PV(o, bv(0))


@stub("PyBytes_FromStringAndSize")
def s_bytes_from(m, n, argn):
    p, ln = _args(m, argn)
    ln64 = m.to64(ln)
    m.oblige("PyBytes_FromStringAndSize.len", ln64 >= 0, note="length passed to PyBytes_FromStringAndSize is non-negative")
    if isinstance(p, PV) and p.obj is not None:
        m.valid(p, ln64, "PyBytes_FromStringAndSize.read")
    return _pyobj(m, PyRes("bytes", obj=p.obj, off=p.off, n=ln64, mem=p.obj.mem if p.obj is not None else None))


@stub("PyLong_FromUnsignedLong", "PyLong_FromUnsignedLongLong", "PyLong_FromSize_t")
def s_long_u(m, n, argn):
    (v,) = _args(m, argn)
    return _pyobj(m, PyRes("int", value=m.to64(v), signed=False))


@stub("PyLong_FromSsize_t", "PyLong_FromLong", "PyLong_FromLongLong")
def s_long_s(m, n, argn):
    (v,) = _args(m, argn)
    return _pyobj(m, PyRes("int", value=m.to64(v), signed=True))


@stub("Py_BuildValue", "_Py_BuildValue_SizeT")
def s_buildvalue(m, n, argn):
    a = _args(m, argn)
    fmt = _strlit(m, a[0])
    items = []
    i, k = 0, 1
    while i < len(fmt):
        if fmt[i : i + 2] == "y#":
            p, ln = a[k], a[k + 1]
            if isinstance(p, MObj):
                p = PV(p, bv(0))
            ln64 = m.to64(ln)
            m.oblige("Py_BuildValue.len", ln64 >= 0, note="y# length is non-negative")
            m.valid(p, ln64, "Py_BuildValue.read")
            items.append(PyRes("bytes", obj=p.obj, off=p.off, n=ln64, mem=p.obj.mem))
            k += 2
            i += 2
        elif fmt[i] in "iIlkKn":
            # the variadic slot is re-read with the type the format unit names (not the argument's own type)
            w = 32 if fmt[i] in "iI" else 64
            sg = fmt[i] in "iln"
            raw = m.resize(a[k].t, a[k].ct, w) if a[k].t.size() != w else a[k].t
            items.append(PyRes("int", value=(z3.SignExt(64 - w, raw) if sg else z3.ZeroExt(64 - w, raw)) if w < 64 else raw, signed=sg))
            k += 1
            i += 1
        else:
            raise Unsupported("Py_BuildValue unit %r" % fmt[i])
    return _pyobj(m, PyRes("tuple", items=items))


@stub("malloc")
def s_malloc(m, n, argn):
    (sz,) = _args(m, argn)
    s64 = m.to64(sz)
    if not m.ctx.branch(m.ctx.fresh_const(z3.BoolSort(), "malloc_ok")):
        return PV(None, bv(0))
    # a successful allocation is at most 2^47 bytes (user address space); larger requests always fail
    m.ctx.assume(z3.ULE(s64, bv(1 << 47)))
    if not m.ctx._feasible(z3.BoolVal(True)):
        raise PathEnd()
    o = m.new_obj("malloc", s64)
    o.heap = True
    return PV(o, bv(0))


@stub("free")
def s_free(m, n, argn):
    (p,) = _args(m, argn)
    if isinstance(p, PV) and p.obj is not None:
        if isinstance(p.obj, SObj):
            return None
        m.oblige("free.base", z3.And(p.off == 0, z3.BoolVal(bool(getattr(p.obj, "heap", False)) and p.obj.live)), note="free() of the start of a live heap object")
        p.obj.live = False
    return None


def _copy(m, d: PV, s_mem, s_off, n64):
    k = z3.BitVec("k!cp%d" % len(m.objs), 64)
    MObj._n += 1
    k = z3.BitVec("k!cp%d" % MObj._n, 64)
    d.obj.mem = z3.Lambda([k], z3.If(z3.And(z3.UGE(k, d.off), z3.ULT(k - d.off, n64)), z3.Select(s_mem, k - d.off + s_off), z3.Select(d.obj.mem, k)))


@stub("memcpy")
def s_memcpy(m, n, argn):
    d, s, ln = _args(m, argn)
    d = PV(d, bv(0)) if isinstance(d, MObj) else d
    s = PV(s, bv(0)) if isinstance(s, MObj) else s
    n64 = m.to64(ln)
    m.valid(d, n64, "memcpy.dst", write=True)
    m.valid(s, n64, "memcpy.src")
    if d.obj is not None and s.obj is not None:
        if d.obj is s.obj:
            m.oblige("memcpy.overlap", z3.Or(z3.ULE(d.off + n64, s.off), z3.ULE(s.off + n64, d.off)), note="memcpy regions do not overlap")
        _copy(m, d, s.obj.mem, s.off, n64)
    return d


@stub("memset")
def s_memset(m, n, argn):
    d, c, ln = _args(m, argn)
    d = PV(d, bv(0)) if isinstance(d, MObj) else d
    n64 = m.to64(ln)
    m.valid(d, n64, "memset.dst", write=True)
    MObj._n += 1
    k = z3.BitVec("k!ms%d" % MObj._n, 64)
    byte = z3.Extract(7, 0, c.t)
    d.obj.mem = z3.Lambda([k], z3.If(z3.And(z3.UGE(k, d.off), z3.ULT(k - d.off, n64)), byte, z3.Select(d.obj.mem, k)))
    return d


@stub("memcmp")
def s_memcmp(m, n, argn):
    a, b, ln = _args(m, argn)
    a = PV(a, bv(0)) if isinstance(a, MObj) else a
    b = PV(b, bv(0)) if isinstance(b, MObj) else b
    n64 = m.to64(ln)
    m.valid(a, n64, "memcmp.a")
    m.valid(b, n64, "memcmp.b")
    return _ret_int(m, "memcmp")


# ---- CPython type slots (the dealloc idiom)
@stub("Py_TYPE")
def s_pytype(m, n, argn):
    _args(m, argn)
    return m.opaque_ptr("type_of_self")


@stub("PyType_GetSlot")
def s_getslot(m, n, argn):
    _args(m, argn)
    o = MObj("tp_free", 0, opaque=True)
    m.ctx.assume(o.addr != 0)
    o.fnname = "tp_free"
    return PV(o, bv(0))


@stub("tp_free")
def s_tpfree(m, n, argn):
    _args(m, argn)
    return None


# ---- OpenSSL EVP (extents from the manual pages EVP_EncryptInit(3))
def _ctxobj(m, v, what):
    if not isinstance(v, PV) or v.obj is None:
        m.oblige("%s.ctx-nonnull" % what, z3.BoolVal(False), note="%s called with a NULL context" % what)
        raise PathEnd()
    return v.obj


@stub("EVP_get_cipherbyname")
def s_getcipher(m, n, argn):
    (p,) = _args(m, argn)
    m.valid(p, 1, "EVP_get_cipherbyname.name")  # NUL-terminated string: y# data always ends with NUL
    if not m.ctx.branch(m.ctx.fresh_const(z3.BoolSort(), "cipher_known")):
        return PV(None, bv(0))
    return m.opaque_ptr("evp_cipher")


@stub("EVP_CIPHER_CTX_new")
def s_ctxnew(m, n, argn):
    if not m.ctx.branch(m.ctx.fresh_const(z3.BoolSort(), "ctx_ok")):
        return PV(None, bv(0))
    o = MObj("evpctx%d" % len(m.objs), 0, opaque=True)
    m.ctx.assume(o.addr != 0)
    o.keylen = m.ctx.fresh_const(BV64, "keylen")
    m.ctx.assume(z3.ULE(o.keylen, bv(64)))
    o.ivlen = bv(16)
    m.objs.append(o)
    return PV(o, bv(0))


@stub("EVP_CIPHER_CTX_free")
def s_ctxfree(m, n, argn):
    _args(m, argn)
    return None


@stub("EVP_CipherInit_ex")
def s_cipherinit(m, n, argn):
    ctx, cipher, impl, key, iv, enc = _args(m, argn)
    o = _ctxobj(m, ctx, "EVP_CipherInit_ex")
    rec = {"ctx": o, "enc": enc}
    for nm, p, ln in (("key", key, getattr(o, "keylen", bv(64))), ("iv", iv, getattr(o, "ivlen", bv(16)))):
        p = PV(p, bv(0)) if isinstance(p, MObj) else p
        if isinstance(p, PV) and p.obj is not None:
            m.valid(p, ln, "EVP_CipherInit_ex.%s" % nm)
            rec[nm] = (p.obj, p.off, p.obj.mem)
    m.ghost.setdefault("evp_calls", []).append(("init", rec))
    return _ret_int(m, "init_res", 0, 1)


@stub("EVP_CIPHER_CTX_set_key_length")
def s_setkeylen(m, n, argn):
    ctx, ln = _args(m, argn)
    o = _ctxobj(m, ctx, "EVP_CIPHER_CTX_set_key_length")
    r = _ret_int(m, "keylen_res", 0, 1)
    l64 = m.to64(ln)
    # success means the cipher accepted the length: 0 < len <= EVP_MAX_KEY_LENGTH (64)
    m.ctx.assume(z3.Implies(r.t != 0, z3.And(l64 > 0, l64 <= 64)))
    o.keylen = z3.If(r.t != 0, l64, getattr(o, "keylen", bv(64)))
    return r


@stub("EVP_CIPHER_CTX_ctrl")
def s_ctrl(m, n, argn):
    ctx, typ, arg, ptr = _args(m, argn)
    o = _ctxobj(m, ctx, "EVP_CIPHER_CTX_ctrl")
    t = z3.simplify(typ.t)
    if not z3.is_bv_value(t):
        raise Unsupported("symbolic ctrl type")
    code = t.as_long()
    a64 = m.to64(arg)
    ptr = PV(ptr, bv(0)) if isinstance(ptr, MObj) else ptr
    m.ghost.setdefault("evp_calls", []).append(("ctrl", {"ctx": o, "code": code, "arg": a64, "ptr": ptr}))
    if code == 0x9:  # EVP_CTRL_AEAD_SET_IVLEN
        o.ivlen = a64
    elif code == 0x10:  # GET_TAG: writes arg bytes
        m.valid(ptr, a64, "EVP_CTRL_GET_TAG.out", write=True)
        MObj._n += 1
        k = z3.BitVec("k!tag%d" % MObj._n, 64)
        fresh = z3.Array("tagbytes%d" % MObj._n, BV64, BV8)
        ptr.obj.mem = z3.Lambda([k], z3.If(z3.And(z3.UGE(k, ptr.off), z3.ULT(k - ptr.off, a64)), z3.Select(fresh, k), z3.Select(ptr.obj.mem, k)))
    elif code == 0x11:  # SET_TAG: reads arg bytes
        if ptr.obj is not None:
            m.valid(ptr, a64, "EVP_CTRL_SET_TAG.in")
    else:
        raise Unsupported("EVP_CIPHER_CTX_ctrl type %#x" % code)
    return _ret_int(m, "ctrl_res", 0, 1)


@stub("EVP_CipherUpdate")
def s_update(m, n, argn):
    ctx, out, outl, inp, inl = _args(m, argn)
    o = _ctxobj(m, ctx, "EVP_CipherUpdate")
    bs = m.ghost.get("evp_block_size", 32)  # EVP_MAX_BLOCK_LENGTH unless the harness states the cipher family
    i64 = m.to64(inl)
    npos = z3.If(i64 > 0, i64, bv(0))
    inp = PV(inp, bv(0)) if isinstance(inp, MObj) else inp
    out = PV(out, bv(0)) if isinstance(out, MObj) else out
    if inp.obj is not None or True:
        m.valid(inp, npos, "EVP_CipherUpdate.in")
    ol = m.ctx.fresh_const(z3.BitVecSort(32), "outl")
    m.ctx.assume(ol >= 0)
    m.ghost.setdefault("evp_calls", []).append(("update", {"ctx": o, "out": out, "in": inp, "inl": i64, "inl32": inl.t, "in_mem": inp.obj.mem if inp.obj is not None else None, "outl": ol}))
    if out.obj is not None:
        maxw = npos + bv(bs - 1)
        m.valid(out, maxw, "EVP_CipherUpdate.out", write=True)
        m.ctx.assume(z3.SignExt(32, ol) <= maxw)
        if bs == 1:
            pass
        MObj._n += 1
        k = z3.BitVec("k!upd%d" % MObj._n, 64)
        fresh = z3.Array("cipherout%d" % MObj._n, BV64, BV8)
        out.obj.mem = z3.Lambda([k], z3.If(z3.And(z3.UGE(k, out.off), z3.ULT(k - out.off, maxw)), z3.Select(fresh, k), z3.Select(out.obj.mem, k)))
    else:
        m.ctx.assume(z3.SignExt(32, ol) <= npos)
    if isinstance(outl, tuple) and outl[0] == "addr_local":
        m.locals[outl[1]] = IV(ol, I32)
    else:
        raise Unsupported("outl is not &local")
    return _ret_int(m, "update_res", 0, 1)


@stub("EVP_CipherFinal_ex")
def s_final(m, n, argn):
    ctx, out, outl = _args(m, argn)
    _ctxobj(m, ctx, "EVP_CipherFinal_ex")
    bs = m.ghost.get("evp_block_size", 32)
    out = PV(out, bv(0)) if isinstance(out, MObj) else out
    if out.obj is not None:
        m.valid(out, bs, "EVP_CipherFinal_ex.out", write=True)
    ol = m.ctx.fresh_const(z3.BitVecSort(32), "outl2")
    m.ctx.assume(z3.And(ol >= 0, ol <= bs - 1))
    if isinstance(outl, tuple) and outl[0] == "addr_local":
        m.locals[outl[1]] = IV(ol, I32)
    return _ret_int(m, "final_res", 0, 1)
