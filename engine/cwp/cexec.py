"""cwp: symbolic execution of a C function over the clang JSON AST, producing verification conditions.

Semantics assumed (DESIGN §2.2):
  * integers are bit-vectors of their C width (LP64: int 32, long/size_t/Py_ssize_t/pointers 64); every
    implicit conversion clang records in the AST is executed as recorded;
  * a pointer is (object, byte offset); every object has a symbolic flat base address with
    0 < addr and addr + size <= 2^47 (assumption A3), pointer comparison and difference are computed on
    flat addresses, so `pos + len > end` style checks are evaluated the way the target evaluates them
    (including wrap-around, which is then a proof obligation rather than an axiom);
  * every load / store / library access yields the obligation "object is live, 0 <= off, off + n <= size";
  * signed overflow of + - * and out-of-range shifts are obligations (undefined behaviour);
  * loops are unrolled up to UNWIND iterations with an unwinding assertion (complete when it is proved).
Anything else (goto, unions, function pointers other than the tp_free idiom, ...) raises Unsupported and the
function is reported undecided, never violated.
"""
from __future__ import annotations

import re

import z3

from ..pyvc.core import Ctx, Explorer, Obligation, PathEnd
from ..pyvc.sym import Unsupported

UNWIND = 12
BV64 = z3.BitVecSort(64)
BV8 = z3.BitVecSort(8)


def bv(n, w=64):
    return z3.BitVecVal(n, w)


# --------------------------------------------------------------------------- types


class CT:
    def __init__(self, kind, width=0, signed=False, elem=None, n=None, name=None):
        self.kind, self.width, self.signed, self.elem, self.n, self.name = kind, width, signed, elem, n, name

    def __repr__(self):
        if self.kind == "int":
            return "%s%d" % ("i" if self.signed else "u", self.width)
        if self.kind == "ptr":
            return "ptr(%r)" % (self.elem,)
        if self.kind == "array":
            return "%r[%s]" % (self.elem, self.n)
        return self.kind + (":" + self.name if self.name else "")

    def size(self):
        if self.kind == "int":
            return self.width // 8
        if self.kind == "ptr":
            return 8
        if self.kind == "array":
            return self.elem.size() * self.n
        raise Unsupported("sizeof %r" % self)


INTS = {
    "char": (8, True), "signed char": (8, True), "unsigned char": (8, False), "uint8_t": (8, False), "int8_t": (8, True),
    "short": (16, True), "unsigned short": (16, False), "uint16_t": (16, False), "int16_t": (16, True),
    "int": (32, True), "unsigned int": (32, False), "unsigned": (32, False), "uint32_t": (32, False), "int32_t": (32, True),
    "long": (64, True), "unsigned long": (64, False), "long long": (64, True), "unsigned long long": (64, False),
    "uint64_t": (64, False), "int64_t": (64, True), "size_t": (64, False), "Py_ssize_t": (64, True), "ssize_t": (64, True),
    "_Bool": (8, False),
}


def parse_type(td) -> CT:
    if isinstance(td, dict):
        q = td.get("desugaredQualType") or td.get("qualType")
        q0 = td.get("qualType")
    else:
        q = q0 = td
    return _ptype(q, q0)


def _ptype(q, q0=None):
    q = q.strip()
    q = re.sub(r"\b(const|volatile|restrict|static)\b", "", q).strip()
    q = re.sub(r"\s+", " ", q)
    if "(" in q:
        if q.endswith("*") or "(*)" in q:
            return CT("ptr", elem=CT("func"))
        return CT("func")
    m = re.match(r"^(.*)\[(\d+)\]$", q)
    if m:
        return CT("array", elem=_ptype(m.group(1)), n=int(m.group(2)))
    if q.endswith("*"):
        return CT("ptr", elem=_ptype(q[:-1]))
    if q in INTS:
        w, s = INTS[q]
        return CT("int", w, s)
    if q == "void":
        return CT("void")
    if q == "freefunc":
        return CT("ptr", elem=CT("func"))
    return CT("struct", name=q.replace("struct ", ""))


# --------------------------------------------------------------------------- values / memory


class MObj:
    """A memory object (malloc result, y# argument, array field, ...)."""

    _n = 0

    def __init__(self, name, size, mem=None, opaque=False, writable=True, live=True):
        MObj._n += 1
        self.name = name
        self.size = size if not isinstance(size, int) else bv(size)
        self.opaque = opaque
        self.writable = writable
        self.live = live
        self.addr = z3.BitVec("addr_%s" % name, 64)
        self.mem = mem if mem is not None else z3.Array("mem_%s" % name, BV64, BV8)
        self.mem0 = self.mem

    def facts(self):
        if self.opaque:
            return [self.addr != 0]
        lim = bv(1 << 47)
        return [z3.UGT(self.addr, 0), z3.ULE(self.size, lim), z3.ULE(self.addr, lim), z3.ULE(self.addr + self.size, lim)]


class IV:
    def __init__(self, t, ct):
        self.t, self.ct = t, ct


class PV:
    def __init__(self, obj, off, ct=None):
        self.obj, self.off, self.ct = obj, off, ct or CT("ptr", elem=CT("int", 8, False))

    def flat(self):
        if self.obj is None:
            return self.off
        return self.obj.addr + self.off


class PyRes:
    """Ghost description of a PyObject* result (what the Python caller will see)."""

    def __init__(self, kind, **kw):
        self.kind = kind
        self.__dict__.update(kw)


NULLP = PV(None, bv(0))


class CReturn(Exception):
    def __init__(self, v):
        self.v = v


class CBreak(Exception):
    pass


class SObj:
    """The `self` struct: scalar fields by name, array fields as MObj."""

    def __init__(self, tname, layout):
        self.tname = tname
        self.fields = {}
        self.types = {}
        for fname, td in layout:
            self.types[fname] = parse_type(td)


# --------------------------------------------------------------------------- executor


class CMachine:
    def __init__(self, cfile, ctx: Ctx, stubs, fname):
        self.cf = cfile
        self.ctx = ctx
        self.stubs = stubs
        self.fname = fname
        self.locals = {}
        self.ltypes = {}
        self.err = None  # Python exception set (ghost): name or None
        self.objs = []
        self.ghost = {}
        self.cur_line = None
        self.assumptions = set()
        self.trusted = set()
        self.call_depth = 0

    # ---- objects
    def new_obj(self, name, size, **kw):
        o = MObj("%s%d" % (name, len(self.objs)), size, **kw)
        self.objs.append(o)
        for f in o.facts():
            self.ctx.assume(f)
        for p in self.objs[:-1]:
            if not p.opaque and not o.opaque:
                # distinct live objects do not overlap
                self.ctx.assume(z3.Or(z3.ULE(p.addr + p.size, o.addr), z3.ULE(o.addr + o.size, p.addr)))
        return o

    # ---- obligations
    def oblige(self, name, goal, note=""):
        self.ctx.oblige("%s:%s@%s" % (self.fname, name, self.cur_line), "c-safety", goal, site=self.cur_line, note=note, model_vars=getattr(self.ctx, "model_vars", None))
        self.ctx.assume(goal)

    def valid(self, pv: PV, n, what, write=False):
        """obligation: [pv, pv+n) lies inside one live object. n: z3 BV64 or int."""
        n = bv(n) if isinstance(n, int) else n
        if pv.obj is None:
            self.oblige("%s.nonnull" % what, n == 0, note="%s through a NULL pointer" % what)
            return
        if pv.obj.opaque:
            raise Unsupported("access through opaque pointer %s" % pv.obj.name)
        o = pv.obj
        ok = z3.And(z3.ULE(pv.off, o.size), z3.ULE(n, o.size - pv.off))
        self.oblige("%s.inbounds" % what, ok, note="%s of %s bytes at offset off of object %s (size): 0 <= off and off + n <= size" % (what, "n", o.name))
        if not o.live:
            self.oblige("%s.live" % what, z3.BoolVal(False), note="use after free")
        if write and not o.writable:
            self.oblige("%s.writable" % what, z3.BoolVal(False), note="write to read-only object")

    # ---- conversions
    def conv(self, v, ct: CT):
        if ct.kind == "ptr":
            if isinstance(v, PV):
                return PV(v.obj, v.off, ct)
            if isinstance(v, IV):
                s = z3.simplify(v.t)
                if z3.is_bv_value(s) and s.as_long() == 0:
                    return PV(None, bv(0), ct)
            raise Unsupported("integer to pointer conversion")
        if ct.kind == "int":
            if isinstance(v, IV):
                return IV(self.resize(v.t, v.ct, ct.width), ct)
            if isinstance(v, PV):
                raise Unsupported("pointer to integer conversion")
        if ct.kind == "void":
            return v
        return v

    def resize(self, t, from_ct, w):
        fw = t.size()
        if w == fw:
            return t
        if w < fw:
            return z3.Extract(w - 1, 0, t)
        return z3.SignExt(w - fw, t) if from_ct.signed else z3.ZeroExt(w - fw, t)

    def to64(self, v: IV):
        return self.resize(v.t, v.ct, 64)

    def truth(self, v):
        if isinstance(v, IV):
            return v.t != 0
        if isinstance(v, PV):
            return v.flat() != 0
        raise Unsupported("truth of %r" % (v,))

    # ---- lvalues
    def lvalue(self, n):
        k = n["kind"]
        if k == "ParenExpr":
            return self.lvalue(n["inner"][0])
        if k == "DeclRefExpr":
            name = n["referencedDecl"]["name"]
            if name in self.locals or name in self.ltypes:
                return ("local", name)
            return ("global", name)
        if k == "MemberExpr":
            base = self.rvalue(n["inner"][0]) if n.get("isArrow") else None
            if base is None or not isinstance(base, PV) or not isinstance(base.obj, SObj):
                raise Unsupported("member access on non-self object")
            return ("field", base.obj, n["name"])
        if k == "UnaryOperator" and n["opcode"] == "*":
            p = self.rvalue(n["inner"][0])
            return ("mem", p, parse_type(n["type"]))
        if k == "ArraySubscriptExpr":
            b = self.rvalue(n["inner"][0])
            i = self.rvalue(n["inner"][1])
            if isinstance(b, IV):
                b, i = i, b
            return ("mem", self.padd(b, i), parse_type(n["type"]))
        raise Unsupported("lvalue %s" % k)

    def load(self, lv, ct: CT):
        tag = lv[0]
        if tag == "local":
            if lv[1] not in self.locals:
                # uninitialised read
                self.oblige("uninit.%s" % lv[1], z3.BoolVal(False), note="read of uninitialised local %s" % lv[1])
                raise PathEnd()
            return self.locals[lv[1]]
        if tag == "global":
            return self.global_value(lv[1], ct)
        if tag == "field":
            _, so, f = lv
            fct = so.types[f]
            if fct.kind == "array":
                return so.fields[f]  # MObj; decays via ArrayToPointerDecay
            if f not in so.fields:
                raise Unsupported("read of unmodelled field %s" % f)
            return so.fields[f]
        if tag == "mem":
            _, p, mct = lv
            if mct.kind != "int":
                raise Unsupported("memory load of %r" % mct)
            nb = mct.width // 8
            self.valid(p, nb, "load")
            bs = [z3.Select(p.obj.mem, p.off + bv(i)) for i in range(nb)]
            t = bs[0]
            for b in bs[1:]:
                t = z3.Concat(b, t)  # little endian
            return IV(t, mct)
        raise Unsupported("load %s" % tag)

    def store(self, lv, v):
        tag = lv[0]
        if tag == "local":
            ct = self.ltypes.get(lv[1])
            self.locals[lv[1]] = self.conv(v, ct) if ct and ct.kind in ("int", "ptr") else v
            return
        if tag == "field":
            _, so, f = lv
            so.fields[f] = self.conv(v, so.types[f])
            return
        if tag == "mem":
            _, p, mct = lv
            if mct.kind != "int":
                raise Unsupported("memory store of %r" % mct)
            nb = mct.width // 8
            self.valid(p, nb, "store", write=True)
            v = self.conv(v, mct)
            for i in range(nb):
                p.obj.mem = z3.Store(p.obj.mem, p.off + bv(i), z3.Extract(8 * i + 7, 8 * i, v.t))
            return
        raise Unsupported("store to %s" % tag)

    def global_value(self, name, ct):
        if ct is not None and ct.kind == "ptr" or name in self.cf.globals:
            return self.opaque_ptr("global_" + name)
        raise Unsupported("global %s" % name)

    def opaque_ptr(self, name):
        key = "opaque:" + name
        if key not in self.ghost:
            o = MObj(name, 0, opaque=True)
            self.ctx.assume(o.addr != 0)
            self.ghost[key] = o
        return PV(self.ghost[key], bv(0))

    # ---- pointer arithmetic
    def padd(self, p, i: IV, sign=1):
        if isinstance(p, MObj):
            p = PV(p, bv(0))
        if not isinstance(p, PV):
            raise Unsupported("pointer arithmetic on non-pointer")
        es = p.ct.elem.size() if p.ct and p.ct.elem and p.ct.elem.kind in ("int", "ptr") else 1
        d = self.to64(i) * bv(es)
        return PV(p.obj, p.off + d if sign > 0 else p.off - d, p.ct)

    # ---- expressions
    def rvalue(self, n):
        self.cur_line = n.get("range", {}).get("begin", {}).get("line", self.cur_line) or self.cur_line
        m = getattr(self, "x_" + n["kind"], None)
        if m is None:
            raise Unsupported("C expression %s" % n["kind"])
        return m(n)

    def x_ParenExpr(self, n):
        return self.rvalue(n["inner"][0])

    def x_ConstantExpr(self, n):
        return self.rvalue(n["inner"][0])

    def x_IntegerLiteral(self, n):
        ct = parse_type(n["type"])
        return IV(bv(int(n["value"]), ct.width), ct)

    def x_CharacterLiteral(self, n):
        ct = parse_type(n["type"])
        return IV(bv(int(n["value"]), ct.width), ct)

    def x_StringLiteral(self, n):
        s = eval(n["value"])  # C string literal as printed by clang ("..."): plain ASCII here
        data = s.encode("latin1") + b"\0"
        key = "str:" + s
        if key not in self.ghost:
            mem = z3.K(BV64, bv(0, 8))
            for i, c in enumerate(data):
                mem = z3.Store(mem, bv(i), bv(c, 8))
            o = self.new_obj("strlit", len(data), mem=mem, writable=False)
            o.literal = s
            self.ghost[key] = o
        return self.ghost[key]

    def x_DeclRefExpr(self, n):
        rd = n["referencedDecl"]
        if rd["kind"] == "FunctionDecl":
            return ("func", rd["name"])
        if rd["kind"] == "EnumConstantDecl":
            raise Unsupported("enum constant")
        return ("lv", self.lvalue(n), parse_type(n["type"]))

    def x_MemberExpr(self, n):
        return ("lv", self.lvalue(n), parse_type(n["type"]))

    def x_ArraySubscriptExpr(self, n):
        return ("lv", self.lvalue(n), parse_type(n["type"]))

    def x_ImplicitCastExpr(self, n):
        ck = n["castKind"]
        inner = n["inner"][0]
        ct = parse_type(n["type"])
        if ck == "LValueToRValue":
            v = self.rvalue(inner)
            if isinstance(v, tuple) and v[0] == "lv":
                return self.load(v[1], v[2])
            return v
        v = self.rvalue(inner)
        if ck == "ArrayToPointerDecay":
            if isinstance(v, tuple) and v[0] == "lv":
                v = self.load(v[1], v[2])
            if isinstance(v, MObj):
                return PV(v, bv(0), ct)
            if isinstance(v, ("".__class__,)):
                raise Unsupported("decay of %r" % v)
            return v
        if ck == "FunctionToPointerDecay":
            return v
        if ck in ("NoOp", "BitCast"):
            if isinstance(v, PV):
                return PV(v.obj, v.off, ct if ct.kind == "ptr" else v.ct)
            return v
        if ck == "NullToPointer":
            return PV(None, bv(0), ct)
        if ck == "IntegralCast":
            if isinstance(v, tuple):
                raise Unsupported("cast of lvalue")
            return self.conv(v, ct)
        if ck == "IntegralToBoolean":
            return IV(z3.If(self.truth(v), bv(1, 8), bv(0, 8)), ct)
        if ck == "PointerToBoolean":
            return IV(z3.If(self.truth(v), bv(1, 32), bv(0, 32)), CT("int", 32, True))
        raise Unsupported("cast kind %s" % ck)

    x_CStyleCastExpr = x_ImplicitCastExpr

    def x_UnaryExprOrTypeTraitExpr(self, n):
        if n.get("name") != "sizeof":
            raise Unsupported("type trait %s" % n.get("name"))
        if "argType" in n:
            sz = parse_type(n["argType"]).size()
        else:
            sz = parse_type(n["inner"][0]["type"]).size()
        ct = parse_type(n["type"])
        return IV(bv(sz, ct.width), ct)

    def x_UnaryOperator(self, n):
        op = n["opcode"]
        inner = n["inner"][0]
        ct = parse_type(n["type"])
        if op == "&":
            v = self.rvalue(inner)
            if isinstance(v, tuple) and v[0] == "lv":
                lv = v[1]
                if lv[0] == "local":
                    return ("addr_local", lv[1])
                if lv[0] == "global":
                    return self.opaque_ptr("global_" + lv[1])
                if lv[0] == "mem":
                    return lv[1]
            raise Unsupported("address-of")
        if op == "*":
            return ("lv", self.lvalue(n), ct)
        if op in ("++", "--"):
            lv = self.lvalue(inner)
            old = self.load(lv, ct)
            one = IV(bv(1, 64), CT("int", 64, True))
            if isinstance(old, PV):
                new = self.padd(old, one, 1 if op == "++" else -1)
            else:
                new = self.arith("+" if op == "++" else "-", old, IV(bv(1, old.ct.width), old.ct), old.ct)
            self.store(lv, new)
            return old if n.get("isPostfix") else new
        v = self.rvalue(inner)
        if op == "!":
            return IV(z3.If(self.truth(v), bv(0, 32), bv(1, 32)), CT("int", 32, True))
        if op == "-":
            if v.ct.signed:
                self.oblige("neg.overflow", v.t != bv(1 << (v.ct.width - 1), v.ct.width), note="signed negation overflow")
            return IV(-v.t, v.ct)
        if op == "~":
            return IV(~v.t, v.ct)
        if op == "+":
            return v
        raise Unsupported("unary %s" % op)

    def arith(self, op, a: IV, b: IV, ct: CT):
        w = ct.width
        x, y = a.t, b.t
        if op in ("<<", ">>"):
            y = self.resize(y, b.ct, w)
            self.oblige("shift.range", z3.ULT(y, bv(w, w)), note="shift amount within [0, width)")
            if op == "<<":
                if ct.signed:
                    # UB when the result does not fit (C99 6.5.7p4): value * 2^y must be representable and x >= 0
                    wide = z3.ZeroExt(w, x) << z3.ZeroExt(w, y)
                    self.oblige("shl.signed", z3.And(x >= 0, z3.ULT(wide, z3.BitVecVal(1 << (w - 1), 2 * w))), note="signed left shift stays representable")
                return IV(x << y, ct)
            return IV((x >> y) if ct.signed else z3.LShR(x, y), ct)
        if x.size() != w or y.size() != w:
            x, y = self.resize(x, a.ct, w), self.resize(y, b.ct, w)
        if op == "+":
            if ct.signed:
                self.oblige("add.overflow", z3.And(z3.BVAddNoOverflow(x, y, True), z3.BVAddNoUnderflow(x, y)), note="signed addition does not overflow")
            return IV(x + y, ct)
        if op == "-":
            if ct.signed:
                self.oblige("sub.overflow", z3.And(z3.BVSubNoOverflow(x, y), z3.BVSubNoUnderflow(x, y, True)), note="signed subtraction does not overflow")
            return IV(x - y, ct)
        if op == "*":
            if ct.signed:
                self.oblige("mul.overflow", z3.And(z3.BVMulNoOverflow(x, y, True), z3.BVMulNoUnderflow(x, y)), note="signed multiplication does not overflow")
            return IV(x * y, ct)
        if op == "/" or op == "%":
            self.oblige("div.zero", y != 0, note="division by zero")
            if ct.signed:
                return IV(x / y if op == "/" else z3.SRem(x, y), ct)
            return IV(z3.UDiv(x, y) if op == "/" else z3.URem(x, y), ct)
        if op == "&":
            return IV(x & y, ct)
        if op == "|":
            return IV(x | y, ct)
        if op == "^":
            return IV(x ^ y, ct)
        raise Unsupported("binary %s" % op)

    def cmp(self, op, a, b):
        if isinstance(a, PV) or isinstance(b, PV):
            if not (isinstance(a, PV) and isinstance(b, PV)):
                raise Unsupported("pointer/integer comparison")
            x, y = a.flat(), b.flat()
            signed = False
        else:
            w = max(a.t.size(), b.t.size())
            x, y = self.resize(a.t, a.ct, w), self.resize(b.t, b.ct, w)
            signed = a.ct.signed
        r = {
            "==": lambda: x == y, "!=": lambda: x != y,
            "<": lambda: (x < y) if signed else z3.ULT(x, y),
            "<=": lambda: (x <= y) if signed else z3.ULE(x, y),
            ">": lambda: (x > y) if signed else z3.UGT(x, y),
            ">=": lambda: (x >= y) if signed else z3.UGE(x, y),
        }[op]()
        return r

    def as_val(self, v):
        if isinstance(v, tuple) and v[0] == "lv":
            return self.load(v[1], v[2])
        return v

    def x_BinaryOperator(self, n):
        op = n["opcode"]
        ct = parse_type(n["type"])
        L, R = n["inner"]
        if op == "=":
            lv = self.lvalue(L)
            v = self.as_val(self.rvalue(R))
            self.store(lv, v)
            return v
        if op in ("&&", "||"):
            a = self.as_val(self.rvalue(L))
            ta = self.ctx.branch(self.truth(a))
            if op == "&&" and not ta:
                return IV(bv(0, 32), ct)
            if op == "||" and ta:
                return IV(bv(1, 32), ct)
            b = self.as_val(self.rvalue(R))
            tb = self.ctx.branch(self.truth(b))
            return IV(bv(1 if tb else 0, 32), ct)
        if op == ",":
            self.rvalue(L)
            return self.rvalue(R)
        a = self.as_val(self.rvalue(L))
        b = self.as_val(self.rvalue(R))
        if isinstance(a, MObj):
            a = PV(a, bv(0))
        if isinstance(b, MObj):
            b = PV(b, bv(0))
        if op in ("==", "!=", "<", "<=", ">", ">="):
            c = self.cmp(op, a, b)
            return IV(z3.If(c, bv(1, 32), bv(0, 32)), ct)
        if isinstance(a, PV) or isinstance(b, PV):
            if op == "+":
                return self.padd(a, b) if isinstance(a, PV) else self.padd(b, a)
            if op == "-" and isinstance(b, IV):
                return self.padd(a, b, -1)
            if op == "-":
                es = a.ct.elem.size() if a.ct.elem and a.ct.elem.kind in ("int", "ptr") else 1
                same = a.obj is b.obj
                self.oblige("ptrdiff.same-object", z3.BoolVal(bool(same)), note="pointer subtraction within one object")
                d = a.flat() - b.flat()
                if es != 1:
                    d = d / bv(es)
                return IV(d, ct)
            raise Unsupported("pointer op %s" % op)
        return self.arith(op, a, b, ct)

    def x_CompoundAssignOperator(self, n):
        op = n["opcode"][:-1]
        L, R = n["inner"]
        lv = self.lvalue(L)
        lct = parse_type(L["type"])
        cur = self.load(lv, lct)
        r = self.as_val(self.rvalue(R))
        if isinstance(cur, PV):
            new = self.padd(cur, r, 1 if op == "+" else -1)
        else:
            cct = parse_type(n.get("computeResultType") or n["type"])
            a = self.conv(cur, cct)
            b = r if op in ("<<", ">>") else self.conv(r, cct)
            new = self.conv(self.arith(op, a, b, cct), lct)
        self.store(lv, new)
        return new

    def x_ConditionalOperator(self, n):
        c = self.as_val(self.rvalue(n["inner"][0]))
        if self.ctx.branch(self.truth(c)):
            return self.as_val(self.rvalue(n["inner"][1]))
        return self.as_val(self.rvalue(n["inner"][2]))

    def x_InitListExpr(self, n):
        return ("initlist", n)

    def x_CallExpr(self, n):
        callee = self.rvalue(n["inner"][0])
        argn = n["inner"][1:]
        if isinstance(callee, tuple) and callee[0] == "func":
            name = callee[1]
        elif isinstance(callee, PV) and callee.obj is not None and getattr(callee.obj, "fnname", None):
            name = callee.obj.fnname
        else:
            raise Unsupported("indirect call")
        if name in self.cf.functions and name not in self.stubs:
            return self.call_internal(name, argn, n)
        st = self.stubs.get(name)
        if st is None:
            raise Unsupported("external function %s without a (trusted) contract" % name)
        self.trusted.add(name)
        return st(self, n, argn)

    def call_internal(self, name, argn, n):
        """Static helper defined in the same file: inlined (its obligations are then generated at this call site)."""
        if self.call_depth > 3:
            raise Unsupported("call depth")
        fd = self.cf.functions[name]
        params = [c for c in fd["inner"] if c["kind"] == "ParmVarDecl"]
        body = [c for c in fd["inner"] if c["kind"] == "CompoundStmt"][0]
        args = [self.as_val(self.rvalue(a)) for a in argn]
        saved = (self.locals, self.ltypes)
        self.locals, self.ltypes = {}, {}
        for p, a in zip(params, args):
            self.ltypes[p["name"]] = parse_type(p["type"])
            self.locals[p["name"]] = a
        self.call_depth += 1
        try:
            self.exec(body)
            rv = None
        except CReturn as r:
            rv = r.v
        finally:
            self.call_depth -= 1
            self.locals, self.ltypes = saved
        return rv

    # ---- statements
    def exec(self, n):
        self.cur_line = n.get("range", {}).get("begin", {}).get("line", self.cur_line) or self.cur_line
        k = n["kind"]
        if k == "CompoundStmt":
            for c in n.get("inner", []):
                self.exec(c)
            return
        if k == "DeclStmt":
            for d in n["inner"]:
                if d["kind"] != "VarDecl":
                    raise Unsupported("declaration %s" % d["kind"])
                ct = parse_type(d["type"])
                self.ltypes[d["name"]] = ct
                self.locals.pop(d["name"], None)
                if d.get("inner"):
                    v = self.as_val(self.rvalue(d["inner"][-1]))
                    if isinstance(v, tuple) and v[0] == "initlist":
                        self.locals[d["name"]] = v
                    else:
                        self.store(("local", d["name"]), v)
            return
        if k == "IfStmt":
            c = self.as_val(self.rvalue(n["inner"][0]))
            if self.ctx.branch(self.truth(c)):
                self.exec(n["inner"][1])
            elif len(n["inner"]) > 2:
                self.exec(n["inner"][2])
            return
        if k == "ReturnStmt":
            v = self.as_val(self.rvalue(n["inner"][0])) if n.get("inner") else None
            raise CReturn(v)
        if k == "NullStmt":
            return
        if k == "BreakStmt":
            raise CBreak()
        if k == "ForStmt":
            init, _condvar, cond, inc, body = n["inner"]
            if init and init.get("kind"):
                self.exec(init)
            it = 0
            while True:
                c = self.as_val(self.rvalue(cond)) if cond and cond.get("kind") else IV(bv(1, 32), CT("int", 32, True))
                if it >= UNWIND:
                    self.oblige("loop.unwind", z3.Not(self.truth(c)), note="loop terminates within %d iterations" % UNWIND)
                    return
                if not self.ctx.branch(self.truth(c)):
                    return
                try:
                    self.exec(body)
                except CBreak:
                    return
                if inc and inc.get("kind"):
                    self.rvalue(inc)
                it += 1
        if k == "SwitchStmt":
            v = self.as_val(self.rvalue(n["inner"][0]))
            body = n["inner"][1]
            flat = []  # (labels, stmt)
            for c in body.get("inner", []):
                labels = []
                while c["kind"] in ("CaseStmt", "DefaultStmt"):
                    if c["kind"] == "CaseStmt":
                        labels.append(self.as_val(self.rvalue(c["inner"][0])))
                        c = c["inner"][-1]
                    else:
                        labels.append(None)
                        c = c["inner"][0]
                flat.append((labels, c))
            start = None
            default = None
            for i, (labels, _s) in enumerate(flat):
                for lab in labels:
                    if lab is None:
                        default = i
                    elif start is None:
                        w = max(v.t.size(), lab.t.size())
                        if self.ctx.branch(self.resize(v.t, v.ct, w) == self.resize(lab.t, lab.ct, w)):
                            start = i
                if start is not None:
                    break
            if start is None:
                start = default
            if start is None:
                return
            try:
                for _labels, s in flat[start:]:
                    self.exec(s)
            except CBreak:
                pass
            return
        # expression statement
        self.rvalue(n)
