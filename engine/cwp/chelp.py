"""Helpers shared by the C contracts (contracts/c_*.py)."""
from __future__ import annotations

import z3

from .cexec import BV8, BV64, CT, IV, MObj, PV, SObj, bv
from .stubs import _MV

TRUE = z3.BoolVal(True)
FALSE = z3.BoolVal(False)


def B(x):
    return z3.BoolVal(bool(x))


def be(mem, off, n):
    """big-endian value of n bytes of `mem` starting at off (z3 BV of 8n bits)"""
    bs = [z3.Select(mem, off + bv(i)) for i in range(n)]
    t = bs[0]
    for b in bs[1:]:
        t = z3.Concat(t, b)
    return t


def kind_of(outcome):
    """'null' | 'none' | 'true' | 'false' | PyRes | 'other'"""
    if isinstance(outcome, PV):
        if outcome.obj is None:
            return "null"
        nm = outcome.obj.name
        if nm == "global__Py_NoneStruct":
            return "none"
        if nm == "global__Py_TrueStruct":
            return "true"
        if nm == "global__Py_FalseStruct":
            return "false"
        return getattr(outcome.obj, "pyres", "other")
    return "other"


def mv(m, **kw):
    for k, t in kw.items():
        m.ctx.model_vars[k] = _MV(t)


# ---------------------------------------------------------------- Buffer


def buffer_self(m, initialised=True):
    so = SObj("BufferObject", m.cf.records["BufferObject"])
    st = {"so": so}
    if initialised:
        cap = z3.BitVec("cap", 64)
        p0 = z3.BitVec("p0", 64)
        asize = z3.BitVec("alloc_size", 64)  # the allocation may be larger than the capacity (capacity 0 allocates 1 byte)
        Bo = m.new_obj("buf", asize)
        Bo.heap = True
        m.ctx.assume(z3.ULE(cap, asize))
        m.ctx.assume(z3.ULE(p0, cap))
        so.fields["base"] = PV(Bo, bv(0))
        so.fields["end"] = PV(Bo, cap)
        so.fields["pos"] = PV(Bo, p0)
        st.update(B=Bo, cap=cap, p0=p0, mem0=Bo.mem)
        mv(m, cap=cap, p0=p0)
    selfp = PV(so, bv(0))
    st["args"] = [selfp, m.opaque_ptr("args"), m.opaque_ptr("kwargs")]
    return st


def buffer_inv(m, st, Bo=None):
    """representation invariant of BufferObject: base is the start of a live allocation of end-base bytes, base <= pos <= end"""
    so = st["so"]
    out = []
    base, end, pos = so.fields.get("base"), so.fields.get("end"), so.fields.get("pos")
    if not all(isinstance(x, PV) for x in (base, end, pos)):
        return [("inv.fields-set", FALSE, "base/end/pos are all assigned")]
    Bo = Bo or base.obj
    if Bo is None or isinstance(Bo, SObj) or Bo.opaque:
        return [("inv.base-nonnull", FALSE, "base points to an allocation (not NULL)")]
    out.append(("inv.base", z3.And(B(base.obj is Bo), base.off == 0, B(Bo.live)), "base is the start of the live allocation"))
    out.append(("inv.end", z3.And(B(end.obj is Bo), z3.ULE(end.off, Bo.size)), "end lies inside the allocation (base <= end <= base + size)"))
    out.append(("inv.pos", z3.And(B(pos.obj is Bo), z3.ULE(pos.off, end.off)), "base <= pos <= end"))
    return out


def buffer_unchanged(m, st, mem=True, pos=True):
    so, Bo = st["so"], st["B"]
    out = []
    if pos:
        out.append(("pos-unchanged", z3.And(B(so.fields["pos"].obj is Bo), so.fields["pos"].off == st["p0"]), "position unchanged"))
    if mem:
        k = z3.BitVec("k!u", 64)
        out.append(("mem-unchanged", z3.ForAll([k], z3.Implies(z3.ULT(k, st["cap"]), z3.Select(Bo.mem, k) == z3.Select(st["mem0"], k))), "buffer bytes unchanged"))
    return out


def res_bytes_equal(res, mem, off, n):
    """PyRes bytes result equals mem[off, off+n)"""
    k = z3.BitVec("k!r", 64)
    return z3.And(res.n == n, z3.ForAll([k], z3.Implies(z3.ULT(k, n), z3.Select(res.mem, res.off + k) == z3.Select(mem, off + k))))
