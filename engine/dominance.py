"""Control-flow placement obligations ("X happens only after Y returned normally"), decided on the AST of the CURRENT
source of one function.  Back end: "syntactic-dominance-analysis" - no SMT reasoning; every obligation's goal is the z3
constant True / False of the verdict so that the normal driver machinery counts, reports and replays it (as for
engine/logblocks.py).  A construct the walk cannot classify is never accepted (the obligation is refuted / the function
undecided).

Declared in a sidecar with
    R.dominance("<name>", function="quic/connection.py::QuicConnection.receive_datagram", after="calls:decrypt_packet",
                sites=["writes:_close_at", "calls:_payload_received", ...], expect={"writes:_close_at": 1, ...}, prop=[...])
qual: dominance::<name>

Meaning of an obligation  <fn>:after(<Y>).<site>@<k> :  on EVERY control-flow path of ONE call of the function that
reaches the k-th site (in source order), a statement containing a call of Y was executed before it AND completed
normally (an exception raised inside Y, or handled by an enclosing `try` whose handler does not fall through, never
reaches the site).  Sites: `writes:<attr>` = an assignment / augmented assignment whose target is an attribute of that
name (any receiver); `calls:<name>` = a call of an attribute or function of that name.

The walk is a forward must-analysis over the structured AST with one boolean fact A ("Y has completed normally on every
path to here"):
    simple statement containing a call of Y   -> A := True after it (evaluation order inside the statement is not
                                                 modelled: a statement that contains both Y and a site is REFUSED)
    if / elif / else                          -> A_after = AND of the branches that can fall through
    try / except / else / finally             -> handlers start from the A at try entry; A_after = AND over the normal end
                                                 of body(+else) and of every handler that can fall through; finally
                                                 is walked from the entry A and does not improve A
    while / for (+ else)                      -> the body is walked from the loop's ENTRY A (the back edge can only carry a
                                                 stronger fact); A_after = entry A
    with                                      -> body walked in place
    return / raise / continue / break         -> do not fall through
    nested def / lambda / class               -> not walked; a site or Y inside one is REFUSED (reported as an error)
`after="passes:<test>"`: Y is a guard statement `if <test>: <body that cannot fall through>` (no else); the fact holds behind it.
`after="ifstmt:<test>"`: Y is the conditional statement `if <test>: ...` as a whole (the fact holds behind it whichever branch ran).
`mode="none_after"` turns the declaration around (a MAY-analysis): the obligation at a site is that NO path reaches it after
a statement containing Y may have been executed ("every pull from the frame buffer happens before the stream lookup that
can abort the handler"); joins are unions, a loop body is walked again from the joined fact, an exception handler is
entered with "Y may have run" when Y occurs in the try body.
`exempt={"writes:x": ["<test>"]}`: a site under the true branch of an `if <test>:` is not an obligation (it is listed among
the assumptions of the evidence with the declaration's exempt_note).
`expect` pins the number of (non-exempt) sites found per kind: a site that disappears (renamed attribute, moved into a helper) makes
the function undecided instead of silently proving nothing (vacuity guard)."""
from __future__ import annotations

import ast
import hashlib
import os

import z3

from engine.pyvc.core import Obligation


def _src_root():
    return os.environ.get("AIOQUIC_SRC", "/repo/src/aioquic")


def _is_site(node, kind, name):
    if kind in ("passes", "ifstmt"):
        return False  # only meaningful as `after`: handled on `if` statements in Walk.stmt
    if kind == "writes":
        if isinstance(node, (ast.Assign, ast.AugAssign, ast.AnnAssign)):
            tgts = node.targets if isinstance(node, ast.Assign) else [node.target]
            for t in tgts:
                for sub in ast.walk(t):
                    if isinstance(sub, ast.Attribute) and sub.attr == name and isinstance(sub.ctx, ast.Store):
                        return True
        return False
    if kind == "calls":
        for sub in ast.walk(node):
            if isinstance(sub, ast.Call):
                f = sub.func
                if (isinstance(f, ast.Attribute) and f.attr == name) or (isinstance(f, ast.Name) and f.id == name):
                    return True
        return False
    raise ValueError(kind)


def _header_exprs(st):
    out = []
    for a in ("test", "iter"):
        v = getattr(st, a, None)
        if v is not None:
            out.append(v)
    if isinstance(st, (ast.With, ast.AsyncWith)):
        out.extend(i.context_expr for i in st.items)
    return out


class Walk:
    def __init__(self, after, sites, exempt=None, may=False):
        self.may = may  # False: must-analysis ("Y completed on every path"), True: may-analysis ("Y may have been executed")
        self.after = after  # (kind, name)
        self.sites = sites  # list of (kind, name)
        self.found = []  # (site spec, lineno, A at the site)
        self.errors = []
        self.exempt = exempt or {}  # site spec -> [unparsed test of an enclosing `if` under which the site is not an obligation]
        self.exempted = []  # (site spec, lineno, test)
        self.tests = []  # stack of the unparsed tests of the enclosing `if` statements (true branch only)

    def _has(self, node, spec):
        return _is_site(node, spec[0], spec[1])

    def _nested(self, st):
        return [n for n in ast.walk(st) if isinstance(n, (ast.FunctionDef, ast.AsyncFunctionDef, ast.Lambda, ast.ClassDef)) and n is not st]

    def simple(self, st, a):
        """a simple (non-compound) statement or a header expression; returns A after it"""
        for n in self._nested(st):
            for spec in self.sites + [self.after]:
                if any(self._has(x, spec) for x in ast.walk(n) if isinstance(x, (ast.stmt, ast.expr))):
                    self.errors.append("line %d: %s:%s inside a nested function / lambda is not analysed" % (getattr(n, "lineno", 0), spec[0], spec[1]))
        has_y = self._has(st, self.after)
        for spec in self.sites:
            if self._has(st, spec):
                if has_y:
                    self.errors.append("line %d: the statement contains both %s:%s and the site %s:%s (evaluation order not modelled)" % (st.lineno, self.after[0], self.after[1], spec[0], spec[1]))
                ex = next((t for t in self.exempt.get(spec, []) if t in self.tests), None)
                if ex is not None:
                    self.exempted.append((spec, getattr(st, "lineno", 0), ex))
                else:
                    self.found.append((spec, getattr(st, "lineno", 0), a))
        return True if has_y else a

    def block(self, body, a):
        """-> (A at normal end, falls_through)"""
        for st in body:
            a, ft = self.stmt(st, a)
            if not ft:
                return a, False
        return a, True

    def stmt(self, st, a):
        if isinstance(st, (ast.Return, ast.Raise, ast.Continue, ast.Break)):
            self.simple(st, a)
            return a, False
        if isinstance(st, (ast.FunctionDef, ast.AsyncFunctionDef, ast.ClassDef)):
            self.simple(st, a)
            return a, True
        if isinstance(st, ast.If):
            a0 = a
            for h in _header_exprs(st):
                a0 = self.simple(ast.Expr(value=h, lineno=st.lineno), a0)
            if self.after[0] == "ifstmt" and not self.may and ast.unparse(st.test) == self.after[1]:
                # `after="ifstmt:<test>"`: Y is the conditional statement itself ("the limit is set when it is needed"): the
                # fact holds behind it whichever branch ran
                self.guards_seen = getattr(self, "guards_seen", 0) + 1
                self.block(st.body, a0)
                if st.orelse:
                    self.block(st.orelse, a0)
                return True, True
            if self.after[0] == "passes" and not self.may and not st.orelse and ast.unparse(st.test) == self.after[1]:
                # `after="passes:<test>"`: a guard `if <test>: <body that raises / returns>`; control continues behind it only when
                # the test was false - the fact holds from there on
                self.guards_seen = getattr(self, "guards_seen", 0) + 1
                _a1, f1 = self.block(st.body, a0)
                if f1:
                    self.errors.append("line %d: the guard `if %s:` can fall through" % (st.lineno, self.after[1]))
                    return a0, True
                return True, True
            self.tests.append(ast.unparse(st.test))
            a1, f1 = self.block(st.body, a0)
            self.tests.pop()
            a2, f2 = self.block(st.orelse, a0) if st.orelse else (a0, True)
            outs = [x for x, f in ((a1, f1), (a2, f2)) if f]
            return ((any(outs) if self.may else all(outs)) if outs else a0), bool(outs)
        if isinstance(st, (ast.While, ast.For, ast.AsyncFor)):
            a0 = a
            for h in _header_exprs(st):
                a0 = self.simple(ast.Expr(value=h, lineno=st.lineno), a0)
            if self.may:
                # may-analysis: the fact at the loop head is the join over the entry and the back edge; walk once to learn
                # the back-edge fact, and again from the joined fact when that adds something
                n0, e0 = len(self.found), len(self.exempted)
                ae, _f = self.block(st.body, a0)
                if ae and not a0:
                    del self.found[n0:], self.exempted[e0:]
                    self.block(st.body, True)
                    a0 = True
                if st.orelse:
                    self.block(st.orelse, a0)
                return (a0 or ae), True
            self.block(st.body, a0)  # the header (test / iterable) is evaluated before the first iteration; back edges only carry stronger facts
            if st.orelse:
                self.block(st.orelse, a)
            return a, True  # conservative: the loop may run zero times; `while True` without break is not special-cased
        if isinstance(st, ast.Try):
            ab, fb = self.block(st.body, a)
            if fb and st.orelse:
                ab, fb = self.block(st.orelse, ab)
            outs = [ab] if fb else []
            a_h = a
            if self.may and any(self._has(x, self.after) for b in st.body for x in ast.walk(b) if isinstance(x, ast.stmt)):
                a_h = True  # may-analysis: an exception can leave the body after Y was executed
            for h in st.handlers:
                ah, fh = self.block(h.body, a_h)
                if fh:
                    outs.append(ah)
            a_after = (any(outs) if self.may else all(outs)) if outs else a
            ft = bool(outs)
            if st.finalbody:
                af, ff = self.block(st.finalbody, a_h if self.may else a)
                if not ff:
                    ft = False
            return a_after, ft
        if isinstance(st, (ast.With, ast.AsyncWith)):
            a0 = a
            for h in _header_exprs(st):
                a0 = self.simple(ast.Expr(value=h, lineno=st.lineno), a0)
            return self.block(st.body, a0)
        if hasattr(ast, "Match") and isinstance(st, ast.Match):
            self.errors.append("line %d: match statement not analysed" % st.lineno)
            return a, True
        return self.simple(st, a), True


def _parse(spec):
    k, _, n = spec.partition(":")
    if k not in ("writes", "calls", "passes", "ifstmt") or not n:
        raise ValueError("bad site spec %r" % spec)
    if k in ("passes", "ifstmt"):
        n = ast.unparse(ast.parse(n, mode="eval").body)
    return (k, n)


def build(qual, reg):
    """-> engine.pyvc.verify.FunctionResult for a 'dominance::<name>' qual"""
    from engine.pyvc.verify import FunctionResult

    r = FunctionResult(qual)
    name = qual.split("::", 1)[1]
    decl = getattr(reg, "dominances", {}).get(name)
    if decl is None:
        r.errors.append("no dominance declaration %s" % name)
        return r
    rel, fq = decl["function"].split("::")
    path = os.path.join(_src_root(), rel)
    try:
        text = open(path).read()
        tree = ast.parse(text)
    except (OSError, SyntaxError) as e:
        r.errors.append("cannot read/parse %s: %s" % (rel, e))
        return r
    cls, _, fn = fq.rpartition(".")
    node = None
    for top in tree.body:
        if cls and isinstance(top, ast.ClassDef) and top.name == cls:
            for m in top.body:
                if isinstance(m, (ast.FunctionDef, ast.AsyncFunctionDef)) and m.name == fn:
                    node = m
        elif not cls and isinstance(top, (ast.FunctionDef, ast.AsyncFunctionDef)) and top.name == fn:
            node = top
    if node is None:
        r.errors.append("function %s not found in %s" % (fq, rel))
        return r
    r.sha = hashlib.sha256((ast.get_source_segment(text, node) or "").encode()).hexdigest()[:16]
    r.paths = 1
    after = _parse(decl["after"])
    sites = [_parse(s) for s in decl["sites"]]
    exempt = {_parse(k): [ast.unparse(ast.parse(t, mode="eval").body) for t in v] for k, v in (decl.get("exempt") or {}).items()}
    may = decl.get("mode", "only_after") == "none_after"
    w = Walk(after, sites, exempt, may=may)
    w.block(node.body, False)
    for spec, line, t in w.exempted:
        r.assumptions.add("dominance: the %s of %s at line %d, guarded by `if %s:`, is exempt by declaration (%s)" % ("write" if spec[0] == "writes" else "call", spec[1], line, t, decl.get("exempt_note", "")))
    r.errors.extend(w.errors)
    counts = {}
    for spec, line, a in sorted(w.found, key=lambda t: (t[0], t[1])):
        k = counts.get(spec, 0)
        counts[spec] = k + 1
        if may:
            oname = "%s:none-after(%s).%s:%s@%d" % (fq, after[1], spec[0], spec[1], k)
            note = "line %d: %s of %s %s be executed after %s:%s" % (line, "write" if spec[0] == "writes" else "call", spec[1], "can" if a else "can never", after[0], after[1])
            ob = Obligation(oname, "dominance", [], z3.BoolVal(not a), site=line, note=note)
        else:
            oname = "%s:after(%s).%s:%s@%d" % (fq, after[1], spec[0], spec[1], k)
            note = "line %d: %s of %s %s %s:%s returned normally on every path" % (line, "write" if spec[0] == "writes" else "call", spec[1], "only after" if a else "NOT only after", after[0], after[1])
            ob = Obligation(oname, "dominance", [], z3.BoolVal(bool(a)), site=line, note=note)
        r.obligations.append(ob)
    for s, n in (decl.get("expect") or {}).items():
        got = counts.get(_parse(s), 0)
        if got != n:
            r.errors.append("expected %d site(s) %s in %s, found %d (vacuity guard: the site moved out of the function or was renamed)" % (n, s, fq, got))
    if after[0] in ("passes", "ifstmt"):
        if not getattr(w, "guards_seen", 0):
            r.errors.append("no guard `if %s:` in %s" % (after[1], fq))
    elif not any(_is_site(x, after[0], after[1]) for x in ast.walk(node) if isinstance(x, ast.stmt)):
        r.errors.append("no %s:%s in %s" % (after[0], after[1], fq))
    r.outcomes = {"sites": len(r.obligations)}
    return r
