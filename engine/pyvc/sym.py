"""Types, z3 sorts and symbolic values for pyvc.

Every Python value the executor handles is a V(ty, term) with exactly one z3 term.
Encoding (stated in DESIGN.md 2.1):
  int -> Int (exact), bool -> Bool, float -> Real (assumption A1),
  bytes/bytearray -> datatype (len, Array Int Int), list[T] -> datatype (len, Array Int T),
  range -> datatype (start, stop) [step 1], Optional[T] -> datatype none | some(T),
  dict[K,V] -> datatype (dom: Array K Bool, val: Array K V), set[K] -> Array K Bool,
  tuple -> datatype, object references -> Int (heap is a map (class, field) -> Array Int T),
  str -> uninterpreted sort with a length function, callables -> Int handle.
"""
from __future__ import annotations

import z3


class Unsupported(Exception):
    """Construct outside the modelled subset: obligations downstream are undecided."""


# --------------------------------------------------------------------------- types


class Ty:
    name = "?"

    def __repr__(self):
        return self.name

    def __eq__(self, other):
        return isinstance(other, Ty) and self.name == other.name

    def __hash__(self):
        return hash(self.name)


class TPrim(Ty):
    def __init__(self, name):
        self.name = name


TInt = TPrim("int")
TBool = TPrim("bool")
TReal = TPrim("float")
TBytes = TPrim("bytes")
TStr = TPrim("str")
TRange = TPrim("range")
TNone = TPrim("None")
TFunc = TPrim("callable")
TAny = TPrim("any")  # opaque python object (uninterpreted Int handle)


class TOpt(Ty):
    def __init__(self, inner):
        assert not isinstance(inner, TOpt)
        self.inner = inner
        self.name = "Optional[%s]" % inner.name


class TList(Ty):
    def __init__(self, elem):
        self.elem = elem
        self.name = "list[%s]" % elem.name


class TDict(Ty):
    def __init__(self, k, v):
        self.k, self.v = k, v
        self.name = "dict[%s,%s]" % (k.name, v.name)


class TSet(Ty):
    def __init__(self, k):
        self.k = k
        self.name = "set[%s]" % k.name


class TTuple(Ty):
    def __init__(self, items):
        self.items = tuple(items)
        self.name = "tuple[%s]" % ",".join(t.name for t in items)


class TRef(Ty):
    def __init__(self, cls):
        self.cls = cls
        self.name = "ref:%s" % cls


class TEnum(Ty):
    """IntEnum / Enum member; encoded as Int."""

    def __init__(self, cls):
        self.cls = cls
        self.name = "enum:%s" % cls


class TArr(Ty):
    """spec-only: total map K -> V (ghost maps, set views)."""

    def __init__(self, k, v):
        self.k, self.v = k, v
        self.name = "map[%s,%s]" % (k.name, v.name)


# --------------------------------------------------------------------------- sorts

_sort_cache: dict[str, object] = {}
StrSort = z3.DeclareSort("PyStr")
str_len = z3.Function("str_len", StrSort, z3.IntSort())
_str_consts: dict[str, object] = {}


def str_const(s: str):
    if s not in _str_consts:
        c = z3.Const("str!%d" % len(_str_consts), StrSort)
        _str_consts[s] = c
    return _str_consts[s]


def str_axioms():
    cs = list(_str_consts.items())
    ax = []
    if len(cs) > 1:
        ax.append(z3.Distinct(*[c for _, c in cs]))
    for s, c in cs:
        ax.append(str_len(c) == len(s))
    return ax


def _mk_dt(name, fields):
    dt = z3.Datatype(name)
    dt.declare("mk_" + name, *fields)
    return dt.create()


def sort_of(ty: Ty):
    key = ty.name
    if key in _sort_cache:
        return _sort_cache[key]
    if ty in (TInt,) or isinstance(ty, (TRef, TEnum)) or ty in (TFunc, TAny):
        s = z3.IntSort()
    elif ty == TBool:
        s = z3.BoolSort()
    elif ty == TReal:
        s = z3.RealSort()
    elif ty == TStr:
        s = StrSort
    elif ty == TNone:
        s = z3.BoolSort()  # unit; value irrelevant
    elif ty == TBytes:
        s = _mk_dt("Bytes", [("blen", z3.IntSort()), ("bdata", z3.ArraySort(z3.IntSort(), z3.IntSort()))])
    elif ty == TRange:
        s = _mk_dt("Range", [("rstart", z3.IntSort()), ("rstop", z3.IntSort())])
    elif isinstance(ty, TOpt):
        inner = sort_of(ty.inner)
        nm = "Opt_" + _san(ty.inner.name)
        dt = z3.Datatype(nm)
        dt.declare("none_" + nm)
        dt.declare("some_" + nm, ("val_" + nm, inner))
        s = dt.create()
    elif isinstance(ty, TList):
        nm = "List_" + _san(ty.elem.name)
        s = _mk_dt(nm, [("len_" + nm, z3.IntSort()), ("arr_" + nm, z3.ArraySort(z3.IntSort(), sort_of(ty.elem)))])
    elif isinstance(ty, TDict):
        nm = "Dict_" + _san(ty.k.name) + "_" + _san(ty.v.name)
        # (C19) dict[bytes, V] is keyed by bkey(b), the integer id of the byte STRING (Python compares dict keys by value;
        # two z3 Bytes terms may denote the same string and still differ outside [0, len)) - same device as set[bytes]
        ks = dict_ksort(ty)
        s = _mk_dt(
            nm,
            [
                ("dom_" + nm, z3.ArraySort(ks, z3.BoolSort())),
                ("val_" + nm, z3.ArraySort(ks, sort_of(ty.v))),
            ],
        )
    elif isinstance(ty, TSet):
        # set[bytes]: keyed by bkey(b), an integer id of the byte STRING (not of the z3 term), see bkey() below
        s = z3.ArraySort(z3.IntSort() if ty.k == TBytes else sort_of(ty.k), z3.BoolSort())
    elif isinstance(ty, TArr):
        s = z3.ArraySort(sort_of(ty.k), sort_of(ty.v))
    elif isinstance(ty, TTuple):
        nm = "Tup_" + "_".join(_san(t.name) for t in ty.items)
        s = _mk_dt(nm, [("t%d_%s" % (i, nm), sort_of(t)) for i, t in enumerate(ty.items)])
    else:
        raise Unsupported("no sort for type %r" % ty)
    _sort_cache[key] = s
    return s


def _san(n):
    return "".join(ch if ch.isalnum() else "_" for ch in n)


# --------------------------------------------------------------------------- values


class V:
    __slots__ = ("ty", "t", "origin")

    def __init__(self, ty: Ty, t, origin=None):
        self.ty = ty
        self.t = t
        self.origin = origin  # l-value a mutable value was read from (alias write-back)

    def __repr__(self):
        return "V(%s, %s)" % (self.ty, self.t)


def mk_int(n):
    return V(TInt, z3.IntVal(n) if isinstance(n, int) else n)


def mk_bool(b):
    return V(TBool, z3.BoolVal(b) if isinstance(b, bool) else b)


def mk_real(x):
    if isinstance(x, (int, float)):
        return V(TReal, z3.RealVal(repr(x) if isinstance(x, float) else x))
    return V(TReal, x)


NONE = V(TNone, z3.BoolVal(True))


def mk_none(opt_ty: TOpt):
    s = sort_of(opt_ty)
    return V(opt_ty, s.constructor(0)())


def mk_some(v: V):
    ty = TOpt(v.ty)
    s = sort_of(ty)
    return V(ty, s.constructor(1)(v.t))


def opt_is_none(v: V):
    s = sort_of(v.ty)
    return s.recognizer(0)(v.t)


def opt_val(v: V) -> V:
    s = sort_of(v.ty)
    return V(v.ty.inner, s.accessor(1, 0)(v.t))


# bytes
def bytes_mk(length, data):
    s = sort_of(TBytes)
    return V(TBytes, s.constructor(0)(length, data))


def bytes_len(v: V):
    return z3.simplify(sort_of(TBytes).accessor(0, 0)(v.t))


def bytes_data(v: V):
    return sort_of(TBytes).accessor(0, 1)(v.t)


_bytes_literals: dict[int, tuple] = {}  # z3 ast id -> (term kept alive, python value)


def bytes_const(b: bytes):
    arr = z3.K(z3.IntSort(), z3.IntVal(0))
    for i, x in enumerate(b):
        arr = z3.Store(arr, i, x)
    v = bytes_mk(z3.IntVal(len(b)), arr)
    _bytes_literals[v.t.get_id()] = (v.t, bytes(b))
    return v


def bytes_literal(v):
    """python value of a term built by bytes_const (None for any other term)"""
    hit = _bytes_literals.get(v.t.get_id())
    if hit is not None and hit[0].eq(v.t):
        return hit[1]
    return None


def bkey(t):
    """Integer id of a byte string used as a set element.  Python compares set elements by VALUE, so the id must depend
    on (length, bytes[0:length]) only, not on the z3 term (two terms may differ outside [0, len)).  bkey is
    uninterpreted; bkey_axiom() states exactly that: bkey(a) == bkey(b) <=> a and b are equal byte strings.  (A model
    exists: any injective numbering of finite byte strings.)"""
    f = z3.Function("bkey", sort_of(TBytes), z3.IntSort())
    return f(t)


def unkey(c):
    """some byte string whose id is c (meaningful for ids of set members only, see wf)"""
    f = z3.Function("unkey", z3.IntSort(), sort_of(TBytes))
    return f(c)


def bkey_axiom():
    bs = sort_of(TBytes)
    a, b = z3.Const("bk_a", bs), z3.Const("bk_b", bs)
    return z3.ForAll([a, b], (bkey(a) == bkey(b)) == bytes_eq(V(TBytes, a), V(TBytes, b)), patterns=[z3.MultiPattern(bkey(a), bkey(b))])


def set_empty(ty):
    return V(ty, z3.K(z3.IntSort() if ty.k == TBytes else sort_of(ty.k), z3.BoolVal(False)))


# range
def range_mk(a, b):
    s = sort_of(TRange)
    return V(TRange, s.constructor(0)(a, b))


def range_start(v):
    return sort_of(TRange).accessor(0, 0)(v.t)


def range_stop(v):
    return sort_of(TRange).accessor(0, 1)(v.t)


# list
def list_mk(elem_ty, length, arr):
    ty = TList(elem_ty)
    return V(ty, sort_of(ty).constructor(0)(length, arr))


def list_len(v: V):
    return z3.simplify(sort_of(v.ty).accessor(0, 0)(v.t))


def list_arr(v: V):
    return sort_of(v.ty).accessor(0, 1)(v.t)


def list_empty(elem_ty):
    es = sort_of(elem_ty)
    return list_mk(elem_ty, z3.IntVal(0), z3.K(z3.IntSort(), default_term(elem_ty)))


def default_term(ty: Ty):
    """Some fixed term of the type's sort (content of unused array cells)."""
    s = sort_of(ty)
    return z3.FreshConst(s, "dflt") if False else _default_cache(ty, s)


_dflt: dict[str, object] = {}


def _default_cache(ty, s):
    if ty.name not in _dflt:
        _dflt[ty.name] = z3.Const("dflt_" + _san(ty.name), s)
    return _dflt[ty.name]


# dict
def dict_ksort(ty):
    """sort of the key index of a dict's dom/val arrays: bkey ids (Int) for bytes keys, the key sort otherwise"""
    return z3.IntSort() if ty.k == TBytes else sort_of(ty.k)


def dict_mk(ty: TDict, dom, val):
    return V(ty, sort_of(ty).constructor(0)(dom, val))


def dict_dom(v):
    return sort_of(v.ty).accessor(0, 0)(v.t)


def dict_val(v):
    return sort_of(v.ty).accessor(0, 1)(v.t)


def dict_empty(ty: TDict):
    return dict_mk(
        ty,
        z3.K(dict_ksort(ty), z3.BoolVal(False)),
        z3.K(dict_ksort(ty), _default_cache(ty.v, sort_of(ty.v))),
    )


# tuple
def tuple_mk(vals):
    ty = TTuple([v.ty for v in vals])
    return V(ty, sort_of(ty).constructor(0)(*[v.t for v in vals]))


def tuple_get(v: V, i: int) -> V:
    return V(v.ty.items[i], sort_of(v.ty).accessor(0, i)(v.t))


def fresh(ty: Ty, name="v"):
    return V(ty, z3.FreshConst(sort_of(ty), name))


def wf(v: V, depth=0):
    """Well-formedness facts every Python value of this type satisfies."""
    out = []
    ty = v.ty
    if ty == TBytes:
        out.append(bytes_len(v) >= 0)
    elif isinstance(ty, TList):
        out.append(list_len(v) >= 0)
    elif isinstance(ty, TSet) and ty.k == TBytes and depth == 0:
        # every member of a set[bytes] IS a byte string: its id is the id of some byte string
        c = z3.FreshConst(z3.IntSort(), "c")
        out.append(z3.ForAll([c], z3.Implies(z3.Select(v.t, c), bkey(unkey(c)) == c), patterns=[z3.Select(v.t, c)]))
    elif isinstance(ty, TDict) and ty.k == TBytes and depth == 0:
        # (C19) every key of a dict[bytes, V] IS a byte string: its id is the id of some byte string
        c = z3.FreshConst(z3.IntSort(), "c")
        body = z3.Implies(z3.Select(dict_dom(v), c), bkey(unkey(c)) == c)
        try:
            out.append(z3.ForAll([c], body, patterns=[z3.Select(dict_dom(v), c)]))
        except z3.Z3Exception:  # the dict term is not a valid trigger (contains ite / a bound variable)
            out.append(z3.ForAll([c], body))
    elif isinstance(ty, TOpt):
        inner = wf(opt_val(v), depth + 1)
        if inner:
            out.append(z3.Implies(z3.Not(opt_is_none(v)), z3.And(*inner)))
    elif ty == TStr:
        out.append(str_len(v.t) >= 0)
    elif isinstance(ty, TTuple) and depth < 2:
        for i in range(len(ty.items)):
            out.extend(wf(tuple_get(v, i), depth + 1))
    return out


def coerce(v: V, ty: Ty) -> V:
    """Convert v to type ty where Python would accept it (None -> Optional, T -> Optional[T], int -> float)."""
    if v.ty == ty:
        return v
    if isinstance(ty, TOpt):
        if v.ty == TNone:
            return mk_none(ty)
        if isinstance(v.ty, TOpt):
            if v.ty.inner == ty.inner:
                return V(ty, v.t)
            inner = coerce(opt_val(v), ty.inner)
            return V(ty, z3.If(opt_is_none(v), mk_none(ty).t, mk_some(inner).t))
        return V(ty, mk_some(coerce(v, ty.inner)).t)
    if ty == TReal and v.ty in (TInt, TBool) or ty == TReal and isinstance(v.ty, TEnum):
        return V(TReal, z3.ToReal(as_int(v)))
    if ty == TInt and (v.ty == TBool or isinstance(v.ty, TEnum)):
        return V(TInt, as_int(v))
    if isinstance(ty, TEnum) and v.ty == TInt:
        return V(ty, v.t)
    if isinstance(ty, TEnum) and isinstance(v.ty, TEnum):
        return V(ty, v.t)
    if ty == TAny:
        if sort_of(v.ty) == z3.IntSort():
            return V(TAny, v.t)
        # a value of another representation (None, bytes, tuple, str, ...) stored where Any is declared (e.g. appended to
        # the list[Any] of tls.pull_list): Any values are opaque, so an unconstrained opaque value is a sound image
        return V(TAny, z3.FreshConst(z3.IntSort(), "any"))
    if isinstance(v.ty, TOpt) and v.ty.inner == ty:
        # caller must have established non-None; used by narrowing only
        return opt_val(v)
    if isinstance(ty, TRef) and isinstance(v.ty, TRef):
        return V(ty, v.t)
    if isinstance(ty, TList) and isinstance(v.ty, TList) and ty.elem == TInt and isinstance(v.ty.elem, TEnum):
        # list of IntEnum/Enum members where a list of ints is declared: same length, same (Int-encoded) elements
        return list_mk(TInt, list_len(v), list_arr(v))
    if ty == TFunc and v.ty == TFunc:
        return v
    if isinstance(ty, TDict) and isinstance(v.ty, TDict) and ty.v == v.ty.v and v.ty.k == TInt and isinstance(ty.k, TEnum):
        # a dict display keyed by Enum members is built with Int keys (Interp.e_Dict); Enum values are Int-encoded, so the
        # same term is the dict with the declared Enum key type
        return dict_mk(ty, dict_dom(v), dict_val(v))
    raise Unsupported("cannot coerce %s to %s" % (v.ty, ty))


def as_int(v: V):
    if v.ty == TInt or isinstance(v.ty, TEnum):
        return v.t
    if v.ty == TBool:
        return z3.If(v.t, z3.IntVal(1), z3.IntVal(0))
    raise Unsupported("as_int of %s" % v.ty)


def is_num(v):
    return v.ty in (TInt, TBool, TReal) or isinstance(v.ty, TEnum)


def as_real(v: V):
    if v.ty == TReal:
        return v.t
    return z3.ToReal(as_int(v))


def truthy(v: V):
    ty = v.ty
    if ty == TBool:
        return v.t
    if ty == TInt or isinstance(ty, TEnum):
        return v.t != 0
    if ty == TReal:
        return v.t != 0
    if ty == TNone:
        return z3.BoolVal(False)
    if ty == TBytes:
        return bytes_len(v) > 0
    if isinstance(ty, TList):
        return list_len(v) > 0
    if isinstance(ty, TSet):
        # non-empty: some element is a member
        e = z3.FreshConst(v.t.sort().domain(), "e")
        return z3.Exists([e], z3.Select(v.t, e))
    if ty == TStr:
        return str_len(v.t) > 0
    if isinstance(ty, TOpt):
        return z3.And(z3.Not(opt_is_none(v)), truthy(opt_val(v)))
    if isinstance(ty, TRef) or ty == TFunc:
        return z3.BoolVal(True)
    if isinstance(ty, TTuple):
        return z3.BoolVal(len(ty.items) > 0)
    raise Unsupported("truthiness of %s" % ty)


def bytes_eq(a: V, b: V):
    """Extensional equality of two byte strings."""
    for x, y in ((a, b), (b, a)):
        lit = bytes_literal(y)
        if lit is not None and len(lit) <= 64:
            # same formula with the bounded quantifier over [0, len(lit)) expanded
            return z3.And(bytes_len(x) == len(lit), *[z3.Select(bytes_data(x), i) == c for i, c in enumerate(lit)])
    k = z3.FreshConst(z3.IntSort(), "k")
    la, lb = bytes_len(a), bytes_len(b)
    return z3.And(
        la == lb,
        z3.ForAll([k], z3.Implies(z3.And(0 <= k, k < la), z3.Select(bytes_data(a), k) == z3.Select(bytes_data(b), k))),
    )


def equal(a: V, b: V):
    """Python `==` as a z3 Bool."""
    if a.ty == TNone and b.ty == TNone:
        return z3.BoolVal(True)
    if isinstance(a.ty, TOpt) and b.ty == TNone:
        return opt_is_none(a)
    if a.ty == TNone and isinstance(b.ty, TOpt):
        return opt_is_none(b)
    if a.ty == TNone or b.ty == TNone:
        return z3.BoolVal(False)
    if isinstance(a.ty, TOpt) and not isinstance(b.ty, TOpt):
        return z3.And(z3.Not(opt_is_none(a)), equal(opt_val(a), b))
    if isinstance(b.ty, TOpt) and not isinstance(a.ty, TOpt):
        return equal(b, a)
    if isinstance(a.ty, TOpt) and isinstance(b.ty, TOpt):
        return z3.Or(
            z3.And(opt_is_none(a), opt_is_none(b)),
            z3.And(z3.Not(opt_is_none(a)), z3.Not(opt_is_none(b)), equal(opt_val(a), opt_val(b))),
        )
    if is_num(a) and is_num(b):
        if a.ty == TReal or b.ty == TReal:
            return as_real(a) == as_real(b)
        return as_int(a) == as_int(b)
    if a.ty == TBytes and b.ty == TBytes:
        return bytes_eq(a, b)
    if a.ty == b.ty:
        if isinstance(a.ty, TTuple):
            return z3.And(*[equal(tuple_get(a, i), tuple_get(b, i)) for i in range(len(a.ty.items))])
        if isinstance(a.ty, (TList, TDict)):
            raise Unsupported("== on %s" % a.ty)
        return a.t == b.t
    if isinstance(a.ty, TTuple) and isinstance(b.ty, TTuple) and len(a.ty.items) == len(b.ty.items):
        return z3.And(*[equal(tuple_get(a, i), tuple_get(b, i)) for i in range(len(a.ty.items))])
    if isinstance(a.ty, TRef) and isinstance(b.ty, TRef):
        return a.t == b.t
    raise Unsupported("== between %s and %s" % (a.ty, b.ty))


def ite(c, a: V, b: V) -> V:
    if a.ty != b.ty:
        if a.ty == TNone and b.ty == TNone:
            return a
        # unify through Optional
        if a.ty == TNone:
            ty = b.ty if isinstance(b.ty, TOpt) else TOpt(b.ty)
        elif b.ty == TNone:
            ty = a.ty if isinstance(a.ty, TOpt) else TOpt(a.ty)
        elif isinstance(a.ty, TOpt) and not isinstance(b.ty, TOpt):
            ty = a.ty
        elif isinstance(b.ty, TOpt) and not isinstance(a.ty, TOpt):
            ty = b.ty
        elif is_num(a) and is_num(b):
            ty = TReal if TReal in (a.ty, b.ty) else TInt
        else:
            raise Unsupported("ite over %s / %s" % (a.ty, b.ty))
        a, b = coerce(a, ty), coerce(b, ty)
    return V(a.ty, z3.If(c, a.t, b.t))
