"""Class models (field types), type-annotation parsing, heap and environment."""
from __future__ import annotations

import ast

import z3

from . import sym
from .sym import (TAny, TArr, TBool, TBytes, TDict, TEnum, TFunc, TInt, TList, TNone, TOpt, TRange, TReal, TRef, TSet,
                  TStr, TTuple, Unsupported, V)


class PyObj:
    """Python-side (non-symbolic) values: classes, modules, functions, closures."""


class ClassRef(PyObj):
    def __init__(self, info):
        self.info = info


class ModRef(PyObj):
    def __init__(self, name):
        self.name = name


class FuncRef(PyObj):
    def __init__(self, module, node, cls=None):
        self.module, self.node, self.cls = module, node, cls


class BoundMethod(PyObj):
    def __init__(self, recv, cls, name):
        self.recv, self.cls, self.name = recv, cls, name


class Closure(PyObj):
    def __init__(self, node, env):
        self.node, self.env = node, env


class Partial(PyObj):
    """functools.partial(fn, *args, **kwargs): calling it calls fn with the stored arguments first (added for the TLS
    parsers, which hand `partial(pull_key_share, buf)` to tls.pull_list)."""

    def __init__(self, fn, args, kwargs):
        self.fn, self.args, self.kwargs = fn, list(args), dict(kwargs)


class SpecFunc(PyObj):
    def __init__(self, name, node):
        self.name, self.node = name, node


class Env:
    def __init__(self, locals_, module, cls=None, func=None):
        self.locals: dict[str, object] = locals_
        self.module = module
        self.cls = cls
        self.func = func
        self.old: "Env | None" = None
        self.old_heap = None
        self.result = None
        self.loop_ord = 0
        self.narrow: dict[str, object] = {}

    def child(self, locals_):
        e = Env(locals_, self.module, self.cls, self.func)
        e.old, e.old_heap, e.result = self.old, self.old_heap, self.result
        return e


class TypeParser:
    def __init__(self, index, registry):
        self.index = index
        self.registry = registry

    def parse_str(self, s, module=None) -> sym.Ty:
        return self.parse(ast.parse(s, mode="eval").body, module)

    def parse(self, node, module=None) -> sym.Ty:
        if isinstance(node, ast.Constant):
            if node.value is None:
                return TNone
            if isinstance(node.value, str):
                return self.parse_str(node.value, module)
        if isinstance(node, ast.Name):
            n = node.id
            prim = {
                "int": TInt, "bool": TBool, "float": TReal, "bytes": TBytes, "bytearray": TBytes, "str": TStr,
                "range": TRange, "Any": TAny, "object": TAny, "None": TNone, "memoryview": TBytes,
            }.get(n)
            if prim is not None:
                return prim
            alias = self.registry.type_aliases.get(n)
            if alias:
                return self.parse_str(alias, module)
            c = self.index.cls(n, module)
            if c is not None:
                return TEnum(c.name) if c.is_enum else TRef(c.name)
            if n in ("Callable",):
                return TFunc
            if n in self.registry.opaque_types:
                return TAny
            raise Unsupported("unknown type name %s" % n)
        if isinstance(node, ast.Attribute):
            return self.parse(ast.Name(id=node.attr), module)
        if isinstance(node, ast.BinOp) and isinstance(node.op, ast.BitOr):
            l, r = self.parse(node.left, module), self.parse(node.right, module)
            if r == TNone:
                return l if isinstance(l, TOpt) else TOpt(l)
            if l == TNone:
                return r if isinstance(r, TOpt) else TOpt(r)
            raise Unsupported("union type")
        if isinstance(node, ast.Subscript):
            base = node.value.id if isinstance(node.value, ast.Name) else getattr(node.value, "attr", None)
            args = node.slice.elts if isinstance(node.slice, ast.Tuple) else [node.slice]
            if base == "Optional":
                inner = self.parse(args[0], module)
                return inner if isinstance(inner, TOpt) else TOpt(inner)
            if base in ("list", "List", "Sequence", "Iterable", "deque", "Deque"):
                return TList(self.parse(args[0], module))
            if base in ("dict", "Dict"):
                return TDict(self.parse(args[0], module), self.parse(args[1], module))
            if base in ("set", "Set", "FrozenSet", "frozenset"):
                return TSet(self.parse(args[0], module))
            if base in ("tuple", "Tuple"):
                return TTuple([self.parse(a, module) for a in args])
            if base == "Callable":
                return TFunc
            if base == "map":
                return TArr(self.parse(args[0], module), self.parse(args[1], module))
            if base == "Union":
                tys = [self.parse(a, module) for a in args]
                non = [t for t in tys if t != TNone]
                if len(non) == 1 and len(tys) == 2:
                    return non[0] if isinstance(non[0], TOpt) else TOpt(non[0])
                raise Unsupported("Union type")
            if base == "Type":
                return TAny
        raise Unsupported("type annotation %s" % ast.dump(node)[:80])


class ClassModel:
    """Field name -> (declaring class, type)."""

    def __init__(self, interp, info):
        self.info = info
        self.fields: dict[str, tuple[str, sym.Ty]] = {}
        tp = interp.types
        reg = interp.registry
        for c in reversed(interp.index.mro(info)):
            # dataclass / class-level annotations
            for f, ann in c.ann.items():
                try:
                    self.fields.setdefault(f, (c.name, tp.parse(ann, c.module)))
                except Unsupported:
                    pass
            init = c.methods.get("__init__")
            if init is not None:
                ptypes = {}
                for a in init.args.args + init.args.kwonlyargs:
                    if a.annotation is not None:
                        try:
                            ptypes[a.arg] = tp.parse(a.annotation, c.module)
                        except Unsupported:
                            pass
                defaults = {}
                for node in ast.walk(init):
                    tgt = None
                    ty = None
                    if isinstance(node, ast.AnnAssign) and _is_self_attr(node.target):
                        tgt = node.target.attr
                        try:
                            ty = tp.parse(node.annotation, c.module)
                        except Unsupported:
                            ty = None
                    elif isinstance(node, ast.Assign) and len(node.targets) == 1 and _is_self_attr(node.targets[0]):
                        tgt = node.targets[0].attr
                        ty = self._infer(interp, node.value, ptypes, c)
                    if tgt is not None:
                        tgt = _mangle(tgt, c.name)
                        if ty is not None and tgt not in self.fields:
                            self.fields[tgt] = (c.name, ty)
            for f, tstr in reg.fields.get(c.name, {}).items():
                self.fields[f] = (c.name, tp.parse_str(tstr, c.module))

    def _infer(self, interp, value, ptypes, c):
        if isinstance(value, ast.Constant):
            v = value.value
            if isinstance(v, bool):
                return TBool
            if isinstance(v, int):
                return TInt
            if isinstance(v, float):
                return TReal
            if isinstance(v, bytes):
                return TBytes
            if isinstance(v, str):
                return TStr
            return None
        if isinstance(value, ast.Name):
            if value.id in ptypes:
                return ptypes[value.id]
            return None
        if isinstance(value, ast.Call):
            fn = value.func.id if isinstance(value.func, ast.Name) else getattr(value.func, "attr", None)
            if fn in ("bytearray", "bytes"):
                return TBytes
            k = interp.index.cls(fn, c.module) if fn else None
            if k is not None and not k.is_enum:
                return TRef(k.name)
            return None
        if isinstance(value, ast.UnaryOp) and isinstance(value.op, ast.Not):
            return TBool
        if isinstance(value, ast.Compare):
            return TBool
        if isinstance(value, ast.Attribute) and isinstance(value.value, ast.Name):
            k = interp.index.cls(value.value.id, c.module)
            if k is not None and k.is_enum:
                return TEnum(k.name)
        return None


def _is_self_attr(node):
    return isinstance(node, ast.Attribute) and isinstance(node.value, ast.Name) and node.value.id == "self"


def _mangle(name, clsname):
    if name.startswith("__") and not name.endswith("__"):
        return "_%s%s" % (clsname.lstrip("_"), name)
    return name


class Heap:
    """(declaring class, field) -> z3 Array Int -> sort(field type)."""

    def __init__(self, tag="h0"):
        self.arrays: dict[tuple[str, str], object] = {}
        self.tag = tag
        # after a havoc of "every field except `protected`" (opaque call, dictiter.havoc_all_but) a field array that is
        # touched for the first time must get a name different from its entry-state name unless it is protected
        self.protected = None
        self.alt_tag = None
        self.dirty: list = []  # (key, ref term or None) of every write/havoc since the enclosing loop head (stmts.loop)

    def copy(self):
        h = Heap(self.tag)
        h.arrays = dict(self.arrays)
        h.protected, h.alt_tag = self.protected, self.alt_tag
        return h

    def get(self, owner, field, ty):
        key = (owner, field)
        if key not in self.arrays:
            tag = self.tag if (self.alt_tag is None or key in self.protected) else self.alt_tag
            self.arrays[key] = z3.Const("%s_%s.%s" % (tag, owner, field), z3.ArraySort(z3.IntSort(), sym.sort_of(ty)))
        return self.arrays[key]

    def read(self, owner, field, ty, ref):
        return V(ty, z3.Select(self.get(owner, field, ty), ref))

    def write(self, owner, field, ty, ref, val):
        self.dirty.append(((owner, field), ref))
        self.arrays[(owner, field)] = z3.Store(self.get(owner, field, ty), ref, val)
