"""Path exploration by re-execution with a decision oracle; obligations; quick feasibility checks."""
from __future__ import annotations

import z3

from .sym import Unsupported


class PathEnd(Exception):
    """Current path finished (loop back-edge verified, infeasible branch, ...)."""


class PyRaise(Exception):
    """A Python exception propagating through the interpreted code."""

    def __init__(self, exc_type: str, args=None, kwargs=None, implicit=None, site=None):
        super().__init__(exc_type)
        self.exc_type = exc_type
        self.args_v = args or []
        self.kwargs_v = kwargs or {}
        self.implicit = implicit  # description of the implicit failure site, if any
        self.site = site


class PyReturn(Exception):
    def __init__(self, value):
        self.value = value


class PyBreak(Exception):
    pass


class PyContinue(Exception):
    pass


class Obligation:
    __slots__ = ("name", "kind", "hyps", "goal", "site", "tainted", "path", "note", "model_vars")

    def __init__(self, name, kind, hyps, goal, site=None, tainted=None, path=(), note="", model_vars=None):
        self.name = name
        self.kind = kind
        self.hyps = list(hyps)
        self.goal = goal
        self.site = site
        self.tainted = tainted
        self.path = tuple(path)
        self.note = note
        self.model_vars = model_vars or {}


def guarded_check(s, timeout_ms):
    """s.check() with a watchdog: z3's own timeout is not always honoured (observed inside lp::static_matrix and in
    quantifier instantiation); a timer thread interrupts the context shortly after the budget.  An interrupted check
    is `unknown`."""
    import threading

    wd = threading.Timer(timeout_ms / 1000.0 * 2 + 1.0, lambda: z3.main_ctx().interrupt())
    wd.daemon = True
    wd.start()
    try:
        return s.check()
    except z3.Z3Exception:
        return z3.unknown
    finally:
        wd.cancel()


def _prune_solver(timeout_ms):
    """solver for feasibility / quick-proof queries.  The legacy simplex (arith.solver=2) is used here: with the default
    LP-based arithmetic z3 5.1 was observed (rarely, timing dependent) to spend tens of minutes inside
    lp::static_matrix without honouring the timeout during path pruning.  Only pruning is affected - obligations are
    solved with the default configuration."""
    s = z3.Solver()
    s.set("timeout", timeout_ms)
    s.set("arith.solver", 2)
    return s


def _has_quantifier(f, _cache={}):
    k = f.get_id()
    if k in _cache:
        return _cache[k]
    seen = set()
    todo = [f]
    r = False
    while todo:
        t = todo.pop()
        i = t.get_id()
        if i in seen:
            continue
        seen.add(i)
        if z3.is_quantifier(t):
            r = True
            break
        todo.extend(t.children())
    _cache[k] = r
    return r


class Explorer:
    """Runs `fn(ctx)` once per feasible path."""

    def __init__(self, prune_timeout_ms=150, max_paths=4000):
        self.prune_timeout_ms = prune_timeout_ms
        self.max_paths = max_paths
        self.obligations: dict[tuple, Obligation] = {}
        self.paths = 0
        self.outcomes = []  # (decisions, outcome description)
        self.truncated = False

    def run(self, fn):
        stack = [()]
        while stack:
            prefix = stack.pop()
            if self.paths >= self.max_paths:
                self.truncated = True
                break
            self.paths += 1
            ctx = Ctx(self, prefix)
            try:
                fn(ctx)
            except PathEnd:
                pass
            stack.extend(ctx.alts)


class Ctx:
    def __init__(self, explorer: Explorer, prefix):
        self.ex = explorer
        self.prefix = prefix
        self.decisions: list[bool] = []
        self.alts: list[tuple] = []
        self.pc: list = []
        self.dec_pos: list[int] = []
        self.taint: str | None = None
        self._fresh = 0
        self._solver = None
        # background axioms of uninterpreted symbols used on this path (name -> closed formula); handed to the solver
        # with every obligation of the path, not used for branch pruning
        self.axioms: dict[str, object] = {}
        self.bkey_lemmas: dict[str, object] = {}  # consequences of the "bkey" axiom, used only together with it

    # -- fresh names deterministic per path position
    def fresh_name(self, base):
        self._fresh += 1
        return "%s!%d" % (base, self._fresh)

    def fresh_const(self, sort, base="v"):
        return z3.Const(self.fresh_name(base), sort)

    def assume(self, f):
        if z3.is_true(f):
            return
        self.pc.append(f)

    def set_taint(self, why):
        if self.taint is None:
            self.taint = why

    def _qf_pc(self):
        """the quantifier-free conjuncts of the path condition (a SUBSET of the hypotheses, so unsat/valid answers
        obtained from it carry over to the full path condition); cached incrementally"""
        n, qf = getattr(self, "_qf_cache", (0, []))
        for f in self.pc[n:]:
            if not _has_quantifier(f):
                qf.append(f)
        self._qf_cache = (len(self.pc), qf)
        return qf

    def _feasible(self, cond):
        # stage 1: quantifier-free subset only - fast, and an unsat answer is sound for pruning
        qf = self._qf_pc()
        budget = self.ex.prune_timeout_ms
        if len(qf) != len(self.pc):
            s = _prune_solver(self.ex.prune_timeout_ms)
            s.add(*qf)
            s.add(cond)
            r1 = guarded_check(s, self.ex.prune_timeout_ms)
            if r1 == z3.unsat:
                return False
            if r1 == z3.sat:
                # the quantifier-free part has a model: the quantified hypotheses rarely refute the branch, and when they
                # do it is quick - a shorter budget (a missed pruning only costs an extra, vacuous, path)
                budget = min(budget, 60)
        s = _prune_solver(budget)
        s.add(*self.pc)
        s.add(cond)
        r = guarded_check(s, budget)
        return r != z3.unsat

    def branch(self, cond) -> bool:
        """Fork on a z3 Bool. Returns the decision taken on this path."""
        cond = z3.simplify(cond)
        if z3.is_true(cond):
            return True
        if z3.is_false(cond):
            return False
        idx = len(self.decisions)
        if idx < len(self.prefix):
            d = self.prefix[idx]
        else:
            ft = self._feasible(cond)
            ff = self._feasible(z3.Not(cond))
            if ft and ff:
                d = True
                self.alts.append(tuple(self.decisions) + (False,))
            elif ft:
                d = True
            elif ff:
                d = False
            else:
                raise PathEnd()
        self.decisions.append(d)
        self.pc.append(cond if d else z3.Not(cond))
        self.dec_pos.append(len(self.pc))  # path-condition length just after each decision (vacuity guard)
        return d

    def prove_quick(self, f, timeout_ms=500, qf_first_only=False) -> bool:
        """qf_first_only: when the quantifier-free subset of the path condition does not prove f, give up (False)
        instead of retrying with the quantified hypotheses (callers fall back to a weaker encoding)"""
        qf = self._qf_pc()
        if len(qf) != len(self.pc):
            s = _prune_solver(timeout_ms)
            s.add(*qf)
            s.add(z3.Not(f))
            if guarded_check(s, timeout_ms) == z3.unsat:
                return True
            if qf_first_only:
                return False
        s = z3.Solver()
        s.set("timeout", timeout_ms)
        s.add(*self.pc)
        s.add(z3.Not(f))
        return guarded_check(s, timeout_ms) == z3.unsat

    def oblige(self, name, kind, goal, site=None, note="", model_vars=None):
        key = (name, tuple(self.decisions))
        if key in self.ex.obligations:
            return
        self.ex.obligations[key] = Obligation(
            name, kind, list(self.pc) + list(self.axioms.values()) + (list(self.bkey_lemmas.values()) if "bkey" in self.axioms else []), goal, site=site, tainted=self.taint, path=self.decisions, note=note, model_vars=model_vars
        )
