"""Per-function VC generation and discharge."""
from __future__ import annotations

import ast
import subprocess
import tempfile
import time
import os

import z3

from . import sym
from .calls import CallMixin
from .comp import CompMixin
from .core import guarded_check, Ctx, Explorer, Obligation, PathEnd, PyBreak, PyContinue, PyRaise, PyReturn
from .interp import Interp
from .model import Env, Heap, PyObj
from .stmts import StmtMixin
from .dictiter import DictIterMixin
from .dispatch import DispatchMixin
from .sym import NONE, TInt, TNone, TOpt, TRef, Unsupported, V


class Machine(Interp, StmtMixin, CallMixin, CompMixin, DictIterMixin, DispatchMixin):
    pass


class FunctionResult:
    def __init__(self, qual):
        self.qual = qual
        self.sha = ""
        self.obligations: list[Obligation] = []
        self.paths = 0
        self.errors: list[str] = []  # Unsupported constructs hit (-> undecided)
        self.trusted: set[str] = set()
        self.assumptions: set[str] = set()
        self.called: set[str] = set()
        self.outcomes: dict[str, int] = {}
        self.truncated = False


def verify_function(index, registry, qual, prune_ms=150) -> FunctionResult:
    res = FunctionResult(qual)
    # "<rel>::<Cls.fn>#<variant>": the same function verified against the ALTERNATIVE contract registered under the key
    # "<Cls.fn>#<variant>" (used to keep a clause that is expected to be refuted apart from the clauses that verify);
    # call sites always use the plain contract.
    qual, _, variant = qual.partition("#")
    try:
        module, cls, fnode = index.function(qual, registry, variant)
    except KeyError as e:
        res.errors.append("cannot extract %s from the current source: %s" % (qual, e))
        return res
    res.sha = index.sha(module, fnode)
    key = ("%s.%s" % (cls.name, fnode.name)) if cls else fnode.name
    contract = registry.lookup(cls.name if cls else None, fnode.name, module.rel)
    if variant:
        key = key + "#" + variant
        contract = registry.contracts.get(key)
    if contract is None:
        res.errors.append("no contract for %s" % key)
        return res
    import itertools

    names = list(contract.specialize)
    combos = list(itertools.product(*[contract.specialize[n] for n in names])) if names else [()]
    for combo in combos:
        case = dict(zip(names, combo))
        _verify_case(index, registry, res, module, cls, fnode, contract, key, case, prune_ms, first=(combo == combos[0]))
    for o in getattr(contract, "expect_outcomes", []):
        if not res.outcomes.get(o) and not res.errors:
            res.errors.append("expected outcome %r has no feasible path (outcomes=%s): its obligations hold vacuously" % (o, res.outcomes))
    return res


def _verify_case(index, registry, res, module, cls, fnode, contract, key, case, prune_ms, first):
    ex = Explorer(prune_timeout_ms=prune_ms, max_paths=contract.max_paths or 3000)
    suffix = ("[" + ",".join("%s=%s" % kv for kv in case.items()) + "]") if case else ""

    def one_path(ctx: Ctx):
        m = Machine(index, registry, ctx)
        m.callee_stack.append(key)
        m.top_cls = cls.name if cls is not None else None
        try:
            _run_path(m, ctx, module, cls, fnode, contract, key, res, case, first)
        except Unsupported as u:
            msg = "%s (line %s)" % (u, getattr(m, "cur_line", "?"))
            if os.environ.get("PYVC_TRACE"):
                import traceback

                traceback.print_exc()
            if msg not in res.errors:
                res.errors.append(msg)
        finally:
            res.trusted |= m.trusted_used
            res.assumptions |= m.assumptions_used
            res.called |= m.called_contracts

    ex.run(one_path)
    res.paths += ex.paths
    res.truncated = res.truncated or ex.truncated
    if ex.truncated:
        res.errors.append("path limit reached")
    for ob in ex.obligations.values():
        ob.name += suffix
        res.obligations.append(ob)


def _run_path(m: Machine, ctx: Ctx, module, cls, fnode, contract, key, res, case=None, first=True):
    # ---- initial state
    loc = {}
    a = fnode.args
    params = a.args + a.kwonlyargs
    ref_terms = []
    model_vars = {}
    for i, p in enumerate(params):
        if i == 0 and cls is not None and p.arg == "self":
            ty = TRef(cls.name)
        else:
            ty = m.param_type(p, module, contract)
            if ty is None:
                raise Unsupported("parameter %s has no usable type (give one in the contract)" % p.arg)
        v = V(ty, z3.Const("arg_" + p.arg, sym.sort_of(ty)))
        if case and p.arg in case:
            v = V(ty, z3.IntVal(case[p.arg]))
        for f in sym.wf(v):
            ctx.assume(f)
        if isinstance(ty, TRef):
            ctx.assume(v.t >= 0)
            ref_terms.append(v.t)
            m.refs.append(v.t)
        loc[p.arg] = v
        model_vars[p.arg] = v
    for gp, gty in contract.ghost_params.items():
        # ghost parameter: an arbitrary value (universally quantified); callers supply it through ghost_args
        ty = m.types.parse_str(gty, module)
        loc[gp] = V(ty, z3.Const("garg_" + gp, sym.sort_of(ty)))
    if len(ref_terms) > 1:
        ctx.assume(z3.Distinct(*ref_terms))  # assumption A2
        m.assumptions_used.add("A2: object parameters are pairwise distinct")
    env = Env(loc, module, cls, fnode)
    env.contract = contract
    env.fname = key
    env.local_types = {n: m.types.parse_str(t, module) for n, t in contract.local_types.items()}
    from .stmts import resolve_anchors

    env.anchors, missing = resolve_anchors(fnode, contract)
    if missing:
        raise Unsupported("contract anchors not found in the current source: %s" % missing)
    m.top_contract, m.top_env = contract, env
    env.old = Env(dict(loc), module, cls, fnode)
    env.old_heap = m.heap.copy()
    env.old.old, env.old.old_heap = env.old, env.old_heap
    for k, e in contract.let.items():
        env.locals[k] = m.spec_val(e, env)
        env.old.locals[k] = env.locals[k]
    is_init = fnode.name == "__init__"
    invs = m.class_invariants(cls.name) if (cls is not None and contract.use_invariant) else []
    for cl in contract.requires + contract.assume_pre:
        ctx.assume(m.spec_bool(cl, env))
    for cl in contract.assume_pre:
        m.assumptions_used.add("assumed precondition of %s: %s" % (key, cl))
    if not is_init:
        for cl in invs:
            ctx.assume(m.spec_bool(cl, env))
    # entry_ref_lists: list-of-object expressions whose ELEMENTS are objects that exist at entry.  This is the engine's own
    # allocation convention (objects reachable in the entry heap are >= 0, objects created on the path are < 0 - the same
    # fact is assumed for every single reference read from the heap, see Interp.read_field) in quantified form, needed
    # when an invariant quantifies over such a list and the function also allocates.
    for expr in getattr(contract, "entry_ref_lists", []):
        lv = m.spec_val(expr, env)
        if not (isinstance(lv, V) and isinstance(lv.ty, sym.TList) and isinstance(lv.ty.elem, TRef)):
            raise Unsupported("entry_ref_lists: %s is not a list of objects" % expr)
        k = z3.Int("erl_k_%d" % len(ctx.pc))
        ctx.assume(z3.ForAll([k], z3.Implies(z3.And(k >= 0, k < sym.list_len(lv)), z3.Select(sym.list_arr(lv), k) >= 0)))
    # heap snapshot must include arrays created while evaluating the preconditions
    env.old_heap.arrays.update({k: v for k, v in m.heap.arrays.items() if k not in env.old_heap.arrays})
    ctx.model_vars = model_vars
    if case and first and not ctx.decisions:
        # completeness of the case split: requires => some case applies (checked on symbolic parameters)
        m2loc = dict(loc)
        alts = []
        for pn, vals in contract.specialize.items():
            sv = z3.Const("arg_" + pn, z3.IntSort())
            m2loc[pn] = V(loc[pn].ty, sv)
            alts.append(z3.Or(*[sv == z3.IntVal(x) for x in vals]))
        e2 = Env(m2loc, module, cls, fnode)
        e2.old, e2.old_heap = e2, env.old_heap
        hyps = [m.spec_bool(cl, e2) for cl in contract.requires]
        saved = list(ctx.pc)
        ctx.pc[:] = hyps
        ctx.oblige("%s:specialize.complete" % key, "case-split", z3.And(*alts), note="requires => parameters take one of the specialised values")
        ctx.pc[:] = saved

    # ---- run
    outcome = None
    try:
        m.exec_block(fnode.body, env)
        outcome = ("return", NONE)
    except PyReturn as r:
        outcome = ("return", r.value)
    except PyRaise as e:
        outcome = ("raise", e)
    except (PyBreak, PyContinue):
        if getattr(fnode, "region_src", None) is None:
            raise Unsupported("break/continue outside loop")
        outcome = ("return", NONE)  # a block contract: `continue`/`break` of the enclosing loop leaves the region normally

    if getattr(contract, "check_frame_syntactic", False):
        for msg in _frame_check(m, env, contract):
            if msg not in res.errors:
                res.errors.append(msg)
    # ---- vacuity guard: the path must still be satisfiable after all assumed callee postconditions / invariants
    chk = z3.Solver()
    chk.set("timeout", 250)
    chk.add(*ctx.pc)
    if guarded_check(chk, 250) == z3.unsat and not _late_pruned(ctx):
        msg = "vacuity guard: path condition unsatisfiable at exit (contradictory assumed contracts/invariants) on path %s" % (tuple(ctx.decisions),)
        if msg not in res.errors:
            res.errors.append(msg)
        return
    # ---- frame check (opt-in): writes must be covered by `modifies`
    if contract.check_frame:
        allowed, opaque_ok = set(), False
        for loc_ in contract.modifies:
            if loc_ == "<opaque>":
                opaque_ok = True
                continue
            k_ = m.loc_key(loc_, env.old)
            if k_ is not None:
                allowed.add(k_)
        fresh_ = getattr(m, "new_refs", [])
        self_t = loc["self"].t if (is_init and "self" in loc) else None
        engine_counters_ = {ds.counter for lst in getattr(m.registry, "dict_sums", {}).values() for ds in lst}
        for key_, ref_ in m.heap.dirty:
            if key_ in allowed:
                continue
            if key_[1] in engine_counters_ and not any(k2[1] in engine_counters_ for k2 in allowed):
                continue  # engine-maintained sum counters (R.dict_sum) are not writes of the program; functions that do
                # declare them in modifies (the recovery layer) are still checked
            if opaque_ok and (key_ == ("<opaque>", "*") or key_ not in getattr(m, "_opaque_keep", set())):
                continue
            if ref_ is not None and (any(ref_.eq(r) for r in fresh_) or (self_t is not None and ref_.eq(self_t))):
                continue
            msg = "frame: %s writes %s.%s, which is not in its modifies clause" % (key, key_[0], key_[1])
            if msg not in res.errors:
                res.errors.append(msg)
    # ---- exit obligations
    if contract.frame:
        _frame_obligations(m, ctx, contract, key, env, model_vars)
    if outcome[0] == "return":
        res.outcomes["return"] = res.outcomes.get("return", 0) + 1
        rv = outcome[1]
        from .interp import EmptyLiteral

        if isinstance(rv, EmptyLiteral):
            # `return []` / `return {}`: the empty value of the declared return type
            rv = m.materialize(rv, m.return_type(fnode, module, contract))
        if isinstance(rv, PyObj):
            raise Unsupported("function returns a python-level object")
        ret_ty = None
        try:
            ret_ty = m.return_type(fnode, module, contract)
        except Unsupported:
            ret_ty = None
        if ret_ty is not None and ret_ty != TNone and isinstance(rv, V) and not (ret_ty == sym.TAny and rv.ty != sym.TAny):
            # (a value of a known static type returned where only `Any` / an unparametrised `dict` is declared keeps its
            # type for the function's own postconditions: coercing it to an opaque handle would only forget facts)
            try:
                rv = sym.coerce(rv, ret_ty)
            except Unsupported:
                pass
        env.result = rv
        for locn, expr in contract.ghost_exit.items():
            val = m.spec_val(expr, env)
            m.assign(ast.parse(locn, mode="eval").body, val, env)
        for j, cl in enumerate(contract.exit_cuts):
            t = m.spec_bool(cl, env)
            ctx.oblige("%s:exit-cut.%d" % (key, j), "assert", t, note=cl, model_vars=model_vars)
            ctx.assume(t)
        for j, cl in enumerate(contract.ensures):
            ctx.oblige("%s:ensures.%d" % (key, j), "ensures", m.spec_bool(cl, env), note=cl, model_vars=model_vars)
        for j, cl in enumerate(invs):
            ctx.oblige("%s:inv.%d" % (key, j), "invariant", m.spec_bool(cl, env), note=cl, model_vars=model_vars)
        for exc, cond in contract.raises.items():
            if cond is not None:
                ctx.oblige("%s:raises.%s.only-if" % (key, exc), "raises-iff", z3.Not(_pre_bool(m, cond, env)), note="returns normally => not(%s)" % cond, model_vars=model_vars)
    else:
        e = outcome[1]
        res.outcomes[e.exc_type] = res.outcomes.get(e.exc_type, 0) + 1
        declared = None
        for d in contract.raises:
            if d == e.exc_type:
                declared = d
        if declared is None:
            for d in contract.raises:
                if index_is_sub(m.index, e.exc_type, d):
                    declared = d
        what = e.implicit or "raise"
        if declared is None:
            ctx.oblige(
                "%s:no-escape.%s@%s" % (key, e.exc_type, e.site - fnode.lineno if e.site else "?"),
                "escape",
                z3.BoolVal(False),
                site=e.site,
                note="%s (%s) must be unreachable or declared" % (e.exc_type, what),
                model_vars=model_vars,
            )
        else:
            cond = contract.raises[declared]
            if cond is not None:
                ctx.oblige("%s:raises.%s.if@%s" % (key, declared, e.site - fnode.lineno if e.site else "?"), "raises-iff", _pre_bool(m, cond, env), note="raised => %s" % cond, model_vars=model_vars)
            for k, v in e.kwargs_v.items():
                if isinstance(v, V):
                    env.locals["exc_" + k] = v
            for j, v in enumerate(e.args_v):
                if isinstance(v, V):
                    env.locals["exc_arg%d" % j] = v
            for j, cl in enumerate(contract.on_raise.get(declared, [])):
                ctx.oblige("%s:on_raise.%s.%d" % (key, declared, j), "ensures", m.spec_bool(cl, env), note=cl, model_vars=model_vars)
            if not is_init:
                for j, cl in enumerate(invs):
                    ctx.oblige("%s:inv-on-raise.%s.%d" % (key, declared, j), "invariant", m.spec_bool(cl, env), note=cl, model_vars=model_vars)


def _frame_obligations(m, ctx, contract, key, env, model_vars):
    """frame=True: the `modifies` list is what callers havoc, so it must be complete.  For every heap field whose
    array term differs from the entry heap: every PRE-EXISTING object (reference >= 0; objects created on the path are
    negative) other than the bases named in `modifies` for that field still has its entry value.  `Cls.f[*]` entries
    cover the whole field.  Holds on normal and exceptional exits (callers havoc `modifies` on both)."""
    from .model import _mangle

    covered_all = set()
    bases: dict[str, list] = {}
    for loc in contract.modifies:
        if loc.endswith("[*]"):
            cn, f = loc[:-3].split(".")
            covered_all.add(f)
            continue
        node = ast.parse(loc, mode="eval").body
        if not isinstance(node, ast.Attribute):
            continue
        saved = m.heap
        m.heap = env.old_heap.copy()
        try:
            m.spec += 1
            b = m.evalv(node.value, env.old)
        finally:
            m.spec -= 1
            m.heap = saved
        if isinstance(b.ty, TOpt):
            b = sym.opt_val(b)
        f = node.attr
        if isinstance(b.ty, TRef) and f not in m.model(b.ty.cls).fields and env.cls is not None:
            f = _mangle(f, env.cls.name)
        bases.setdefault(f, []).append(b.t)
    for (owner, f), new in list(m.heap.arrays.items()):
        if owner == "object":
            continue  # engine-internal class tags of objects created by the function
        old = env.old_heap.arrays.get((owner, f))
        if old is None:
            _, ty = m.field(owner, f)
            old = z3.Const("%s_%s.%s" % (m.heap.tag, owner, f), z3.ArraySort(z3.IntSort(), sym.sort_of(ty)))
        if new.eq(old) or f in covered_all:
            continue
        r = z3.Const("frame_r", z3.IntSort())
        excl = [r != b for b in bases.get(f, [])]
        goal = z3.ForAll([r], z3.Implies(z3.And(r >= 0, *excl), z3.Select(new, r) == z3.Select(old, r)))
        ctx.oblige("%s:frame.%s.%s" % (key, owner, f), "frame", goal, note="field %s.%s is written only on objects listed in modifies" % (owner, f), model_vars=model_vars)


def _late_pruned(ctx):
    """The exit path condition is unsatisfiable.  Benign iff the FIRST unsatisfiable prefix ends exactly at a branch
    decision (the branch was infeasible, the 60-150 ms pruning query just did not show it in time: every obligation of
    such a path is vacuous and the path is dropped).  If the prefix before that decision is already unsatisfiable, or
    no decision prefix is, the contradiction comes from assumed contracts / invariants: vacuity error."""
    class _Unknown(Exception):
        pass

    def unsat(n):
        # three-valued: a prefix the solver cannot decide (first within 400 ms, then within 4 s - wall-clock budgets
        # stretch when all cores are busy) makes the classification impossible; the path itself IS unsatisfiable (shown by
        # the caller), so dropping it is sound for every obligation on it - only the vacuity *diagnosis* is given up
        for budget in (400, 4000):
            s = z3.Solver()
            s.set("timeout", budget)
            s.add(*ctx.pc[:n])
            r = guarded_check(s, budget)
            if r != z3.unknown:
                return r == z3.unsat
        raise _Unknown()

    # unsatisfiability is monotone in the prefix length: binary search for the first decision whose prefix is unsat
    pos = list(ctx.dec_pos)
    try:
        if not pos or not unsat(pos[-1]):
            return False  # contradiction only after the last decision: it comes from assumed clauses
        lo, hi = 0, len(pos) - 1
        while lo < hi:
            mid = (lo + hi) // 2
            if unsat(pos[mid]):
                hi = mid
            else:
                lo = mid + 1
        return not unsat(pos[lo] - 1)
    except _Unknown:
        return True


def _frame_check(m, env, contract):
    """Opt-in (contract key check_frame=True) frame check, conservative and purely syntactic: a heap field whose array
    at exit differs from the entry array must be named (last path component) by a `modifies` entry, unless every
    difference is a Store at an object created on this path.  A violation makes the function undecided (error)."""
    allowed = set()
    for loc in contract.modifies:
        allowed.add((loc[:-3] if loc.endswith("[*]") else loc).split(".")[-1])
    new_refs = getattr(m, "new_refs", [])
    out = []
    engine_counters = {ds.counter for lst in getattr(m.registry, "dict_sums", {}).values() for ds in lst}
    for (owner, f), arr in m.heap.arrays.items():
        if f in allowed or f in engine_counters:
            continue
        old = env.old_heap.arrays.get((owner, f))
        cur = arr
        ok = True
        while True:
            if old is not None and cur.eq(old):
                break
            if z3.is_store(cur):
                idx = cur.arg(1)
                if not any(idx.eq(r) for r in new_refs):
                    ok = False
                    break
                cur = cur.arg(0)
                continue
            # a constant array: the entry array created lazily by a first read (fine), or a havocked one (not fine)
            if old is None and z3.is_const(cur) and cur.decl().kind() == z3.Z3_OP_UNINTERPRETED and cur.decl().name().startswith(m.heap.tag + "_"):
                break
            ok = False
            break
        if not ok:
            out.append("frame: field %s.%s is written but not listed in modifies of %s" % (owner, f, contract.key))
    return out


def _pre_bool(m, cond, env):
    """evaluate a clause in the ENTRY state (entry heap and entry parameter values)"""
    saved = m.heap
    m.heap = env.old_heap
    try:
        return m.spec_bool(cond, env.old)
    finally:
        m.heap = saved


def index_is_sub(index, a, b):
    return index.exc_is_subclass(a, b)


# --------------------------------------------------------------------------- solving


class Verdict:
    def __init__(self, ob, status, backend, secs, model=None, detail=""):
        self.ob = ob
        self.status = status  # discharged | refuted | undecided
        self.backend = backend
        self.secs = secs
        self.model = model
        self.detail = detail


def solve(ob: Obligation, timeout_ms=10000, use_cli=True) -> Verdict:
    t0 = time.time()
    s = z3.Solver()
    s.set("timeout", timeout_ms)
    for h in ob.hyps:
        s.add(h)
    for a in sym.str_axioms():
        s.add(a)
    s.add(z3.Not(ob.goal))
    # watchdog: z3's own timeout is not honoured inside some preprocessing / quantifier loops; interrupt from a thread
    import threading

    wd = threading.Timer(timeout_ms / 1000.0 * 1.5 + 5.0, lambda: z3.main_ctx().interrupt())
    wd.daemon = True
    wd.start()
    try:
        r = s.check()
    except z3.Z3Exception:
        r = z3.unknown
    finally:
        wd.cancel()
    dt = time.time() - t0
    if r == z3.unsat:
        return Verdict(ob, "discharged", "z3-%s(api)" % z3.get_version_string(), dt)
    if r == z3.sat:
        if ob.tainted:
            return Verdict(ob, "undecided", "z3", dt, detail="sat on a tainted path: " + ob.tainted)
        return Verdict(ob, "refuted", "z3-%s(api)" % z3.get_version_string(), dt, model=s.model())
    # unknown: z3's behaviour on the quantified obligations of the byte-level stream contracts is unstable (the same
    # obligation is decided in 0.2 s or left open after 150 s depending on instantiation luck): a small portfolio of other
    # front ends of the SAME solver over the same assertions, each with a short budget, before the external back ends
    for kind in ("simplify+smt", "tactic-default", "seed-7", "seed-23"):
        try:
            if kind == "simplify+smt":
                s2 = z3.Then("simplify", "propagate-values", "solve-eqs", "smt").solver()
            elif kind == "tactic-default":
                s2 = z3.Tactic("default").solver()
            else:
                s2 = z3.Solver()
                s2.set("smt.random_seed", int(kind.split("-")[1]))
                s2.set("sat.random_seed", int(kind.split("-")[1]))
            b2 = min(timeout_ms, 10000)
            s2.set("timeout", b2)
            for a in s.assertions():
                s2.add(a)
            from .core import guarded_check

            if guarded_check(s2, b2) == z3.unsat:
                return Verdict(ob, "discharged", "z3-%s(api,%s)" % (z3.get_version_string(), kind), time.time() - t0)
        except z3.Z3Exception:
            pass
    # ... then the CLI back ends on the SMT-LIB text
    if use_cli:
        smt = s.to_smt2()
        import shutil

        z3new = shutil.which("z3-new")
        for name, cmd in (
            # the same z3 5.1.0 as a separate process on the SMT-LIB text: a fresh context with the command-line front end's
            # default strategy decides, within seconds, a handful of receive-half obligations that the API solver object
            # (same version) leaves open after 20 s - and unlike z3 4.8 it does so reliably
            (("z3-5.1.0(cli)", [z3new, "-T:%d" % max(1, timeout_ms // 1000), "-smt2"]) if z3new else (None, None)),
            ("cvc5-1.0.3", ["/usr/bin/cvc5", "--tlimit=%d" % timeout_ms, "--lang=smt2"]),
            ("z3-4.8.12", ["/usr/bin/z3", "-T:%d" % max(1, timeout_ms // 1000), "-smt2"]),
        ):
            if name is None:
                continue
            try:
                with tempfile.NamedTemporaryFile("w", suffix=".smt2", delete=False) as f:
                    f.write(smt)
                    path = f.name
                out = subprocess.run(cmd + [path], capture_output=True, text=True, timeout=timeout_ms / 1000 + 5).stdout
            except Exception as e:  # noqa
                out = ""
            finally:
                try:
                    os.unlink(path)
                except Exception:
                    pass
            first = out.strip().splitlines()[0] if out.strip() else ""
            if first == "unsat":
                return Verdict(ob, "discharged", name, time.time() - t0)
    return Verdict(ob, "undecided", "z3+cvc5", time.time() - t0, detail="unknown/timeout: %s" % s.reason_unknown())
