"""Dict iteration, engine-maintained sums over dict values, filter(), opaque callables (mixin for Machine).

Semantics implemented here (all additive; nothing changes for code that does not use these constructs):

* `d.keys()`, `d.values()`, `d.items()` evaluate to a DictView.  Iterating a view (for-loop), `sorted(d.keys())`
  and `filter(pred, d.values())` take a SNAPSHOT ENUMERATION of the dict: a ghost key list K of length n with
      (E1) every K[i] is in the domain, pos[K[i]] == i          (hence the keys are pairwise distinct)
      (E2) every key k of the domain occurs: 0 <= pos[k] < n and K[pos[k]] == k
      (E3) for sorted(): K is strictly ascending
  Nothing is assumed about the order of an unsorted enumeration (Python's insertion order is one of the orders
  allowed, so every property proved for all orders holds for it).  A for-loop directly over a view additionally
  gets the obligation `dict-unchanged` at the back edge (Python raises RuntimeError when the dict changes size
  during iteration; we demand the stronger "not modified at all").
* `R.dict_sum(cls, dict_field, counter, term, value_cls)`: ghost int field `counter` = SUM over the values v of
  `obj.dict_field` of term(v).  The engine updates it at every mutation of that dict:
      d[k] = v  -> counter += term(v) - (term(d[k]) if k in d else 0)
      del d[k] / d.pop(k) -> counter -= term(d[k])          d.clear() / field = {} -> counter = 0
  and emits true facts about finite sums: on removal `(forall k in d: term(d[k]) >= 0) => counter >= term(d[k])`;
  on enumeration a ghost prefix-sum map eps with eps[0] = 0, eps[i+1] = eps[i] + term(d[K[i]]), eps[n] = counter.
  A write to (or havoc of) a field that `term` reads makes every counter of that sum unknown; a havoc of the dict
  field itself makes that object's counter unknown; any other whole-field write is Unsupported.
* `filter(pred, view_or_list)` -> list M with a strictly increasing ghost index map idx into the source list L:
  M[j] = L[idx[j]], pred(M[j]); every L[i] with pred(L[i]) occurs (inv[i]).  filter() is lazy in Python; it is
  modelled as evaluated at creation (recorded as an assumption: sound when neither the predicate's inputs nor the
  dict change before the iterator is consumed).  When L enumerates a dict with a dict_sum whose term vanishes
  wherever pred is false (decided by the solver on the spot, validity required), a prefix-sum map fps over M is
  provided with fps[len(M)] = counter (elements that are filtered out contribute 0 to the sum).
* Opaque callables (values of type Callable read from fields/lists, e.g. delivery handlers): a call havocs every heap
  field except those listed in R.consts["OPAQUE_CALL"]["preserves"]; it returns an unknown value and does not raise.
  This is an ASSUMPTION about the callbacks (recorded in the evidence), required to be declared by the sidecar.
"""
from __future__ import annotations

import ast

import z3

from .core import guarded_check

from . import sym
from .model import Closure, Env, PyObj, SpecFunc
from .sym import TArr, TBool, TDict, TFunc, TInt, TList, TOpt, TRef, TTuple, TAny, Unsupported, V

I = z3.IntVal


def _forall(vs, body, patterns=None):
    """ForAll with triggers when z3 accepts them (terms containing ite are not valid triggers), without otherwise"""
    if patterns:
        try:
            return z3.ForAll(vs, body, patterns=patterns)
        except z3.Z3Exception:
            pass
    return z3.ForAll(vs, body)


class DictView(PyObj):
    def __init__(self, kind, d: V, node):
        self.kind, self.d, self.node = kind, d, node  # node: AST of the dict expression


class EnumInfo:
    def __init__(self, n, K, pos, eps, ds, d, ref_t):
        self.n, self.K, self.pos, self.eps, self.ds, self.d, self.ref_t = n, K, pos, eps, ds, d, ref_t


class DictIterMixin:
    # ------------------------------------------------------------------ dict sums
    def _dsum_for(self, base: V):
        o = getattr(base, "origin", None)
        if o is None or o[0] != "field":
            return [], None
        _, ref_t, owner, fname, _ty = o
        return self.registry.dict_sums.get((owner, fname), []), ref_t

    def _all_sums(self):
        return [ds for lst in self.registry.dict_sums.values() for ds in lst]

    def dsum_term(self, ds, v: V):
        sf = SpecFunc(ds.term, self.registry.specs[ds.term])
        r = self.expand_spec(sf, [v], {}, Env({}, None))
        return sym.as_int(r)

    def _dsum_counter(self, ds, ref_t):
        owner_c, cty = self.field(ds.cls, ds.counter)
        return owner_c, cty, self.heap.read(owner_c, ds.counter, cty, ref_t).t

    def dict_mutate(self, target_node, base: V, new: V, env, kind, key_t=None, newval=None):
        """every mutation of a dict value goes through here: counter update (if registered), then write-back"""
        dss, ref_t = self._dsum_for(base)
        for ds in dss:
            owner_c, cty, cur = self._dsum_counter(ds, ref_t)
            ty = base.ty
            dom, val = sym.dict_dom(base), sym.dict_val(base)
            if kind == "clear":
                nv = I(0)
            else:
                oldterm = self.dsum_term(ds, V(ty.v, z3.Select(val, key_t)))
                if kind == "store":
                    nv = cur + self.dsum_term(ds, sym.coerce(newval, ty.v)) - z3.If(z3.Select(dom, key_t), oldterm, I(0))
                elif kind == "delete":  # the key is present on this path
                    k = z3.FreshConst(sym.dict_ksort(ty), "k")
                    allpos = _forall([k], z3.Implies(z3.Select(dom, k), self.dsum_term(ds, V(ty.v, z3.Select(val, k))) >= 0))
                    self.ctx.assume(z3.Implies(allpos, cur >= oldterm))  # a finite sum of non-negative terms dominates each
                    nv = cur - oldterm
                else:
                    raise Unsupported("dict mutation kind %s" % kind)
            self.heap.write(owner_c, ds.counter, cty, ref_t, z3.simplify(nv))
            self._dsum_write_ok = (ds.cls, ds.dict_field)
        try:
            self.mutate(target_node, base, new, env)
        finally:
            self._dsum_write_ok = None

    def _ds_reads(self, ds):
        if ds.reads is None:
            seen, out, todo = set(), set(), [ds.term]
            while todo:
                n = todo.pop()
                if n in seen or n not in self.registry.specs:
                    continue
                seen.add(n)
                for x in ast.walk(self.registry.specs[n]):
                    if isinstance(x, ast.Attribute):
                        out.add(x.attr)
                    elif isinstance(x, ast.Name):
                        todo.append(x.id)
            ds.reads = out
        return ds.reads

    def field_touched(self, owner, fname, ref_t=None, whole_write=None):
        """called for every field write / havoc.  ref_t None = every object ([*])."""
        sums = self.registry.dict_sums
        if not sums:
            return
        for ds in self._all_sums():
            if (owner, fname) == (ds.cls, ds.dict_field):
                if getattr(self, "_dsum_write_ok", None) == (owner, fname):
                    continue
                owner_c, cty = self.field(ds.cls, ds.counter)
                if whole_write is not None:
                    if z3.eq(z3.simplify(whole_write.t), z3.simplify(sym.dict_empty(whole_write.ty).t)):
                        self.heap.write(owner_c, ds.counter, cty, ref_t, I(0))
                        continue
                    raise Unsupported("whole-field write to %s.%s (carries the dict sum %s)" % (owner, fname, ds.counter))
                self._havoc_counter(ds, ref_t)
            elif fname in self._ds_reads(ds):
                try:
                    vo, _ = self.field(ds.value_cls, fname)
                except Unsupported:
                    continue
                if vo == owner:
                    self._havoc_counter(ds, None)

    def _havoc_counter(self, ds, ref_t):
        owner_c, cty = self.field(ds.cls, ds.counter)
        if ref_t is None:
            self.heap.dirty.append(((owner_c, ds.counter), None))
            self.heap.arrays[(owner_c, ds.counter)] = z3.Const(self.ctx.fresh_name("h_%s.%s" % (owner_c, ds.counter)), z3.ArraySort(z3.IntSort(), z3.IntSort()))
        else:
            self.heap.write(owner_c, ds.counter, cty, ref_t, self.ctx.fresh_const(z3.IntSort(), ds.counter))

    # ------------------------------------------------------------------ enumeration
    def enum_dict(self, view: DictView, env, tag, sorted_=False):
        d = view.d
        ty = d.ty
        ks = sym.dict_ksort(ty)  # (C19) bytes keys: K / pos range over bkey ids, the key VALUES are unkey(K[i]) (see below)
        dom, val = sym.dict_dom(d), sym.dict_val(d)
        n = self.ctx.fresh_const(z3.IntSort(), tag + "_n")
        K = self.ctx.fresh_const(z3.ArraySort(z3.IntSort(), ks), tag + "_K")
        pos = self.ctx.fresh_const(z3.ArraySort(ks, z3.IntSort()), tag + "_pos")
        i = z3.FreshConst(z3.IntSort(), "i")
        j = z3.FreshConst(z3.IntSort(), "j")
        k = z3.FreshConst(ks, "k")
        A = self.ctx.assume
        A(n >= 0)
        A(_forall([i], z3.Implies(z3.And(0 <= i, i < n), z3.And(z3.Select(dom, z3.Select(K, i)), z3.Select(pos, z3.Select(K, i)) == i)), patterns=[z3.Select(K, i)]))
        A(_forall([k], z3.Implies(z3.Select(dom, k), z3.And(0 <= z3.Select(pos, k), z3.Select(pos, k) < n, z3.Select(K, z3.Select(pos, k)) == k)), patterns=[z3.Select(pos, k), z3.Select(dom, k)]))
        if sorted_:
            if ty.k != TInt:
                raise Unsupported("sorted() of non-int keys")
            A(_forall([i, j], z3.Implies(z3.And(0 <= i, i < j, j < n), z3.Select(K, i) < z3.Select(K, j)), patterns=[z3.MultiPattern(z3.Select(K, i), z3.Select(K, j))]))
        if ty.k == sym.TBytes:
            # (C19) dict[bytes, V]: K enumerates the ids of the keys; the i-th key VALUE is some byte string with that id
            # (every id in the domain is the id of a byte string - the dict's keys ARE byte strings), so looking the
            # enumerated key up again (bkey of it) gives K[i] back.  `_keys` is the list of key values, `_kid` the ids.
            self.ctx.axioms.setdefault("bkey", sym.bkey_axiom())
            A(_forall([i], z3.Implies(z3.And(0 <= i, i < n), sym.bkey(sym.unkey(z3.Select(K, i))) == z3.Select(K, i)), patterns=[z3.Select(K, i)]))
            kval = lambda ix: sym.unkey(z3.Select(K, ix))  # noqa: E731
            keys = sym.list_mk(ty.k, n, z3.Lambda([i], kval(i)))
            env.locals[tag + "_kid"] = V(TArr(TInt, TInt), K)
            pos_ty = TArr(TInt, TInt)
        else:
            kval = lambda ix: z3.Select(K, ix)  # noqa: E731
            keys = sym.list_mk(ty.k, n, K)
            pos_ty = TArr(ty.k, TInt)
        if view.kind == "keys":
            lst = keys
        elif view.kind == "values":
            lst = sym.list_mk(ty.v, n, z3.Lambda([i], z3.Select(val, z3.Select(K, i))))
        else:
            tt = TTuple([ty.k, ty.v])
            mk = sym.sort_of(tt).constructor(0)
            lst = sym.list_mk(tt, n, z3.Lambda([i], mk(kval(i), z3.Select(val, z3.Select(K, i)))))
        env.locals[tag + "_keys"] = keys
        env.locals[tag + "_pos"] = V(pos_ty, pos)
        dss, ref_t = self._dsum_for(d)
        eps = {}
        for ds in dss:
            eps[ds.counter] = e1 = self.ctx.fresh_const(z3.ArraySort(z3.IntSort(), z3.IntSort()), tag + "_eps_" + ds.counter)
            _, _, cur = self._dsum_counter(ds, ref_t)
            A(z3.Select(e1, 0) == 0)
            t_prev = self.dsum_term(ds, V(ty.v, z3.Select(val, z3.Select(K, i - 1))))
            A(_forall([i], z3.Implies(z3.And(1 <= i, i <= n), z3.Select(e1, i) == z3.Select(e1, i - 1) + t_prev), patterns=[z3.Select(e1, i)]))
            A(z3.Select(e1, n) == cur)
            env.locals[tag + "_eps_" + ds.counter] = V(TArr(TInt, TInt), e1)
        self.__dict__.setdefault("_enum_info", {})[lst.t.get_id()] = (lst.t, EnumInfo(n, K, pos, eps, dss, d, ref_t))
        return lst

    def enum_set(self, sv: V, env, tag):
        """snapshot enumeration of a set[int] (characteristic array): a list K of length n with
        (E1) every K[i] is a member and pos[K[i]] == i (pairwise distinct), (E2) every member k occurs at pos[k].
        Nothing is assumed about the order.  (Added for C16.)"""
        dom = sv.t
        n = self.ctx.fresh_const(z3.IntSort(), tag + "_n")
        K = self.ctx.fresh_const(z3.ArraySort(z3.IntSort(), z3.IntSort()), tag + "_K")
        pos = self.ctx.fresh_const(z3.ArraySort(z3.IntSort(), z3.IntSort()), tag + "_pos")
        i = z3.FreshConst(z3.IntSort(), "i")
        k = z3.FreshConst(z3.IntSort(), "k")
        A = self.ctx.assume
        A(n >= 0)
        A(_forall([i], z3.Implies(z3.And(0 <= i, i < n), z3.And(z3.Select(dom, z3.Select(K, i)), z3.Select(pos, z3.Select(K, i)) == i)), patterns=[z3.Select(K, i)]))
        A(_forall([k], z3.Implies(z3.Select(dom, k), z3.And(0 <= z3.Select(pos, k), z3.Select(pos, k) < n, z3.Select(K, z3.Select(pos, k)) == k)), patterns=[z3.Select(pos, k), z3.Select(dom, k)]))
        keys = sym.list_mk(TInt, n, K)
        env.locals[tag + "_keys"] = keys
        env.locals[tag + "_pos"] = V(TArr(TInt, TInt), pos)
        return keys

    def take_enum_tag(self, default_prefix):
        t = getattr(self, "_enum_tag", None)
        self._enum_tag = None
        if t is None:
            c = self.__dict__.get("_enum_ctr", 0)
            self._enum_ctr = c + 1
            t = "%s%d" % (default_prefix, c)
        return t

    def _sorted_dictview(self, node, env, x):
        if len(node.args) != 1 or node.keywords:
            raise Unsupported("sorted() with key/reverse")
        if isinstance(x, DictView) and x.kind == "keys":
            return self.enum_dict(x, env, self.take_enum_tag("_srt"), sorted_=True)
        raise Unsupported("sorted() of %s" % type(x).__name__)

    def bi_tuple(self, node, env):
        if len(node.args) != 1:
            raise Unsupported("tuple() arity")
        x = self.eval(node.args[0], env)
        if isinstance(x, V) and isinstance(x.ty, TList):
            # an immutable copy of the sequence; only len / iteration / indexing are modelled, which agree
            return V(x.ty, x.t)
        raise Unsupported("tuple() of %s" % (x.ty if isinstance(x, V) else type(x).__name__))

    def bi_filter(self, node, env):
        if len(node.args) != 2:
            raise Unsupported("filter arity")
        lam = self.eval(node.args[0], env)
        if not isinstance(lam, Closure) or not isinstance(lam.node, ast.Lambda):
            raise Unsupported("filter() predicate must be a lambda")
        tag = self.take_enum_tag("_flt")
        src = self.eval(node.args[1], env)
        info = None
        if isinstance(src, DictView):
            src = self.enum_dict(src, env, tag)
        if not (isinstance(src, V) and isinstance(src.ty, TList)):
            raise Unsupported("filter() over %s" % type(src).__name__)
        ent = self.__dict__.get("_enum_info", {}).get(src.t.get_id())
        if ent is not None and ent[0].eq(src.t):
            info = ent[1]
        self.assumptions_used.add("filter() modelled as evaluated at creation (Python evaluates it lazily): sound when the predicate's inputs and the iterated container do not change before the iterator is consumed")
        ety = src.ty.elem
        n, L = sym.list_len(src), sym.list_arr(src)

        def pred(t):
            self.spec += 1
            try:
                return self.truth(self.call_closure(lam, [V(ety, t)], {}))
            finally:
                self.spec -= 1

        m = self.ctx.fresh_const(z3.IntSort(), tag + "_m")
        idx = self.ctx.fresh_const(z3.ArraySort(z3.IntSort(), z3.IntSort()), tag + "_idx")
        inv = self.ctx.fresh_const(z3.ArraySort(z3.IntSort(), z3.IntSort()), tag + "_inv")
        i = z3.FreshConst(z3.IntSort(), "i")
        j = z3.FreshConst(z3.IntSort(), "j")
        A = self.ctx.assume
        A(m >= 0)
        A(m <= n)
        ij = z3.Select(idx, j)
        A(_forall([j], z3.Implies(z3.And(0 <= j, j < m), z3.And(0 <= ij, ij < n, pred(z3.Select(L, ij)), z3.Select(inv, ij) == j)), patterns=[z3.Select(idx, j)]))
        A(_forall([i, j], z3.Implies(z3.And(0 <= i, i < j, j < m), z3.Select(idx, i) < z3.Select(idx, j)), patterns=[z3.MultiPattern(z3.Select(idx, i), z3.Select(idx, j))]))
        vi = z3.Select(inv, i)
        A(_forall([i], z3.Implies(z3.And(0 <= i, i < n, pred(z3.Select(L, i))), z3.And(0 <= vi, vi < m, z3.Select(idx, vi) == i)), patterns=[z3.Select(inv, i)]))
        M = sym.list_mk(ety, m, z3.Lambda([j], z3.Select(L, z3.Select(idx, j))))
        env.locals[tag + "_src"] = src
        env.locals[tag + "_idx"] = V(TArr(TInt, TInt), idx)
        env.locals[tag + "_inv"] = V(TArr(TInt, TInt), inv)
        for ds in (info.ds if info is not None else []):
            # sum over the selected elements = sum over all elements, PROVIDED the term vanishes off the predicate;
            # the proviso is decided here and the prefix sums are only provided when it is valid
            x = z3.FreshConst(sym.sort_of(ety), "x")
            van = _forall([x], z3.Implies(z3.Not(pred(x)), self.dsum_term(ds, V(ety, x)) == 0))
            chk = z3.Solver()
            chk.set("timeout", 2000)
            chk.add(z3.Not(van))
            if guarded_check(chk, 500) != z3.unsat:
                continue
            fps = self.ctx.fresh_const(z3.ArraySort(z3.IntSort(), z3.IntSort()), tag + "_fps_" + ds.counter)
            A(z3.Select(fps, 0) == 0)
            tm = self.dsum_term(ds, V(ety, z3.Select(L, z3.Select(idx, j - 1))))
            A(_forall([j], z3.Implies(z3.And(1 <= j, j <= m), z3.Select(fps, j) == z3.Select(fps, j - 1) + tm), patterns=[z3.Select(fps, j)]))
            A(z3.Select(fps, m) == z3.Select(info.eps[ds.counter], info.n))
            env.locals[tag + "_fps_" + ds.counter] = V(TArr(TInt, TInt), fps)
        return M

    # ------------------------------------------------------------------ opaque callables
    def opaque_call(self, callee, args, node, env):
        cfg = self.registry.consts.get("OPAQUE_CALL")
        if not cfg:
            raise Unsupported("call of opaque callable (no OPAQUE_CALL declaration in the sidecars)")
        for spec in getattr(self, "loop_stack", []):
            if "<opaque>" not in spec.get("modifies", []):
                raise Unsupported("opaque call inside a loop whose spec does not declare modifies=['<opaque>']")
        self.assumptions_used.add("opaque callables: " + cfg["note"])
        self.havoc_all_but(cfg["preserves"])
        r = sym.fresh(TAny, self.ctx.fresh_name("opaque_ret"))
        return r

    def havoc_all_but(self, preserves):
        keep = set()
        for loc in preserves:
            cn, f = loc.split(".")
            try:
                owner, _ty = self.field(cn, f)
            except Unsupported:
                continue
            keep.add((owner, f))
        self.heap.dirty.append((("<opaque>", "*"), None))
        self._opaque_keep = keep
        # objects declared unreachable for the callbacks (contract key opaque_keeps of the function being verified)
        kept = []
        tc = getattr(self, "top_contract", None)
        for e in (tc.opaque_keeps if tc is not None else []):
            v = self.spec_val(e, self.top_env)
            if not isinstance(v.ty, TRef):
                raise Unsupported("opaque_keeps entry %s is not an object" % e)
            fl = {}
            for f, (owner, fty) in self.model(v.ty.cls).fields.items():
                self.heap.get(owner, f, fty)  # touch now, so that the field keeps its pre-call name
                fl[(owner, f)] = True
            kept.append((v, fl))
            self.assumptions_used.add("opaque callables cannot reach the object `%s` of %s (local to the caller): its fields survive callback invocations" % (e, tc.key))
        for key, arr in list(self.heap.arrays.items()):
            if key in keep:
                continue
            new = z3.Const(self.ctx.fresh_name("h_%s.%s" % key), arr.sort())
            for v, fl in kept:
                if key in fl:
                    new = z3.Store(new, v.t, z3.Select(arr, v.t))
            self.heap.arrays[key] = new
        # arrays first touched later must not be identified with their entry-state names
        self.heap.protected = keep if self.heap.protected is None else (self.heap.protected & keep)
        self.heap.alt_tag = self.ctx.fresh_name("hx")
        for ds in self._all_sums():
            oc, _ = self.field(ds.cls, ds.counter)
            if (oc, ds.counter) not in keep:
                continue
            # a preserved counter stays meaningful only if the dict and the fields its term reads are preserved too
            do, _ = self.field(ds.cls, ds.dict_field)
            ok = (do, ds.dict_field) in keep
            for f in self._ds_reads(ds):
                try:
                    vo, _ = self.field(ds.value_cls, f)
                except Unsupported:
                    continue
                ok = ok and (vo, f) in keep
            if not ok:
                self._havoc_counter(ds, None)
