"""Symbolic interpreter for the Python subset (expressions, statements, calls by contract)."""
from __future__ import annotations

import ast

import z3

from . import sym
from .core import Ctx, PathEnd, PyBreak, PyContinue, PyRaise, PyReturn
from .model import (BoundMethod, ClassModel, ClassRef, Closure, Env, FuncRef, Heap, ModRef, PyObj, SpecFunc,
                    TypeParser, _mangle)
from .sym import (NONE, TAny, TArr, TBool, TBytes, TDict, TEnum, TFunc, TInt, TList, TNone, TOpt, TRange, TReal,
                  TRef, TSet, TStr, TTuple, Unsupported, V)

I = z3.IntVal


class Interp:
    def __init__(self, index, registry, ctx: Ctx):
        self.index = index
        self.registry = registry
        self.ctx = ctx
        self.types = TypeParser(index, registry)
        self.heap = Heap()
        self.spec = 0  # >0: pure specification mode (no forking, no failure branches)
        self._models: dict[str, ClassModel] = {}
        self.refs: list = []
        self.depth = 0
        self.callee_stack: list[str] = []
        self.trusted_used: set[str] = set()
        self.assumptions_used: set[str] = set()
        self.called_contracts: set[str] = set()

    # ------------------------------------------------------------------ helpers
    def model(self, clsname) -> ClassModel:
        if clsname not in self._models:
            info = self.index.cls(clsname)
            if info is None:
                raise Unsupported("unknown class %s" % clsname)
            self._models[clsname] = ClassModel(self, info)
        return self._models[clsname]

    def field(self, clsname, fname):
        m = self.model(clsname)
        if fname not in m.fields:
            raise Unsupported("unknown field %s.%s (declare its type in the sidecar)" % (clsname, fname))
        return m.fields[fname]

    def read_field(self, ref: V, fname) -> V:
        owner, ty = self.field(ref.ty.cls, fname)
        v = self.heap.read(owner, fname, ty, ref.t)
        for f in sym.wf(v):
            self.ctx.assume(f)
        v.origin = ("field", ref.t, owner, fname, ty)
        if isinstance(ty, TRef):
            self.ref_wf(v.t)
            self.note_ref(v.t)
        elif isinstance(ty, TOpt) and isinstance(ty.inner, TRef):
            self.ctx.assume(z3.Implies(z3.Not(sym.opt_is_none(v)), self.ref_wf_term(sym.opt_val(v).t)))
        return v

    def from_any(self, val, ty):
        """A value the engine only knows as Any / list[Any] (e.g. what tls.pull_list returns: the items produced by an
        arbitrary item parser) stored where a precise type is declared: the typed value is UNCONSTRAINED (a fresh
        well-formed value of the declared type; a list keeps its length).  Sound for every clause that does not depend on
        the items' values - Python itself performs no conversion here.  (added for the TLS parsers)"""
        if not isinstance(val, V) or val.ty == ty:
            return val
        tgt = ty.inner if isinstance(ty, TOpt) else ty
        if val.ty == TAny and tgt != TAny and sym.sort_of(tgt) != z3.IntSort():
            nv = sym.fresh(tgt, self.ctx.fresh_name("from_any"))
        elif isinstance(val.ty, TList) and val.ty.elem == TAny and isinstance(tgt, TList) and tgt.elem != TAny:
            arr = sym.list_arr(sym.fresh(tgt, self.ctx.fresh_name("from_any")))
            nv = sym.list_mk(tgt.elem, sym.list_len(val), arr)
        else:
            return val
        for f in sym.wf(nv):
            self.ctx.assume(f)
        return nv

    def isinstance_of(self, handle, clsname):
        """the uninterpreted predicate "opaque object `handle` is an instance of the external class `clsname`" """
        ids = self.registry.__dict__.setdefault("_isinst_ids", {})
        f = z3.Function("isinstance_of", z3.IntSort(), z3.IntSort(), z3.BoolSort())
        return f(handle, z3.IntVal(ids.setdefault(clsname, len(ids))))

    def write_field(self, ref: V, fname, val: V):
        owner, ty = self.field(ref.ty.cls, fname)
        val = sym.coerce(self.from_any(val, ty), ty)
        self.field_touched(owner, fname, ref.t, whole_write=val)  # dict sums (dictiter.py)
        self.heap.write(owner, fname, ty, ref.t, val.t)

    def ref_wf_term(self, t):
        """a reference read from the heap is a pre-existing object (>= 0) or one of the objects created on this path"""
        return z3.Or(t >= 0, *[t == n for n in getattr(self, "new_refs", [])])

    def ref_wf(self, t):
        self.ctx.assume(self.ref_wf_term(t))

    def note_ref(self, t):
        for r in self.refs:
            if r.eq(t):
                return
        self.refs.append(t)

    def new_object(self, clsname) -> V:
        r = self.ctx.fresh_const(z3.IntSort(), "new_" + clsname)
        for o in self.refs:
            self.ctx.assume(r != o)
        self.ctx.assume(r < 0)  # pre-existing objects are >= 0 (assumed on every initial ref)
        self.refs.append(r)
        if not hasattr(self, "new_refs"):
            self.new_refs = []
        for o in self.new_refs:
            self.ctx.assume(r != o)
        self.new_refs.append(r)
        if clsname in self.registry.consts.get("ALLOC_FRESH", ()):
            self._assume_unreferenced(r, clsname)
        # dynamic class of the new object (read by the spec builtin is_instance); objects that already existed have an
        # unconstrained tag
        self.heap.write("object", "__class__", TInt, r, I(self.class_id(clsname)))
        return V(TRef(clsname), r)

    def class_id(self, clsname):
        return sorted(self.index.classes).index(clsname)

    def _assume_unreferenced(self, r, clsname):
        """Allocation freshness, opt-in per class (sidecar: R.consts['ALLOC_FRESH'] = {class names}).
        The object being created did not exist before, so no field of any object refers to it - neither in the
        function's entry heap nor in the heap at the moment of allocation.  Stated for every heap array touched so
        far whose type is C / Optional[C] / list[C]; the per-read facts (`ref_wf`, `self.refs`) say the same for
        individually read references only, which is not enough for quantified clauses over list elements."""
        I_ = z3.IntSort()
        done = set()
        # (C19) fields DECLARED in the sidecars with a type that mentions the class are touched first, so that the fact is
        # also stated for a field the path reads only after the allocation (touching only names the array, it assumes nothing)
        for cn, fl in self.registry.fields.items():
            for f, tstr in fl.items():
                if isinstance(tstr, str) and clsname in tstr:
                    try:
                        owner_c, fty = self.field(cn, f)
                        self.heap.get(owner_c, f, fty)
                    except Unsupported:
                        continue
        for (owner, f), cur in list(self.heap.arrays.items()):
            try:
                ty = self.field(owner, f)[1]
            except Unsupported:
                continue
            inner = ty.inner if isinstance(ty, TOpt) else ty
            if isinstance(ty, TDict) and isinstance(ty.v, TRef) and ty.v.cls == clsname:
                # dict[K, C] fields (added for C16): no value stored under a key of the domain is the new object
                entry = z3.Const("%s_%s.%s" % (self.heap.tag, owner, f), z3.ArraySort(I_, sym.sort_of(ty)))
                for arr in (cur, entry):
                    if arr.get_id() in done:
                        continue
                    done.add(arr.get_id())
                    o = self.ctx.fresh_const(I_, "fo")
                    k = self.ctx.fresh_const(sym.dict_ksort(ty), "fk")
                    cell = V(ty, z3.Select(arr, o))
                    el = z3.Select(sym.dict_val(cell), k)
                    self.ctx.assume(z3.ForAll([o, k], z3.Implies(z3.Select(sym.dict_dom(cell), k), el != r), patterns=[el]))
                continue
            elem = inner.elem if isinstance(inner, TList) else inner
            if not (isinstance(elem, TRef) and elem.cls == clsname):
                continue
            entry = z3.Const("%s_%s.%s" % (self.heap.tag, owner, f), z3.ArraySort(I_, sym.sort_of(ty)))
            for arr in (cur, entry):
                if arr.get_id() in done:
                    continue
                done.add(arr.get_id())
                o = self.ctx.fresh_const(I_, "fo")
                cell = V(ty, z3.Select(arr, o))
                if isinstance(ty, TOpt):
                    if isinstance(inner, TList):
                        continue
                    self.ctx.assume(z3.ForAll([o], z3.Or(sym.opt_is_none(cell), sym.opt_val(cell).t != r)))
                elif isinstance(inner, TList):
                    k = self.ctx.fresh_const(I_, "fk")
                    ln = sort_len = sym.sort_of(ty).accessor(0, 0)(cell.t)
                    el = z3.Select(sym.list_arr(cell), k)
                    self.ctx.assume(z3.ForAll([o, k], z3.Implies(z3.And(0 <= k, k < ln), el != r), patterns=[el]))
                else:
                    self.ctx.assume(z3.ForAll([o], cell.t != r))

    def fail(self, cond_ok, exc, what, node=None):
        """Implicit failure site: continue when cond_ok, raise `exc` otherwise."""
        if self.spec:
            if getattr(self, "strict_pure", 0) and not z3.is_true(z3.simplify(cond_ok)):
                # strict pure mode (comprehension predicates, engine/pyvc/comp.py): a possible implicit failure must
                # not be skipped silently - the construct is outside the supported subset
                raise Unsupported("possible %s (%s) inside a comprehension predicate" % (exc, what))
            return
        if not self.ctx.branch(cond_ok):
            raise PyRaise(exc, implicit=what, site=getattr(node, "lineno", None))

    def truth(self, v) -> object:
        if isinstance(v, PyObj):
            return z3.BoolVal(True)
        if isinstance(v.ty, TRef):
            info = self.index.cls(v.ty.cls)
            _, m = self.index.find_method(info, "__bool__") if info else (None, None)
            if m is not None and not self.spec:
                raise Unsupported("truthiness via __bool__ of %s" % v.ty.cls)
            _, m = self.index.find_method(info, "__len__") if info else (None, None)
            if m is not None:
                return sym.as_int(self.call_method(v, "__len__", [], {}, None)) != 0
        return sym.truthy(v)

    # ------------------------------------------------------------------ expressions
    def eval(self, node, env: Env):
        m = getattr(self, "e_" + type(node).__name__, None)
        if m is None:
            raise Unsupported("expression %s" % type(node).__name__)
        return m(node, env)

    def evalv(self, node, env) -> V:
        v = self.eval(node, env)
        if not isinstance(v, V):
            raise Unsupported("non-symbolic value in value position: %s" % ast.dump(node)[:60])
        return v

    def e_Constant(self, node, env):
        c = node.value
        if c is None:
            return NONE
        if isinstance(c, bool):
            return sym.mk_bool(c)
        if isinstance(c, int):
            return sym.mk_int(c)
        if isinstance(c, float):
            return sym.mk_real(c)
        if isinstance(c, bytes):
            return sym.bytes_const(c)
        if isinstance(c, str):
            return V(TStr, sym.str_const(c))
        raise Unsupported("constant %r" % (c,))

    def e_Name(self, node, env):
        n = node.id
        if n in env.locals:
            return env.locals[n]
        if n == "result" and env.result is not None:
            return env.result
        if n in self.registry.specs:
            return SpecFunc(n, self.registry.specs[n])
        if n in self.registry.consts:
            return self.const_value(self.registry.consts[n])
        if n in self.registry.ufuncs:
            return UFunc(n)
        mod = env.module
        if mod is not None:
            if n in mod.consts:
                return self.eval(mod.consts[n], Env({}, mod))
            if n in mod.functions:
                return FuncRef(mod, mod.functions[n])
        c = self.index.cls(n, mod)
        if c is not None:
            return ClassRef(c)
        # imported module-level names from other modules (constants, functions)
        for m2 in self.index.modules.values():
            if n in m2.consts and n.isupper():
                return self.eval(m2.consts[n], Env({}, m2))
        for m2 in self.index.modules.values():
            if n in m2.functions:
                return FuncRef(m2, m2.functions[n])
        if n in ("math", "os", "time", "binascii", "logging", "ipaddress", "struct", "events", "tls") or n in self.registry.module_names:
            return ModRef(n)
        from .source import BUILTIN_EXC

        if n in BUILTIN_EXC and not self.spec:
            # (C19) a builtin exception CLASS used as a value (`waiter.set_exception(ConnectionError)`): an opaque constant,
            # one per class name; nothing can be done with it except passing it on
            return V(TAny, z3.Const("excclass_" + n, z3.IntSort()))
        raise Unsupported("unbound name %s" % n)

    def const_value(self, c):
        if isinstance(c, bool):
            return sym.mk_bool(c)
        if isinstance(c, int):
            return sym.mk_int(c)
        if isinstance(c, float):
            return sym.mk_real(c)
        if isinstance(c, bytes):
            return sym.bytes_const(c)
        raise Unsupported("const %r" % (c,))

    def e_Attribute(self, node, env):
        base = self.eval(node.value, env)
        attr = node.attr
        if isinstance(base, ClassRef):
            info = base.info
            if info.is_enum and attr in info.enum_members:
                val = info.enum_members[attr]
                if not isinstance(val, int):
                    val = list(info.enum_members).index(attr)
                return V(TEnum(info.name), I(val))
            if attr in info.defaults:
                return self.eval(info.defaults[attr], Env({}, info.module))
            if attr in info.methods:
                return FuncRef(info.module, info.methods[attr], info)
            raise Unsupported("class attribute %s.%s" % (info.name, attr))
        if isinstance(base, ModRef):
            if base.name == "math" and attr == "inf":
                raise Unsupported("math.inf")
            if "%s.%s" % (base.name, attr) in self.registry.consts:
                # constant of an external module declared in a sidecar (e.g. ssl.CERT_NONE)
                return self.const_value(self.registry.consts["%s.%s" % (base.name, attr)])
            if base.name in self.registry.module_names:
                # declared external module: its attributes are external, never repository classes/functions of the same name
                return ModAttr(base.name, attr)
            c = self.index.cls(attr)
            if c is not None:
                return ClassRef(c)
            for m2 in self.index.modules.values():
                if attr in m2.functions:
                    return FuncRef(m2, m2.functions[attr])
            return ModAttr(base.name, attr)
        if isinstance(base, ModAttr):
            # (C03) attribute of an attribute of an external module (service_identity.cryptography.f, crypto.X509.g):
            # still external; the stub is looked up under the dotted name "mod.sub.f"
            return ModAttr(base.mod, base.attr + "." + attr)
        if type(base).__name__ == "ExcValue" and attr == "args":
            return ExcArgs(base.exc)  # only subscripted with a constant (e_Subscript)
        if type(base).__name__ == "ExcValue":
            return self.exc_attr(base, attr, node)
        if isinstance(base, PyObj):
            raise Unsupported("attribute of %s" % type(base).__name__)
        return self.attr_of(base, attr, env, node)

    def exc_attr(self, ev, attr, node):
        """attribute of a caught exception object `except E as exc: ... exc.attr` (added for C16, H3Connection.handle_event).
        The DYNAMIC class of the exception is only known to be a subclass of the class it was raised / declared with, so
        an attribute is an UNCONSTRAINED value of its declared type (sound over-approximation, nothing is assumed about
        which subclass it is):
          * a class-level attribute defined in the class or a base (ProtocolError.error_code = ErrorCode...): a fresh value
            of the type of that class-level expression (subclasses may override it with another member);
          * an instance attribute assigned in __init__ from an annotated parameter of the same name
            (self.reason_phrase = reason_phrase, reason_phrase: str): a fresh value of the annotated type - this relies on
            raise sites respecting the annotation (recorded as an assumption)."""
        e = ev.exc
        if attr in e.kwargs_v:
            # (C05) the keyword argument of that name given at the raise site / the callee contract's raise_attrs (the same
            # value clauses see as exc_<attr>); sound for exception classes whose __init__ stores its keyword arguments
            # under their own names - checked here on the class source
            info0 = self.index.cls(e.exc_type)
            if info0 is not None:
                owner, init0 = self.index.find_method(info0, "__init__")
                if init0 is not None:
                    ok = any(isinstance(st, ast.Assign) and len(st.targets) == 1 and isinstance(st.targets[0], ast.Attribute) and st.targets[0].attr == attr
                             and isinstance(st.targets[0].value, ast.Name) and st.targets[0].value.id == "self" and isinstance(st.value, ast.Name) and st.value.id == attr
                             for st in init0.body)
                    if not ok:
                        raise Unsupported("exception attribute %s.%s is not a stored constructor argument" % (e.exc_type, attr))
            return e.kwargs_v[attr]
        info = self.index.cls(ev.exc.exc_type)
        if info is None:
            raise Unsupported("attribute of exception %s" % ev.exc.exc_type)
        for c in self.index.mro(info):
            if attr in c.defaults:
                v = self.eval(c.defaults[attr], Env({}, c.module))
                if isinstance(v, V):
                    return sym.fresh(v.ty, self.ctx.fresh_name("exc_" + attr))
            init = c.methods.get("__init__")
            if init is not None:
                for p in init.args.args[1:]:
                    if p.arg == attr and p.annotation is not None and any(
                        isinstance(n, ast.Assign) and len(n.targets) == 1 and isinstance(n.targets[0], ast.Attribute) and n.targets[0].attr == attr
                        and isinstance(n.value, ast.Name) and n.value.id == attr for n in ast.walk(init)
                    ):
                        ty = self.types.parse(p.annotation, c.module)
                        self.assumptions_used.add("exception attributes: %s.%s has the type of the annotated constructor parameter (%s) at every raise site" % (c.name, attr, ast.unparse(p.annotation)))
                        r = sym.fresh(ty, self.ctx.fresh_name("exc_" + attr))
                        for f in sym.wf(r):
                            self.ctx.assume(f)
                        return r
        raise Unsupported("attribute %s of exception %s" % (attr, ev.exc.exc_type))

    def attr_of(self, base: V, attr, env, node=None):
        ty = base.ty
        if isinstance(ty, TOpt):
            self.fail(z3.Not(sym.opt_is_none(base)), "AttributeError", "None.%s" % attr, node)
            base = sym.opt_val(base)
            ty = base.ty
        if ty == TRange:
            if attr == "start":
                return V(TInt, sym.range_start(base))
            if attr == "stop":
                return V(TInt, sym.range_stop(base))
            if attr == "step":
                return sym.mk_int(1)
        if isinstance(ty, TEnum) and attr == "value":
            return V(TInt, base.t)
        if isinstance(ty, TEnum) and attr == "name":
            # Enum member name (added for C16): some str, nothing else is known about it; reading it never fails
            return V(TStr, self.ctx.fresh_const(sym.StrSort, "enum_name"))
        if isinstance(ty, TRef):
            info = self.index.cls(ty.cls)
            attr_m = _mangle(attr, env.cls.name) if env.cls is not None else attr
            m = self.model(ty.cls)
            if attr_m in m.fields:
                return self.read_field(base, attr_m)
            owner, meth = self.index.find_method(info, attr)
            if meth is not None:
                if attr in owner.properties:
                    return self.call_method(base, attr, [], {}, node)
                return BoundMethod(base, ty.cls, attr)
            tbl = self.dispatch_table(base, ty.cls, attr_m)  # constant table of bound methods (dispatch.py)
            if tbl is not None:
                return tbl
            if not self.spec:
                # (C19) data attribute that the STATIC class does not declare but subclasses do (`event.stream_id` on a
                # QuicEvent after an isinstance test): decided by the dynamic class tag - for each subclass (known to the
                # index) that declares the field, on the paths where the object is exactly of that class the field is
                # read there; on the remaining paths Python raises AttributeError.  (An isinstance test earlier on the
                # path has fixed the tag, so the other branches are infeasible and pruned.)
                subs = []
                for dn in sorted(self.index.classes):
                    di = self.index.cls(dn)
                    if di is None or di is info or not any(c is info for c in self.index.mro(di)):
                        continue
                    try:
                        if attr_m in self.model(dn).fields:
                            subs.append(dn)
                    except Unsupported:
                        continue
                if subs:
                    dyn = self.heap.read("object", "__class__", TInt, base.t).t
                    for dn in subs:
                        if self.ctx.branch(dyn == self.class_id(dn)):
                            return self.read_field(V(TRef(dn), base.t), attr_m)
                    raise PyRaise("AttributeError", implicit="%s object without attribute %s" % (ty.cls, attr), site=getattr(node, "lineno", None))
            raise Unsupported("unknown attribute %s.%s" % (ty.cls, attr))
        if ty in (TBytes, TStr) or isinstance(ty, (TList, TDict, TSet)):
            return BoundMethod(base, None, attr)
        if ty == TInt and attr == "to_bytes":
            return BoundMethod(base, None, attr)  # C17: int.to_bytes, described by the stub contract "int.to_bytes"
        if ty == TAny and not self.spec:
            # data attribute of an opaque external object: an unconstrained opaque value (fresh at every read, so
            # nothing is assumed about it - not even that two reads agree); may be absent
            # (added for C05/TLS) two refinements of "may be absent": `__class__` exists on every Python object; and the sidecar
            # may declare R.consts["OPAQUE_HAS_ATTR"] = {attr: [external class names]} - an object that IS an instance of one
            # of those classes (the uninterpreted isinstance_of predicate used by isinstance() on opaque values, spec form
            # isa_opaque(x, 'Name')) has the attribute
            present = self.ctx.fresh_const(z3.BoolSort(), "hasattr_" + attr)
            if attr == "__class__":
                present = z3.BoolVal(True)
            else:
                owners = self.registry.consts.get("OPAQUE_HAS_ATTR", {}).get(attr, [])
                if owners:
                    self.ctx.assume(z3.Implies(z3.Or(*[self.isinstance_of(base.t, n) for n in owners]), present))
            if not self.ctx.branch(present):
                raise PyRaise("AttributeError", implicit="opaque object without attribute %s" % attr, site=getattr(node, "lineno", None))
            return V(TAny, self.ctx.fresh_const(z3.IntSort(), "anyattr_" + attr))
        raise Unsupported("attribute %s of %s" % (attr, ty))

    def e_UnaryOp(self, node, env):
        v = self.evalv(node.operand, env)
        if isinstance(node.op, ast.Not):
            return sym.mk_bool(z3.Not(self.truth(v)))
        if isinstance(node.op, ast.USub):
            if v.ty == TReal:
                return V(TReal, -v.t)
            return V(TInt, -sym.as_int(v))
        if isinstance(node.op, ast.UAdd):
            return v
        if isinstance(node.op, ast.Invert):
            return V(TInt, -sym.as_int(v) - 1)
        raise Unsupported("unary op")

    def e_BoolOp(self, node, env):
        is_and = isinstance(node.op, ast.And)
        if self.spec:
            vals = [self.evalv(x, env) for x in node.values]
            ts = [self.truth(v) for v in vals]
            return sym.mk_bool(z3.And(*ts) if is_and else z3.Or(*ts))
        cur = None
        for i, x in enumerate(node.values):
            cur = self.evalv(x, env)
            if i == len(node.values) - 1:
                break
            t = self.truth(cur)
            d = self.ctx.branch(t)
            if is_and and not d:
                break
            if not is_and and d:
                break
            self._narrow_from_test(x, env, d)
        return cur

    def _narrow_from_test(self, test, env, taken):
        """After branching on `test` with outcome `taken`, narrow Optional-typed local names."""
        if isinstance(test, ast.UnaryOp) and isinstance(test.op, ast.Not):
            return self._narrow_from_test(test.operand, env, not taken)
        if isinstance(test, ast.BoolOp):
            if isinstance(test.op, ast.And) and taken:
                for x in test.values:
                    self._narrow_from_test(x, env, True)
            if isinstance(test.op, ast.Or) and not taken:
                for x in test.values:
                    self._narrow_from_test(x, env, False)
            return
        name = None
        nonnull = None
        if isinstance(test, ast.Compare) and len(test.ops) == 1 and isinstance(test.left, ast.Name):
            c = test.comparators[0]
            if isinstance(c, ast.Constant) and c.value is None:
                if isinstance(test.ops[0], (ast.Is, ast.Eq)):
                    name, nonnull = test.left.id, not taken
                elif isinstance(test.ops[0], (ast.IsNot, ast.NotEq)):
                    name, nonnull = test.left.id, taken
        elif isinstance(test, ast.Name):
            name, nonnull = test.id, taken
        if name and nonnull and name in env.locals:
            v = env.locals[name]
            if isinstance(v, V) and isinstance(v.ty, TOpt):
                nv = sym.opt_val(v)
                nv.origin = v.origin
                env.locals[name] = nv

    def unopt(self, v, node=None, what="None where a value is required"):
        if isinstance(v, V) and isinstance(v.ty, TOpt):
            self.fail(z3.Not(sym.opt_is_none(v)), "TypeError", what, node)
            return sym.opt_val(v)
        return v

    def e_IfExp(self, node, env):
        c = self.evalv(node.test, env)
        t = self.truth(c)
        if self.spec:
            a = self.evalv(node.body, env)
            b = self.evalv(node.orelse, env)
            return sym.ite(t, a, b)
        d = self.ctx.branch(t)
        saved = dict(env.locals)
        self._narrow_from_test(node.test, env, d)
        try:
            return self.eval(node.body if d else node.orelse, env)
        finally:
            for k, v0 in saved.items():
                if env.locals.get(k) is not v0 and isinstance(v0, V) and isinstance(v0.ty, TOpt) and isinstance(env.locals.get(k), V) and env.locals[k].ty == v0.ty.inner:
                    env.locals[k] = v0

    def e_Tuple(self, node, env):
        vals = [self.evalv(x, env) for x in node.elts]
        return sym.tuple_mk(vals)

    def e_List(self, node, env):
        vals = [self.evalv(x, env) for x in node.elts]
        if not vals:
            return EmptyLiteral("list")
        ety = vals[0].ty
        arr = z3.K(z3.IntSort(), sym.default_term(ety))
        for i, v in enumerate(vals):
            arr = z3.Store(arr, i, sym.coerce(v, ety).t)
        return sym.list_mk(ety, I(len(vals)), arr)

    def e_Dict(self, node, env):
        if not node.keys:
            return EmptyLiteral("dict")
        ks = [self.evalv(k, env) for k in node.keys]
        vs = [self.evalv(v, env) for v in node.values]
        if any(v.ty != vs[0].ty for v in vs):
            # heterogeneous values (JSON-like log records): an opaque value; only passed on to logging stubs.
            # (added for C20) the one fact recorded about it: it is JSON-typed iff every key is a str and every value is
            # JSON-typed (CallMixin.json_term); used by the spec builtin is_json()
            d = V(TAny, self.ctx.fresh_const(z3.IntSort(), "dictlit"))
            self.ctx.assume(z3.Function("is_json_any", z3.IntSort(), z3.BoolSort())(d.t) == z3.And(z3.BoolVal(all(k.ty == TStr for k in ks)), *[self.json_term(v) for v in vs]))
            return d
        ty = TDict(ks[0].ty if not isinstance(ks[0].ty, TEnum) else TInt, vs[0].ty)
        d = sym.dict_empty(ty)
        dom, val = sym.dict_dom(d), sym.dict_val(d)
        for k, v in zip(ks, vs):
            dom = z3.Store(dom, self.dict_key(ty, k), True)
            val = z3.Store(val, self.dict_key(ty, k), sym.coerce(v, ty.v).t)
        return sym.dict_mk(ty, dom, val)

    def e_Set(self, node, env):
        raise Unsupported("set literal")

    def e_JoinedStr(self, node, env):
        for x in node.values:
            if isinstance(x, ast.FormattedValue):
                self.eval(x.value, env)
        return V(TStr, self.ctx.fresh_const(sym.StrSort, "fstr"))

    def e_ListComp(self, node, env):
        # filters `[x for x in L if P(x)]` are encoded exactly (comp.py); unconditional maps are over-approximated
        if len(node.generators) == 1 and node.generators[0].ifs:
            return self._listcomp_filter(node, env)
        return self._listcomp_map(node, env)

    def _listcomp_map(self, node, env):
        """[elt for x in <range(...) | list>]  (one generator, no condition), SOUND OVER-APPROXIMATION:
        the element expression is executed once for an ARBITRARY position of the iterable (so every exception an
        element can raise is explored, on a path where such an element exists); the result is a list of the right
        length whose elements are unconstrained values of the element's type.  An element expression that writes the
        heap (directly or through a callee's modifies) is not supported."""
        if self.spec or len(node.generators) != 1:
            raise Unsupported("comprehension")
        g = node.generators[0]
        if g.ifs or g.is_async or not isinstance(g.target, ast.Name):
            raise Unsupported("comprehension with condition / pattern target")
        it = g.iter
        if isinstance(it, ast.Call) and isinstance(it.func, ast.Name) and it.func.id == "range" and 1 <= len(it.args) <= 2:
            r = [sym.as_int(self.unopt(self.evalv(a, env), node)) for a in it.args]
            lo, hi = (I(0), r[0]) if len(r) == 1 else (r[0], r[1])
            n = z3.If(hi > lo, hi - lo, I(0))
            k = self.ctx.fresh_const(z3.IntSort(), "comp_i")
            item = V(TInt, k)
            inside = z3.And(lo <= k, k < hi)
        else:
            seq = self.evalv(it, env)
            if not isinstance(seq.ty, TList):
                raise Unsupported("comprehension over %s" % seq.ty)
            n = sym.list_len(seq)
            k = self.ctx.fresh_const(z3.IntSort(), "comp_i")
            item = V(seq.ty.elem, z3.Select(sym.list_arr(seq), k))
            inside = z3.And(0 <= k, k < n)
        if not self.ctx.branch(n > 0):
            return EmptyLiteral("list")  # nothing is evaluated for an empty iterable
        self.ctx.assume(inside)
        for f in sym.wf(item):
            self.ctx.assume(f)
        loc = dict(env.locals)
        loc[g.target.id] = item
        before = dict(self.heap.arrays)
        e2 = env.child(loc)
        e2.contract, e2.fname, e2.anchors = None, getattr(env, "fname", "?"), {}
        elt = self.evalv(node.elt, e2)
        after = self.heap.arrays
        for k2, arr in after.items():
            # unchanged, or a field array first READ here (lazily created entry-heap constant)
            if not (arr.eq(before[k2]) if k2 in before else (z3.is_const(arr) and arr.decl().name() == "%s_%s.%s" % (self.heap.tag, k2[0], k2[1]))):
                raise Unsupported("comprehension element with side effects")
        res = sym.fresh(TList(elt.ty), self.ctx.fresh_name("comp"))
        self.ctx.assume(sym.list_len(res) == n)
        # (C03) ELEMENT INVARIANT, contract key comps={ordinal: [clauses over the target name and `_y`]}: each clause P is
        # PROVED for the arbitrary position just executed (target = iterable[k], _y = the element value computed) and then
        # ASSUMED for every position i of the result (target = iterable[i], _y = result[i]).  Sound because the element
        # expression is side-effect free (checked above), so every position is evaluated in the same state, and P may
        # only mention the target, `_y` and constants (no attribute reads, no calls): it is state independent.
        contract = getattr(env, "contract", None)
        clauses = None
        if contract is not None and getattr(contract, "comps", None) and not (isinstance(it, ast.Call) and isinstance(it.func, ast.Name) and it.func.id == "range"):
            fn = getattr(env, "func", None)
            comps = sorted([x for x in ast.walk(fn) if isinstance(x, ast.ListComp)], key=lambda x: (x.lineno, x.col_offset)) if fn is not None else []
            ordn = next((i for i, x in enumerate(comps) if x is node), None)
            clauses = contract.comps.get(ordn)
        for j, cl in enumerate(clauses or []):
            tree = self.parse_clause(cl)
            # (relaxed for C05) applications of UNINTERPRETED functions (R.ufunc) are state independent too: allowed
            ufn = {id(sub.func) for sub in ast.walk(tree) if isinstance(sub, ast.Call) and isinstance(sub.func, ast.Name) and sub.func.id in self.registry.ufuncs and not sub.keywords}
            for sub in ast.walk(tree):
                if id(sub) in ufn or (isinstance(sub, ast.Call) and id(sub.func) in ufn):
                    continue
                if isinstance(sub, (ast.Attribute, ast.Call, ast.Subscript)) or (isinstance(sub, ast.Name) and sub.id not in (g.target.id, "_y", "True", "False", "None")):
                    raise Unsupported("comprehension element invariant may only mention %s and _y" % g.target.id)
            l1 = {g.target.id: item, "_y": elt}
            self.ctx.oblige("%s:comp%d.elem.%d" % (getattr(env, "fname", "?"), ordn, j), "assert", self.spec_bool(cl, env.child(l1)), site=node.lineno, note=cl)
            i = self.ctx.fresh_const(z3.IntSort(), "comp_q")
            l2 = {g.target.id: V(seq.ty.elem, z3.Select(sym.list_arr(seq), i)), "_y": V(elt.ty, z3.Select(sym.list_arr(res), i))}
            self.ctx.assume(z3.ForAll([i], z3.Implies(z3.And(0 <= i, i < n), self.spec_bool(cl, env.child(l2))), patterns=[z3.Select(sym.list_arr(res), i), z3.Select(sym.list_arr(seq), i)]))  # either cell triggers
        return res

    def e_Lambda(self, node, env):
        return Closure(node, env)

    def e_BinOp(self, node, env):
        a = self.evalv(node.left, env)
        b = self.evalv(node.right, env)
        return self.binop(node.op, a, b, node)

    def binop(self, op, a: V, b: V, node=None) -> V:
        if isinstance(op, ast.Mod) and a.ty == TStr:
            return V(TStr, self.ctx.fresh_const(sym.StrSort, "fmt"))
        if isinstance(op, ast.Add):
            if a.ty == TBytes and b.ty == TBytes:
                return self.bytes_concat(a, b)
            if a.ty == TStr and b.ty == TStr:
                r = V(TStr, self.ctx.fresh_const(sym.StrSort, "cat"))
                self.ctx.assume(sym.str_len(r.t) == sym.str_len(a.t) + sym.str_len(b.t))
                return r
            if isinstance(a.ty, TList) and isinstance(b.ty, TList):
                return self.list_concat(a, b)
        if isinstance(op, ast.Mult):
            if a.ty == TBytes and sym.is_num(b):
                return self.bytes_repeat(a, b)
        if isinstance(a.ty, TOpt) or isinstance(b.ty, TOpt):
            # arithmetic on Optional: TypeError when None
            if isinstance(a.ty, TOpt):
                self.fail(z3.Not(sym.opt_is_none(a)), "TypeError", "arithmetic on None", node)
                a = sym.opt_val(a)
            if isinstance(b.ty, TOpt):
                self.fail(z3.Not(sym.opt_is_none(b)), "TypeError", "arithmetic on None", node)
                b = sym.opt_val(b)
        if not (sym.is_num(a) and sym.is_num(b)):
            raise Unsupported("binop %s on %s,%s" % (type(op).__name__, a.ty, b.ty))
        real = a.ty == TReal or b.ty == TReal
        if isinstance(op, ast.Div):
            x, y = sym.as_real(a), sym.as_real(b)
            self.fail(y != 0, "ZeroDivisionError", "division by zero", node)
            return V(TReal, x / y)
        if real:
            x, y = sym.as_real(a), sym.as_real(b)
            if isinstance(op, ast.Add):
                return V(TReal, x + y)
            if isinstance(op, ast.Sub):
                return V(TReal, x - y)
            if isinstance(op, ast.Mult):
                return V(TReal, x * y)
            if isinstance(op, ast.Pow):
                if z3.is_int_value(z3.simplify(b.t)) if b.ty == TInt else False:
                    n = z3.simplify(b.t).as_long()
                    r = z3.RealVal(1)
                    for _ in range(n):
                        r = r * x
                    return V(TReal, r)
                raise Unsupported("real power")
            raise Unsupported("float op %s" % type(op).__name__)
        x, y = sym.as_int(a), sym.as_int(b)
        if isinstance(op, ast.Add):
            return V(TInt, x + y)
        if isinstance(op, ast.Sub):
            return V(TInt, x - y)
        if isinstance(op, ast.Mult):
            return V(TInt, x * y)
        if isinstance(op, ast.FloorDiv):
            self.fail(y != 0, "ZeroDivisionError", "division by zero", node)
            return V(TInt, floordiv(x, y))
        if isinstance(op, ast.Mod):
            self.fail(y != 0, "ZeroDivisionError", "modulo by zero", node)
            return V(TInt, x - y * floordiv(x, y))
        ys = z3.simplify(y)
        xs = z3.simplify(x)
        if isinstance(op, ast.Pow):
            if z3.is_int_value(ys) and ys.as_long() >= 0:
                if z3.is_int_value(xs):
                    return sym.mk_int(xs.as_long() ** ys.as_long())
                r = I(1)
                for _ in range(ys.as_long()):
                    r = r * x
                return V(TInt, r)
            if z3.is_int_value(xs) and xs.as_long() == 2:
                return V(TInt, pow2(y, self))
            raise Unsupported("symbolic power")
        if isinstance(op, ast.LShift):
            if z3.is_int_value(ys):
                return V(TInt, x * (2 ** ys.as_long()))
            return V(TInt, x * pow2(y, self))
        if isinstance(op, ast.RShift):
            if z3.is_int_value(ys):
                return V(TInt, floordiv(x, I(2 ** ys.as_long())))
            return V(TInt, floordiv(x, pow2(y, self)))
        if isinstance(op, ast.BitAnd):
            for p, q in ((xs, y), (ys, x)):
                if z3.is_int_value(p):
                    c = p.as_long()
                    if c >= 0 and (c & (c + 1)) == 0:  # mask 2^k - 1
                        return V(TInt, q % I(c + 1))
                    if c >= 0 and bin(c).count("1") >= 1:
                        low = (c & -c).bit_length() - 1
                        if c == ((c >> low) << low) and ((c >> low) & ((c >> low) + 1)) == 0:
                            # contiguous mask: bits low..high
                            width = (c >> low).bit_length()
                            return V(TInt, (floordiv(q, I(2 ** low)) % I(2 ** width)) * I(2 ** low))
                    if c < 0 and ((~c) & ((~c) + 1)) == 0:  # ~(2^k - 1)
                        m = (~c) + 1
                        return V(TInt, q - q % I(m))
            return V(TInt, self.bv_op(x, y, "and"))
        if isinstance(op, ast.BitOr):
            r = self.disjoint_or(x, y)
            if r is not None:
                return V(TInt, r)
            return V(TInt, self.bv_op(x, y, "or"))
        if isinstance(op, ast.BitXor):
            return V(TInt, self.bv_op(x, y, "xor"))
        raise Unsupported("int op %s" % type(op).__name__)

    def disjoint_or(self, x, y):
        """x | y == x + y when (proved under the path condition) x is a multiple of 2^k and 0 <= y < 2^k.
        The answer depends only on (x, y, path condition); paths are re-executed from the start with deterministic
        fresh names, so it is memoised per (terms, decision prefix) on the explorer (pure speed-up)."""
        memo = self.ctx.ex.__dict__.setdefault("_disjoint_or_memo", {})
        key = (x.get_id(), y.get_id(), tuple(self.ctx.decisions))
        hit = memo.get(key)
        if hit is not None and hit[0].eq(x) and hit[1].eq(y):
            return hit[2]
        r = self._disjoint_or(x, y)
        memo[key] = (x, y, r)
        return r

    def _disjoint_or(self, x, y):
        xs, ys = z3.simplify(x), z3.simplify(y)
        # one operand is a literal c: the only useful splits are k = (number of trailing zero bits of c) [other operand
        # in [0, 2^k)] and k = bit length of c [other operand a multiple of 2^k]
        for c_t, o in ((xs, y), (ys, x)):
            if z3.is_int_value(c_t) and c_t.as_long() > 0:
                c = c_t.as_long()
                tz = (c & -c).bit_length() - 1
                if tz > 0 and self.ctx.prove_quick(z3.And(0 <= o, o < I(2 ** tz)), qf_first_only=True):
                    return x + y
                bl = c.bit_length()
                if self.ctx.prove_quick(z3.And(o % I(2 ** bl) == 0, o >= 0), qf_first_only=True):
                    return x + y
                return None
        ks = set()

        def scan(t, depth=0):
            if depth > 12:
                return
            if z3.is_int_value(t):
                c = abs(t.as_long())
                if c > 1 and (c & (c - 1)) == 0:
                    ks.add(c.bit_length() - 1)
                if c > 1 and (c & (c + 1)) == 0:
                    ks.add(c.bit_length())
                return
            for ch in t.children():
                scan(ch, depth + 1)

        scan(xs)
        scan(ys)
        for k in sorted(ks):
            m = I(2 ** k)
            for a, b in ((x, y), (y, x)):
                if self.ctx.prove_quick(z3.And(a % m == 0, 0 <= b, b < m), qf_first_only=True):
                    return a + b
        return None

    def bv_op(self, x, y, which, width=72):
        # wide bit-vector embedding; side condition 0 <= x,y < 2^width is an assumption recorded as such
        self.assumptions_used.add("bitwise %s embedded in %d-bit vectors (operands assumed 0 <= v < 2^%d)" % (which, width, width))
        bx, by = z3.Int2BV(x, width), z3.Int2BV(y, width)
        r = {"and": bx & by, "or": bx | by, "xor": bx ^ by}[which]
        return z3.BV2Int(r, is_signed=False)

    # ---- comparisons
    def e_Compare(self, node, env):
        left = self.eval(node.left, env)
        res = None
        for op, rn in zip(node.ops, node.comparators):
            right = self.eval(rn, env)
            c = self.compare(op, left, right, node)
            if res is None:
                res = c
            else:
                res = z3.And(res, c)
            if len(node.ops) > 1 and not self.spec:
                # short-circuit of chained comparisons has no side effects here
                pass
            left = right
        return sym.mk_bool(res)

    def compare(self, op, a, b, node=None):
        if isinstance(op, (ast.Is, ast.IsNot)):
            r = self.identical(a, b)
            return r if isinstance(op, ast.Is) else z3.Not(r)
        if isinstance(op, (ast.In, ast.NotIn)):
            r = self.contains(b, a, node)
            return r if isinstance(op, ast.In) else z3.Not(r)
        if isinstance(a, PyObj) or isinstance(b, PyObj):
            raise Unsupported("comparison of python objects")
        if isinstance(op, (ast.Eq, ast.NotEq)):
            self.note_bytes_literal(a, b)
        if isinstance(op, ast.Eq):
            return sym.equal(a, b)
        if isinstance(op, ast.NotEq):
            return z3.Not(sym.equal(a, b))
        # ordering
        if isinstance(a.ty, TOpt):
            self.fail(z3.Not(sym.opt_is_none(a)), "TypeError", "ordering comparison with None", node)
            a = sym.opt_val(a)
        if isinstance(b.ty, TOpt):
            self.fail(z3.Not(sym.opt_is_none(b)), "TypeError", "ordering comparison with None", node)
            b = sym.opt_val(b)
        if a.ty == TNone or b.ty == TNone:
            if not self.spec:
                raise PyRaise("TypeError", implicit="ordering comparison with None")
            raise Unsupported("ordering with None in spec")
        if not (sym.is_num(a) and sym.is_num(b)):
            raise Unsupported("ordering on %s,%s" % (a.ty, b.ty))
        if a.ty == TReal or b.ty == TReal:
            x, y = sym.as_real(a), sym.as_real(b)
        else:
            x, y = sym.as_int(a), sym.as_int(b)
        if isinstance(op, ast.Lt):
            return x < y
        if isinstance(op, ast.LtE):
            return x <= y
        if isinstance(op, ast.Gt):
            return x > y
        if isinstance(op, ast.GtE):
            return x >= y
        raise Unsupported("compare op")

    def identical(self, a, b):
        if isinstance(a, PyObj) or isinstance(b, PyObj):
            other = b if isinstance(a, PyObj) else a
            if type(a if isinstance(a, PyObj) else b).__name__ == "ExcValue" and isinstance(other, V) and other.ty == TNone:
                return z3.BoolVal(False)  # an exception object is not None
            if isinstance(other, V) and other.ty == TNone and not (isinstance(a, PyObj) and isinstance(b, PyObj)):
                return z3.BoolVal(False)  # a function / bound method / class / module object is not None
            raise Unsupported("`is` on python objects")
        if a.ty == TNone or b.ty == TNone:
            return sym.equal(a, b)
        if isinstance(a.ty, TOpt) or isinstance(b.ty, TOpt) or isinstance(a.ty, (TRef, TEnum)) or a.ty == TBool:
            return sym.equal(a, b)
        raise Unsupported("`is` on %s" % a.ty)

    def contains(self, cont, item, node=None):
        if isinstance(cont, PyObj):
            raise Unsupported("in <pyobj>")
        ty = cont.ty
        if ty == TRange:
            x = sym.as_int(item)
            return z3.And(sym.range_start(cont) <= x, x < sym.range_stop(cont))
        if isinstance(ty, TTuple):
            return z3.Or(*[sym.equal(sym.tuple_get(cont, i), item) for i in range(len(ty.items))])
        if isinstance(ty, TDict):
            return z3.Select(sym.dict_dom(cont), self.dict_key(ty, item))
        if isinstance(ty, TSet):
            return z3.Select(cont.t, self.set_key(ty, item))
        if isinstance(ty, TList):
            k = self.ctx.fresh_const(z3.IntSort(), "k")
            if isinstance(item, V) and isinstance(item.ty, TOpt) and not isinstance(ty.elem, TOpt) and ty.elem != TAny:
                # (C03) `<Optional[T]> in <list[T]>`: None equals no element of a list of non-None values
                it = sym.coerce(sym.opt_val(item), ty.elem)
                return z3.And(z3.Not(sym.opt_is_none(item)), z3.Exists([k], z3.And(0 <= k, k < sym.list_len(cont), z3.Select(sym.list_arr(cont), k) == it.t)))
            it = sym.coerce(item, ty.elem)
            return z3.Exists([k], z3.And(0 <= k, k < sym.list_len(cont), z3.Select(sym.list_arr(cont), k) == it.t))
        if isinstance(ty, TRef):
            return self.truth(self.call_method(cont, "__contains__", [item], {}, node))
        if ty == TBytes and sym.is_num(item):
            k = self.ctx.fresh_const(z3.IntSort(), "k")
            return z3.Exists([k], z3.And(0 <= k, k < sym.bytes_len(cont), z3.Select(sym.bytes_data(cont), k) == sym.as_int(item)))
        raise Unsupported("`in` on %s" % ty)

    def note_bytes_literal(self, a, b):
        """a byte string is compared with a literal L: give the solver the instance of the bkey axiom for L in
        quantifier-free form (for all x: x == L  <=>  bkey(x) == bkey(L)); a consequence of sym.bkey_axiom, so it adds
        no assumption.  Handed to the solver only on paths where set[bytes] values occur (Ctx.oblige)."""
        for x in (a, b):
            if isinstance(x, V) and x.ty == TBytes:
                lit = sym.bytes_literal(x)
                if lit is not None and len(lit) <= 64:
                    name = "bkey-lit:" + lit.hex()
                    if name not in self.ctx.bkey_lemmas:
                        v = z3.Const("bk_x", sym.sort_of(TBytes))
                        self.ctx.bkey_lemmas[name] = z3.ForAll([v], sym.bytes_eq(V(TBytes, v), x) == (sym.bkey(v) == sym.bkey(x.t)), patterns=[sym.bkey(v)])

    def set_key(self, ty, item):
        """index of `item` in the characteristic array of a set of type `ty`.  Elements of set[bytes] are identified by
        sym.bkey (value identity of the byte string); its axiom is handed to the solver on every path that uses it."""
        if ty.k == TBytes:
            if isinstance(item.ty, TOpt):
                raise Unsupported("Optional[bytes] as set element")
            self.ctx.axioms.setdefault("bkey", sym.bkey_axiom())
            return sym.bkey(sym.coerce(item, TBytes).t)
        return sym.coerce(item, ty.k).t

    def dict_key(self, ty, item):
        """(C19) index of the key `item` in the dom/val arrays of a dict of type `ty`.  Keys of dict[bytes, V] are
        identified by sym.bkey (value identity of the byte string, as Python's hash/eq on bytes); the bkey axiom is
        handed to the solver on every path that uses it.  Every other key type: the coerced key term itself."""
        if ty.k == TBytes:
            if isinstance(item.ty, TOpt):
                raise Unsupported("Optional[bytes] as dict key")
            self.ctx.axioms.setdefault("bkey", sym.bkey_axiom())
            return sym.bkey(sym.coerce(item, TBytes).t)
        return sym.coerce(item, ty.k).t

    # ---- subscripts
    def e_Subscript(self, node, env):
        base = self.eval(node.value, env)
        if type(base).__name__ == "DispatchTable":
            return self.table_subscript(base, self.evalv(node.slice, env), node)  # dispatch.py, S1
        if isinstance(base, ExcArgs):
            # (C03) `exc.args[k]`, k a constant: the k-th constructor argument when the exception was built by interpreted
            # code; for an exception raised by a stub only what the stub declares (raise_attrs key "args<k>")
            k = node.slice.value if isinstance(node.slice, ast.Constant) and isinstance(node.slice.value, int) else None
            if k is not None and 0 <= k < len(base.exc.args_v) and isinstance(base.exc.args_v[k], V):
                return base.exc.args_v[k]
            if k is not None and ("args%d" % k) in base.exc.kwargs_v:
                return base.exc.kwargs_v["args%d" % k]
            raise Unsupported("args[%s] of an exception whose arguments are unknown" % (k,))
        if isinstance(base, PyObj):
            raise Unsupported("subscript of python object")
        if isinstance(node.slice, ast.Slice):
            return self.slice_of(base, node.slice, env, node)
        idx = self.evalv(node.slice, env)
        return self.index_of(base, idx, node)

    def norm_index(self, idx_t, length):
        s = z3.simplify(idx_t)
        if z3.is_int_value(s):
            return idx_t if s.as_long() >= 0 else length + idx_t
        return z3.If(idx_t < 0, idx_t + length, idx_t)

    def index_of(self, base: V, idx: V, node=None) -> V:
        ty = base.ty
        if isinstance(ty, TOpt):
            self.fail(z3.Not(sym.opt_is_none(base)), "TypeError", "subscript of None", node)
            base = sym.opt_val(base)
            ty = base.ty
        if isinstance(ty, TList):
            n = sym.list_len(base)
            i = self.norm_index(sym.as_int(idx), n)
            self.fail(z3.And(0 <= i, i < n), "IndexError", "list index out of range", node)
            v = V(ty.elem, z3.Select(sym.list_arr(base), i))
            for f in sym.wf(v):
                self.ctx.assume(f)
            if isinstance(ty.elem, TRef) and not self.spec:
                self.ref_wf(v.t)
            return v
        if ty == TBytes:
            n = sym.bytes_len(base)
            i = self.norm_index(sym.as_int(idx), n)
            self.fail(z3.And(0 <= i, i < n), "IndexError", "bytes index out of range", node)
            t = z3.Select(sym.bytes_data(base), i)
            self.ctx.assume(z3.And(0 <= t, t <= 255))
            return V(TInt, t)
        if isinstance(ty, TDict):
            k_t = self.dict_key(ty, idx)
            self.fail(z3.Select(sym.dict_dom(base), k_t), "KeyError", "missing dict key", node)
            v = V(ty.v, z3.Select(sym.dict_val(base), k_t))
            for f in sym.wf(v):
                self.ctx.assume(f)
            if isinstance(ty.v, TRef):
                if not self.spec:
                    self.ref_wf(v.t)
                self.note_ref(v.t)
            return v
        if isinstance(ty, TArr):
            k = sym.coerce(idx, ty.k)
            return V(ty.v, z3.Select(base.t, k.t))
        if isinstance(ty, TTuple):
            s = z3.simplify(sym.as_int(idx))
            if z3.is_int_value(s):
                i = s.as_long()
                if i < 0:
                    i += len(ty.items)
                return sym.tuple_get(base, i)
            raise Unsupported("symbolic tuple index")
        if ty == TRange:
            i = sym.as_int(idx)
            return V(TInt, sym.range_start(base) + i)
        if isinstance(ty, TRef):
            return self.call_method(base, "__getitem__", [idx], {}, node)
        raise Unsupported("subscript of %s" % ty)

    def slice_bounds(self, sl, length, env):
        """Python slice clamping for step 1: returns (lo, hi) with 0 <= lo <= hi <= length."""
        if sl.step is not None:
            raise Unsupported("slice step")

        def clamp(e, default):
            if e is None:
                return default
            v = self.evalv(e, env)
            if isinstance(v.ty, TOpt):
                raise Unsupported("optional slice bound")
            t = sym.as_int(v)
            s = z3.simplify(t)
            if z3.is_int_value(s):
                c = s.as_long()
                if c >= 0:
                    return z3.If(length < c, length, I(c))
                return z3.If(length + c < 0, I(0), length + c)
            t2 = z3.If(t < 0, t + length, t)
            return z3.If(t2 < 0, I(0), z3.If(t2 > length, length, t2))

        lo = clamp(sl.lower, I(0))
        hi = clamp(sl.upper, length)
        hi = z3.If(hi < lo, lo, hi)
        return z3.simplify(lo), z3.simplify(hi)

    def slice_of(self, base: V, sl, env, node=None) -> V:
        ty = base.ty
        if isinstance(ty, TOpt):
            self.fail(z3.Not(sym.opt_is_none(base)), "TypeError", "slice of None", node)
            base = sym.opt_val(base)
            ty = base.ty
        if ty == TBytes:
            n = sym.bytes_len(base)
            lo, hi = self.slice_bounds(sl, n, env)
            return self.bytes_sub(base, lo, hi)
        if isinstance(ty, TList):
            n = sym.list_len(base)
            lo, hi = self.slice_bounds(sl, n, env)
            k = z3.FreshConst(z3.IntSort(), "k")
            arr = z3.Lambda([k], z3.Select(sym.list_arr(base), k + lo))
            return sym.list_mk(ty.elem, hi - lo, arr)
        raise Unsupported("slice of %s" % ty)

    # ---- bytes helpers
    def bytes_sub(self, b: V, lo, hi) -> V:
        lo_s = z3.simplify(lo)
        if z3.is_int_value(lo_s) and lo_s.as_long() == 0:
            return sym.bytes_mk(z3.simplify(hi), sym.bytes_data(b))
        k = z3.FreshConst(z3.IntSort(), "k")
        return sym.bytes_mk(z3.simplify(hi - lo), z3.Lambda([k], z3.Select(sym.bytes_data(b), k + lo)))

    def bytes_concat(self, a: V, b: V) -> V:
        la, lb = sym.bytes_len(a), sym.bytes_len(b)
        k = z3.FreshConst(z3.IntSort(), "k")
        arr = z3.Lambda([k], z3.If(k < la, z3.Select(sym.bytes_data(a), k), z3.Select(sym.bytes_data(b), k - la)))
        return sym.bytes_mk(z3.simplify(la + lb), arr)

    def bytes_repeat(self, a: V, n: V) -> V:
        la = z3.simplify(sym.bytes_len(a))
        if z3.is_int_value(la) and la.as_long() == 1:
            c = z3.Select(sym.bytes_data(a), 0)
            nn = sym.as_int(n)
            return sym.bytes_mk(z3.If(nn < 0, I(0), nn), z3.K(z3.IntSort(), c))
        raise Unsupported("bytes * n")

    def list_concat(self, a: V, b: V) -> V:
        la, lb = sym.list_len(a), sym.list_len(b)
        k = z3.FreshConst(z3.IntSort(), "k")
        arr = z3.Lambda([k], z3.If(k < la, z3.Select(sym.list_arr(a), k), z3.Select(sym.list_arr(b), k - la)))
        return sym.list_mk(a.ty.elem, la + lb, arr)

    def bytes_splice(self, b: V, lo, hi, d: V) -> V:
        """b[lo:hi] = d  with 0 <= lo <= hi <= len(b)."""
        lb, ld = sym.bytes_len(b), sym.bytes_len(d)
        k = z3.FreshConst(z3.IntSort(), "k")
        arr = z3.Lambda(
            [k],
            z3.If(k < lo, z3.Select(sym.bytes_data(b), k),
                  z3.If(k < lo + ld, z3.Select(sym.bytes_data(d), k - lo), z3.Select(sym.bytes_data(b), k - ld + (hi - lo)))),
        )
        return sym.bytes_mk(z3.simplify(lb - (hi - lo) + ld), arr)


class EmptyLiteral(PyObj):
    def __init__(self, kind):
        self.kind = kind


class UFunc(PyObj):
    """uninterpreted spec function declared with R.ufunc"""

    def __init__(self, name):
        self.name = name


class StarArg(PyObj):
    """`*expr` call argument whose value is an opaque tuple (only external stubs / *varargs parameters accept it)"""

    def __init__(self, v):
        self.v = v


class ExcArgs(PyObj):
    """`exc.args` of a caught exception (only `exc.args[<constant>]` is supported)"""

    def __init__(self, exc):
        self.exc = exc


class ModAttr(PyObj):
    def __init__(self, mod, attr):
        self.mod, self.attr = mod, attr


def floordiv(x, y):
    ys = z3.simplify(y)
    if z3.is_int_value(ys):
        if ys.as_long() > 0:
            return x / y
        return (-x) / (-y)
    return z3.If(y > 0, x / y, (-x) / (-y))


_pow2 = z3.Function("pow2", z3.IntSort(), z3.IntSort())


def pow2(y, interp):
    # uninterpreted with pointwise facts for small exponents
    for n in range(0, 65):
        interp.ctx.assume(z3.Implies(y == n, _pow2(y) == 2 ** n))
    return _pow2(y)
