"""Dispatch through a constant table of bound methods (mixin for Machine).

Code shape supported (quic/connection.py, frame dispatch of `_payload_received`):

    class C:
        def __init__(self, ...):
            ...
            self.__table = {0x00: (self._handle_a, EPOCHS("IH01")), 0x01: (self._handle_b, EPOCHS("1")), ...}
        def m(self, ...):
            handler, epochs = self.__table[key]          # KeyError for a key outside the table
            ...
            handler(x, y, z)                             # modular call of the selected method, by its contract

A table is declared by a sidecar:  R.consts.setdefault("DISPATCH_TABLES", set()).add(("C", "__table")).
Nothing about the table's CONTENT is declared: the dict display is read from the current source on every run.

Semantics implemented (each check failing makes the construct Unsupported -> the function is undecided, never proved):

 T1  the attribute is assigned by exactly one statement of the class, a top-level (unconditional) statement of `__init__`
     whose value is a dict display; every other occurrence of the attribute name in the class is the subscripted operand
     of a LOAD subscript `self.<attr>[k]` (no store, delete, alias, method call on it, no passing it on), and the mangled
     name occurs nowhere else in the repository.  Hence every constructed object holds exactly the table of the display,
     for ever.
 T2  keys are pairwise distinct int literals; values are 2-tuples (self.<method>, EPOCHS("<letters>")); <method> is a
     method of the class that is never assigned as an instance attribute (so `self.<method>` is the bound method of the
     class - subclasses overriding it are outside the model, as for every statically resolved call of this engine).
 T3  EPOCHS is the module function `return frozenset((EPOCH_SHORTCUTS[i] for i in shortcut))` and EPOCH_SHORTCUTS a
     module-level dict display from 1-character strings to members of one Enum: EPOCHS("IH1") is evaluated to the set of
     those members' values (a KeyError inside EPOCHS would happen in __init__, not at dispatch time: letters outside the
     mapping make the table Unsupported).
 S1  `self.<attr>[k]` with an int-valued k: n-way case split over the rows, grouped by (method, epoch set) - on the branch
     of a group, k equals one of the group's keys; on the remaining branch k differs from every key and KeyError is raised
     (an implicit failure site like any other dict subscript).
 S2  the selected row is a Python-level pair; unpacking it binds the bound method and the epoch set (a set[int] of enum
     values: `epoch in epochs` is interpreted).
 S3  calling the bound method is an ordinary modular call by that method's contract (requires become obligations, declared
     exceptional outcomes are explored).  Because the `modifies` lists of handler contracts are not frame-checked, the
     dispatcher does not rely on them: after the call (normal or exceptional) the WHOLE heap is havocked.
"""
from __future__ import annotations

import ast

import z3

from . import sym
from .core import PyRaise
from .model import BoundMethod, PyObj, _mangle
from .sym import TEnum, TInt, TSet, Unsupported, V

_EPOCHS_BODY = "return frozenset((EPOCH_SHORTCUTS[i] for i in shortcut))"


class DispatchTable(PyObj):
    def __init__(self, recv, clsname, attr, groups):
        self.recv, self.clsname, self.attr, self.groups = recv, clsname, attr, groups  # groups: [(keys, method, epoch values)]


class TableRow(PyObj):
    def __init__(self, handler, epochs):
        self.handler, self.epochs = handler, epochs


class DispatchMixin:
    def dispatch_table(self, recv: V, clsname, attr_mangled):
        """DispatchTable for recv.<attr> if (declaring class, plain attribute name) is a declared table, else None"""
        declared = self.registry.consts.get("DISPATCH_TABLES", ())
        for (cn, plain) in declared:
            if _mangle(plain, cn) != attr_mangled:
                continue
            info = self.index.cls(clsname)
            if info is None or not any(c.name == cn for c in self.index.mro(info)):
                continue
            cache = self.index.__dict__.setdefault("_dispatch_cache", {})
            if (cn, plain) not in cache:
                cache[(cn, plain)] = _parse_table(self.index, self.index.cls(cn), plain)
            return DispatchTable(recv, cn, plain, cache[(cn, plain)])
        return None

    def table_subscript(self, table: DispatchTable, key: V, node):
        if not (isinstance(key, V) and key.ty == TInt):
            raise Unsupported("dispatch table subscript with a key of type %s" % getattr(key, "ty", type(key).__name__))
        if self.spec:
            raise Unsupported("dispatch table in a specification")
        for keys, method, epochs in table.groups:
            if self.ctx.branch(z3.Or(*[key.t == z3.IntVal(k) for k in keys])):
                s = z3.K(z3.IntSort(), z3.BoolVal(False))
                for e in epochs:
                    s = z3.Store(s, z3.IntVal(e), z3.BoolVal(True))
                bm = BoundMethod(table.recv, table.clsname, method)
                bm.via_table = True
                return TableRow(bm, V(TSet(TInt), s))
        raise PyRaise("KeyError", implicit="key outside the dispatch table %s.%s" % (table.clsname, table.attr), site=getattr(node, "lineno", None))

    def call_via_table(self, callee, args, kwargs, node):
        """S3: modular call, then total havoc on every outcome"""
        try:
            r = self.call_method(callee.recv, callee.name, args, kwargs, node)
        except PyRaise:
            self.havoc_all_but([])
            raise
        self.havoc_all_but([])
        return r


def _parse_table(index, info, plain):
    attr = plain
    init = info.methods.get("__init__")
    if init is None:
        raise Unsupported("dispatch table %s.%s: no __init__" % (info.name, plain))

    def is_attr(n):
        return isinstance(n, ast.Attribute) and n.attr == attr and isinstance(n.value, ast.Name) and n.value.id == "self"

    # T1: one unconditional assignment in __init__ ...
    assigns = [st for st in init.body if isinstance(st, ast.Assign) and len(st.targets) == 1 and is_attr(st.targets[0])]
    if len(assigns) != 1 or not isinstance(assigns[0].value, ast.Dict):
        raise Unsupported("dispatch table %s.%s: not exactly one top-level dict-display assignment in __init__" % (info.name, plain))
    target = assigns[0].targets[0]
    # ... and every other occurrence in the class is `self.<attr>[k]` in load context
    for meth in info.node.body:
        parents = {}
        for p in ast.walk(meth):
            for ch in ast.iter_child_nodes(p):
                parents[id(ch)] = p
        for n in ast.walk(meth):
            if isinstance(n, ast.Attribute) and n.attr == attr and n is not target:
                p = parents.get(id(n))
                ok = is_attr(n) and isinstance(n.ctx, ast.Load) and isinstance(p, ast.Subscript) and p.value is n and isinstance(p.ctx, ast.Load)
                if not ok:
                    raise Unsupported("dispatch table %s.%s: used other than as self.%s[key] (line %s)" % (info.name, plain, plain, getattr(n, "lineno", "?")))
    mangled = _mangle(plain, info.name)
    if mangled != plain:
        for m in index.modules.values():
            if mangled in m.text:
                raise Unsupported("dispatch table %s.%s: mangled name used in %s" % (info.name, plain, m.rel))
    else:
        raise Unsupported("dispatch table %s.%s: only class-private (double underscore) attributes are supported" % (info.name, plain))
    # T3: EPOCHS / EPOCH_SHORTCUTS
    mod = info.module
    fn = mod.functions.get("EPOCHS")
    body = [st for st in (fn.body if fn else []) if not (isinstance(st, ast.Expr) and isinstance(st.value, ast.Constant))]
    if fn is None or len(body) != 1 or ast.unparse(body[0]) != _EPOCHS_BODY or [a.arg for a in fn.args.args] != ["shortcut"]:
        raise Unsupported("dispatch table: EPOCHS is not the expected one-line function")
    sc = mod.consts.get("EPOCH_SHORTCUTS")
    if not isinstance(sc, ast.Dict):
        raise Unsupported("dispatch table: EPOCH_SHORTCUTS is not a dict display")
    if sum(1 for st in ast.walk(mod.tree) if isinstance(st, ast.Name) and st.id == "EPOCH_SHORTCUTS" and isinstance(st.ctx, ast.Store)) != 1:
        raise Unsupported("dispatch table: EPOCH_SHORTCUTS is assigned more than once")
    letters = {}
    for k, v in zip(sc.keys, sc.values):
        if not (isinstance(k, ast.Constant) and isinstance(k.value, str) and len(k.value) == 1 and isinstance(v, ast.Attribute)):
            raise Unsupported("dispatch table: EPOCH_SHORTCUTS entry")
        en = v.value.attr if isinstance(v.value, ast.Attribute) else getattr(v.value, "id", None)
        ec = index.cls(en)
        if ec is None or not ec.is_enum or v.attr not in ec.enum_members:
            raise Unsupported("dispatch table: EPOCH_SHORTCUTS value %s" % ast.unparse(v))
        val = ec.enum_members[v.attr]
        if not isinstance(val, int):
            val = list(ec.enum_members).index(v.attr)
        letters[k.value] = val
    # T2: rows
    rows = {}
    d = assigns[0].value
    for k, v in zip(d.keys, d.values):
        if not (isinstance(k, ast.Constant) and isinstance(k.value, int) and not isinstance(k.value, bool)) or k.value in rows:
            raise Unsupported("dispatch table %s.%s: key %s" % (info.name, plain, ast.unparse(k) if k is not None else "**"))
        if not (isinstance(v, ast.Tuple) and len(v.elts) == 2):
            raise Unsupported("dispatch table %s.%s: row %s is not a pair" % (info.name, plain, ast.unparse(k)))
        h, e = v.elts
        if not (isinstance(h, ast.Attribute) and isinstance(h.value, ast.Name) and h.value.id == "self" and h.attr in info.methods and h.attr not in info.properties):
            raise Unsupported("dispatch table %s.%s: handler %s is not a method of the class" % (info.name, plain, ast.unparse(h)))
        if not (isinstance(e, ast.Call) and isinstance(e.func, ast.Name) and e.func.id == "EPOCHS" and len(e.args) == 1 and not e.keywords
                and isinstance(e.args[0], ast.Constant) and isinstance(e.args[0].value, str) and all(ch in letters for ch in e.args[0].value)):
            raise Unsupported("dispatch table %s.%s: epoch column %s" % (info.name, plain, ast.unparse(e)))
        rows[k.value] = (h.attr, frozenset(letters[ch] for ch in e.args[0].value))
    handlers = {h for h, _e in rows.values()}
    for n in ast.walk(info.node):
        if isinstance(n, ast.Attribute) and n.attr in handlers and isinstance(n.ctx, (ast.Store, ast.Del)):
            raise Unsupported("dispatch table %s.%s: handler %s is assigned as an attribute" % (info.name, plain, n.attr))
    groups = {}
    for k in sorted(rows):
        groups.setdefault(rows[k], []).append(k)
    return [(keys, h, sorted(e)) for (h, e), keys in groups.items()]
