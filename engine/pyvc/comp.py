"""List comprehensions of the FILTER form  `[x for x in <list> if <pred(x)>]`  (mixin for Interp).

Semantics implemented (and nothing else; every other comprehension shape stays Unsupported -> undecided):

  R = [x for x in L if P(x)]      with L a list value, x a plain name, the element expression exactly `x`,
                                  one generator, one or more `if` clauses (conjoined), not async

is a NEW list R = (n', a') related to L = (n, a) by two fresh index maps

  src : positions of R -> positions of L        dst : kept positions of L -> positions of R

  (F1) 0 <= n' <= n
  (F2) forall k in [0,n').   0 <= src[k] < n  and  a'[k] == a[src[k]]  and  P(a[src[k]])
  (F3) forall j < k in [0,n').   src[j] < src[k]                                   (order kept, no position twice)
  (F4) forall i in [0,n).   P(a[i])  ->  0 <= dst[i] < n'  and  src[dst[i]] == i   (every kept element is there)

These four facts hold of Python's filter for src = the increasing enumeration of {i | P(a[i])} and dst its
inverse, and they determine R uniquely, so assuming them for a fresh R is sound and loses nothing.

P must be evaluable without side effects and without any possible failure: its syntax is restricted to names,
attributes, constants, comparisons, `not`, and/or and arithmetic (no calls, no subscripts), and it is evaluated
in strict pure mode: any implicit failure site (None dereference, ordering with None, ...) whose guard is not
literally true makes the comprehension Unsupported instead of being silently skipped.

The comprehension variable lives in its own scope (Python 3), L is evaluated once in the enclosing scope.
The maps are exposed to contract clauses as the locals `_lc<n>_src` / `_lc<n>_dst`, n = ordinal of the
comprehension in the function's source order (witnesses for the existential "is an element of").
"""
from __future__ import annotations

import ast

import z3

from . import sym
from .sym import TArr, TInt, TList, Unsupported, V

_PURE_NODES = (
    ast.Name, ast.Attribute, ast.Constant, ast.Compare, ast.BoolOp, ast.UnaryOp, ast.BinOp, ast.Load,
    ast.And, ast.Or, ast.Not, ast.USub, ast.Lt, ast.LtE, ast.Gt, ast.GtE, ast.Eq, ast.NotEq, ast.Is, ast.IsNot,
    ast.Add, ast.Sub, ast.Mult,
)


class CompMixin:
    def _listcomp_filter(self, node, env):
        if self.spec:
            raise Unsupported("list comprehension in a specification")
        if len(node.generators) != 1:
            raise Unsupported("list comprehension with several generators")
        gen = node.generators[0]
        if gen.is_async or not isinstance(gen.target, ast.Name) or not gen.ifs:
            raise Unsupported("list comprehension shape (only `[x for x in L if P(x)]`)")
        var = gen.target.id
        if not (isinstance(node.elt, ast.Name) and node.elt.id == var):
            raise Unsupported("list comprehension with a mapped element (only filters)")
        for cond in gen.ifs:
            for sub in ast.walk(cond):
                if not isinstance(sub, _PURE_NODES):
                    raise Unsupported("list comprehension predicate uses %s" % type(sub).__name__)
        src_list = self.evalv(gen.iter, env)
        if not isinstance(src_list.ty, TList):
            raise Unsupported("list comprehension over %s" % src_list.ty)
        ety = src_list.ty.elem
        n, a = sym.list_len(src_list), z3.simplify(sym.list_arr(src_list))

        def pred(elem_term):
            loc = dict(env.locals)
            loc[var] = V(ety, elem_term)
            e2 = env.child(loc)
            self.spec += 1
            self.strict_pure = getattr(self, "strict_pure", 0) + 1
            try:
                ts = [self.truth(self.evalv(c, e2)) for c in gen.ifs]
            finally:
                self.strict_pure -= 1
                self.spec -= 1
            return z3.And(*ts) if len(ts) > 1 else ts[0]

        fn = getattr(env, "func", None)
        comps = sorted([x for x in ast.walk(fn) if isinstance(x, ast.ListComp)], key=lambda x: (x.lineno, x.col_offset)) if fn is not None else []
        ordn = next((i for i, x in enumerate(comps) if x is node), len(comps))

        fresh = self.ctx.fresh_const
        I = z3.IntSort()
        n2 = fresh(I, "lc%d_len" % ordn)
        a2 = fresh(z3.ArraySort(I, sym.sort_of(ety)), "lc%d_arr" % ordn)
        src = fresh(z3.ArraySort(I, I), "lc%d_src" % ordn)
        dst = fresh(z3.ArraySort(I, I), "lc%d_dst" % ordn)
        j, k, i = fresh(I, "lcj"), fresh(I, "lck"), fresh(I, "lci")
        sk, di = z3.Select(src, k), z3.Select(dst, i)
        A = self.ctx.assume
        A(z3.And(0 <= n2, n2 <= n))  # F1
        A(z3.ForAll([k], z3.Implies(z3.And(0 <= k, k < n2),
                                    z3.And(0 <= sk, sk < n, z3.Select(a2, k) == z3.Select(a, sk), pred(z3.Select(a, sk)))),
                    patterns=[z3.Select(a2, k), sk]))  # F2
        A(z3.ForAll([j, k], z3.Implies(z3.And(0 <= j, j < k, k < n2), z3.Select(src, j) < sk),
                    patterns=[z3.MultiPattern(z3.Select(src, j), sk)]))  # F3
        A(z3.ForAll([i], z3.Implies(z3.And(0 <= i, i < n, pred(z3.Select(a, i))),
                                    z3.And(0 <= di, di < n2, z3.Select(src, di) == i)),
                    patterns=[di]))  # F4
        env.locals["_lc%d_src" % ordn] = V(TArr(TInt, TInt), src)
        env.locals["_lc%d_dst" % ordn] = V(TArr(TInt, TInt), dst)
        return sym.list_mk(ety, n2, a2)

    def sp_sel(self, node, env):
        """sel(lst, i): spec-only raw element select of a list value at position i, WITHOUT Python's negative-index
        normalisation (at()/lst[i] produce If(i < 0, i + len, i), which blocks quantifier triggers).  For
        0 <= i < len(lst) it is lst[i]; outside that range it denotes an unspecified cell, so clauses must guard
        the index (as every clause using it does)."""
        self.spec += 1
        try:
            lst = self.evalv(node.args[0], env)
            i = self.evalv(node.args[1], env)
        finally:
            self.spec -= 1
        if not isinstance(lst.ty, TList):
            raise Unsupported("sel() of %s" % lst.ty)
        return V(lst.ty.elem, z3.Select(sym.list_arr(lst), sym.as_int(i)))
