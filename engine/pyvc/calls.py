"""Calls: builtins, spec builtins, inlining, calls by contract (mixin for Interp)."""
from __future__ import annotations

import ast

import z3

from . import sym
from .core import PathEnd, PyBreak, PyContinue, PyRaise, PyReturn
from .interp import EmptyLiteral, I, ModAttr, StarArg, UFunc, floordiv
from .model import BoundMethod, ClassRef, Closure, Env, FuncRef, ModRef, Partial, PyObj, SpecFunc, _mangle
from .sym import (NONE, TAny, TArr, TBool, TBytes, TDict, TEnum, TFunc, TInt, TList, TNone, TOpt, TRange, TReal,
                  TRef, TSet, TStr, TTuple, Unsupported, V)

MAX_DEPTH = 12


def _is_logger(node):
    if isinstance(node, ast.Name) and node.id == "logger":
        return True
    return isinstance(node, ast.Attribute) and node.attr in ("_logger", "__logger") and isinstance(node.value, ast.Name) and node.value.id == "self"


def nonlocal_names(fn):
    """names declared `nonlocal` in the body of the nested function `fn` (not looking into functions nested deeper)"""
    out = []
    todo = list(fn.body)
    while todo:
        st = todo.pop()
        if isinstance(st, ast.Nonlocal):
            out.extend(st.names)
        elif isinstance(st, (ast.FunctionDef, ast.AsyncFunctionDef, ast.ClassDef, ast.Lambda)):
            continue
        else:
            todo.extend(c for c in ast.iter_child_nodes(st) if isinstance(c, ast.stmt))
    return out


class CallMixin:
    # ------------------------------------------------------------------ spec helpers
    def parse_clause(self, s):
        cache = self.__dict__.setdefault("_clause_cache", {})
        if s not in cache:
            cache[s] = ast.parse(s.strip(), mode="eval").body
        return cache[s]

    def spec_val(self, clause, env):
        self.spec += 1
        try:
            return self.eval(self.parse_clause(clause), env)
        finally:
            self.spec -= 1

    def spec_bool(self, clause, env):
        v = self.spec_val(clause, env)
        return self.truth(v)

    # ------------------------------------------------------------------ Call
    def e_Call(self, node, env):
        f = node.func
        if isinstance(f, ast.Name):
            name = f.id
            if name not in env.locals:
                sp = getattr(self, "sp_" + name, None)
                if sp is not None:
                    return sp(node, env)
                bi = getattr(self, "bi_" + name, None)
                if bi is not None:
                    return bi(node, env)
        if isinstance(f, ast.Attribute) and _is_logger(f.value):
            # stdlib logging: arguments are evaluated, the call itself is dropped (trusted: neither raises nor
            # touches modelled state) - DESIGN 2.1
            self.trusted_used.add("logging.Logger.%s (dropped)" % f.attr)
            for a in node.args:
                try:
                    self.eval(a, env)
                except Unsupported:
                    pass
            return NONE
        if any(isinstance(a, ast.Starred) for a in node.args):
            # f(x, *rest): supported only for opaque callables (their arguments are not interpreted)
            callee = self.eval(f, env)
            if isinstance(callee, V) and (callee.ty == TFunc or (isinstance(callee.ty, TOpt) and callee.ty.inner == TFunc)):
                args = [self.eval(a.value if isinstance(a, ast.Starred) else a, env) for a in node.args]
                if node.keywords:
                    raise Unsupported("keywords with *args")
                return self.call_value(callee, args, {}, node, env)
            # other callees: eval_args expands tuples of known arity / passes an opaque tuple as one StarArg
        if isinstance(f, ast.Attribute) and f.attr == "join" and len(node.args) == 1 and isinstance(node.args[0], ast.GeneratorExp) and not node.keywords and not self.spec:
            # (C03) `sep.join(<generator expression>)`: the generator is consumed completely and immediately, so it is the
            # list comprehension with the same clauses (over-approximated as in _listcomp_map: element expression executed
            # for one arbitrary position, no side effects); the joined string is what the "str.join" stub says
            ge = node.args[0]
            lc = ast.copy_location(ast.ListComp(elt=ge.elt, generators=ge.generators), ge)
            recv = self.evalv(f.value, env)
            return self.value_method(recv, "join", [self.eval(lc, env)], {}, node, env)
        args, kwargs = self.eval_args(node, env)
        if isinstance(f, ast.Attribute):
            # method on super()
            if isinstance(f.value, ast.Call) and isinstance(f.value.func, ast.Name) and f.value.func.id == "super":
                base_info = self.index.mro(env.cls)[1]
                owner, meth = self.index.find_method(base_info, f.attr)
                return self.call_function(owner.module, meth, owner, env.locals["self"], args, kwargs, node)
        callee = self.eval(f, env)
        return self.call_value(callee, args, kwargs, node, env)

    def eval_args(self, node, env):
        args = []
        for a in node.args:
            if isinstance(a, ast.Starred):
                # f(x, *t): a tuple of statically known arity is expanded; an opaque tuple is passed on as ONE
                # StarArg, accepted only by external stubs (parameter name `star`) and by `*name` parameters
                sv = self.eval(a.value, env)
                if isinstance(sv, V) and isinstance(sv.ty, TTuple):
                    args.extend(sym.tuple_get(sv, i) for i in range(len(sv.ty.items)))
                elif isinstance(sv, V) and sv.ty == TAny and a is node.args[-1]:
                    args.append(StarArg(sv))
                else:
                    raise Unsupported("*args")
                continue
            args.append(self.eval(a, env))
        kwargs = {}
        for k in node.keywords:
            if k.arg is None:
                raise Unsupported("**kwargs")
            kwargs[k.arg] = self.eval(k.value, env)
        return args, kwargs

    def call_value(self, callee, args, kwargs, node, env):
        if any(isinstance(a, StarArg) for a in args) and not isinstance(callee, (FuncRef, BoundMethod, ModAttr)):
            raise Unsupported("*args")
        if isinstance(callee, SpecFunc):
            return self.expand_spec(callee, args, kwargs, env)
        if isinstance(callee, UFunc):
            return self.apply_ufunc(callee.name, args)
        if isinstance(callee, FuncRef):
            return self.call_function(callee.module, callee.node, callee.cls, None, args, kwargs, node)
        if isinstance(callee, ClassRef):
            return self.construct(callee.info, args, kwargs, node)
        if isinstance(callee, BoundMethod):
            if getattr(callee, "via_table", False):
                return self.call_via_table(callee, args, kwargs, node)  # dispatch.py, S3
            if callee.cls is None:
                return self.value_method(callee.recv, callee.name, args, kwargs, node, env)
            return self.call_method(callee.recv, callee.name, args, kwargs, node)
        if isinstance(callee, Closure):
            return self.call_closure(callee, args, kwargs)
        if isinstance(callee, Partial):
            # functools.partial: stored positional arguments first, stored keywords overridden by the call's keywords
            kw = dict(callee.kwargs)
            kw.update(kwargs)
            return self.call_value(callee.fn, list(callee.args) + list(args), kw, node, env)
        if isinstance(callee, ModAttr):
            return self.module_call(callee, args, kwargs, node)
        if isinstance(callee, V) and callee.ty == TFunc:
            return self.call_opaque(callee, args, kwargs, node)
        if isinstance(callee, V) and isinstance(callee.ty, TOpt) and callee.ty.inner == TFunc:
            self.fail(z3.Not(sym.opt_is_none(callee)), "TypeError", "calling None", node)
            inner = sym.opt_val(callee)
            inner.origin = callee.origin
            return self.call_opaque(inner, args, kwargs, node)
        raise Unsupported("call of %s" % (type(callee).__name__,))

    def call_opaque(self, callee, args, kwargs, node):
        """Call of a callable read from an object field (a callback installed by the embedding code).
        Semantics: the callee is code OUTSIDE the class under verification; the trusted `callback=True` contract
        registered under "<DeclaringClass>.<field>" describes it (clause names: self = the object holding the field,
        a0, a1, ... = positional arguments, keywords by name).  Only the locations in its `modifies` (ghost event
        logs) are havocked; it may raise what its `raises` declares.  That it does not write the holder's own
        fields (no re-entry into the object) is an assumption recorded in the evidence.  No contract -> Unsupported."""
        origin = getattr(callee, "origin", None)
        if origin is not None and origin[0] == "field":
            _, ref_t, owner, fname, _ty = origin
            key = "%s.%s" % (owner, fname)
            c = self.registry.contracts.get(key)
            if c is not None and c.callback and c.trusted:
                if any(isinstance(a, StarArg) for a in args):
                    raise Unsupported("*args to a callback")
                self.assumptions_used.add("callbacks stored in fields (%s) are external code that does not re-enter or write the object holding them; they may raise only what their stub declares" % key)
                loc = {"a%d" % i: a for i, a in enumerate(args)}
                loc.update(kwargs)
                loc["self"] = V(TRef(owner), ref_t)
                env = Env(loc, None)
                return self.apply_contract(c, env, key, None, node, ret_ty=self.types.parse_str(c.returns) if c.returns else TNone)
        # C17: a callable PARAMETER of the function under verification (e.g. `func` of tls.pull_list): described by the
        # trusted `callback=True` contract registered under "<function>.<parameter>" (clause names: the parameters of
        # the function under verification with their ENTRY values - heap reads see the current heap -, a0, a1, ... = the
        # arguments of this call).  Same semantics as a callback stored in a field: only its `modifies` are havocked, it
        # may raise what `raises` declares.
        tenv = getattr(self, "top_env", None)
        if tenv is not None and tenv.old is not None and isinstance(callee, V):
            for pname, pv in tenv.old.locals.items():
                if isinstance(pv, V) and pv.ty == TFunc and pv.t.eq(callee.t):
                    key = "%s.%s" % (self.callee_stack[0].split("#")[0] if self.callee_stack else "?", pname)
                    c = self.registry.contracts.get(key)
                    if c is not None and c.callback and c.trusted:
                        if any(isinstance(a, StarArg) for a in args):
                            raise Unsupported("*args to a callback")
                        self.assumptions_used.add("callable parameter %s is external code described by its stub: it touches only the locations in its modifies and raises only what the stub declares" % key)
                        loc = dict(tenv.old.locals)
                        loc.update({"a%d" % i: a for i, a in enumerate(args)})
                        loc.update(kwargs)
                        env = Env(loc, tenv.module)
                        return self.apply_contract(c, env, key, None, node, ret_ty=self.types.parse_str(c.returns) if c.returns else TNone)
        return self.opaque_call(callee, args, node, getattr(self, "cur_env", None))  # dictiter.py (Unsupported without an opaque-call policy)

    def apply_ufunc(self, name, args):
        """application of an uninterpreted function declared with R.ufunc (z3 Function; congruence only)"""
        atys, rty = self.registry.ufuncs[name]
        tys = [self.types.parse_str(t) for t in atys]
        rt = self.types.parse_str(rty)
        if len(args) != len(tys):
            raise Unsupported("ufunc %s arity" % name)
        f = z3.Function("uf_" + name, *([sym.sort_of(t) for t in tys] + [sym.sort_of(rt)]))
        ts = []
        for a, t in zip(args, tys):
            if not isinstance(a, V):
                raise Unsupported("ufunc %s applied to a python object" % name)
            ts.append(sym.coerce(a, t).t)
        return V(rt, f(*ts))

    def call_closure(self, clo: Closure, args, kwargs):
        n = clo.node
        if isinstance(n, ast.Lambda):
            names = [a.arg for a in n.args.args]
            loc = dict(clo.env.locals)
            for nm, a in zip(names, args):
                loc[nm] = a
            return self.eval(n.body, clo.env.child(loc))
        # nested def: inline
        loc = dict(clo.env.locals)
        loc.update(self.bind_args(n, None, args, kwargs, clo.env.module, None))
        e2 = clo.env.child(loc)
        e2.contract, e2.fname = None, n.name
        nl = nonlocal_names(n)
        if nl and getattr(self, "loop_stack", None):
            # (added for the TLS parsers) the closure rebinds variables of its defining scope and is called from the
            # "one arbitrary iteration" of a loop: sound only if that loop's head havocked those variables (stmts.loop
            # does so for closures that are locals / parameters of the frame the loop runs in)
            hv = getattr(self, "nonlocal_havocked", set())
            for name in nl:
                if (id(clo.env.locals), name) not in hv:
                    raise Unsupported("closure %s rebinds nonlocal %s inside a loop that did not havoc it" % (n.name, name))
        try:
            return self.run_body(n, e2)
        finally:
            # `nonlocal x`: assignments to x in the nested function rebind the variable of the DEFINING scope (also when
            # the nested function is left by an exception)
            for name in nl:
                if name in e2.locals:
                    clo.env.locals[name] = e2.locals[name]

    def module_call(self, ma: ModAttr, args, kwargs, node):
        key = "%s.%s" % (ma.mod, ma.attr)
        if key == "binascii.unhexlify" and len(args) == 1 and isinstance(args[0], V) and args[0].ty == TStr:
            # hex string CONSTANT -> the bytes it denotes (used for module-level constants such as the initial salts)
            for text, c in sym._str_consts.items():
                if c.eq(args[0].t):
                    import binascii

                    return sym.bytes_const(binascii.unhexlify(text))
        c = self.registry.contracts.get(key)
        if c is not None:
            return self.apply_stub(c, key, args, kwargs, node)
        raise Unsupported("external call %s" % key)

    def apply_stub(self, c, key, args, kwargs, node):
        """Trusted contract of an external function: params are named a0,a1,.. / keywords."""
        self.trusted_used.add(key)
        loc = {}
        for i, a in enumerate(args):
            if isinstance(a, StarArg):
                loc["star"] = a.v  # the unexpanded *tuple
            else:
                if isinstance(a, EmptyLiteral) and ("a%d" % i) in c.params:
                    # (C03) `[]` / the result of a comprehension over an empty iterable passed to a stub: the empty
                    # value of the parameter type the stub declares
                    a = self.materialize(a, self.types.parse_str(c.params["a%d" % i]))
                loc["a%d" % i] = a
        loc.update(kwargs)
        for pn, dflt in c.stub_defaults.items():
            # (C03) optional parameter of an external function that the call leaves out: its documented default
            # (contract key stub_defaults={"a2": "[]" | "None"})
            if pn not in loc:
                if dflt == "[]":
                    loc[pn] = self.materialize(EmptyLiteral("list"), self.types.parse_str(c.params[pn]))
                elif dflt == "None":
                    loc[pn] = sym.coerce(NONE, self.types.parse_str(c.params[pn]))
                else:
                    raise Unsupported("stub default %r" % dflt)
        env = Env(loc, None)
        return self.apply_contract(c, env, key, None, node, ret_ty=self.types.parse_str(c.returns) if c.returns else TNone)

    # ------------------------------------------------------------------ user functions
    def bind_args(self, fnode, recv, args, kwargs, module, contract):
        a = fnode.args
        params = [p.arg for p in a.args]
        loc = {}
        pos = list(args)
        if recv is not None and params and params[0] in ("self", "cls"):
            loc[params[0]] = recv
            params = params[1:]
            all_pos = a.args[1:]
        else:
            all_pos = a.args
        if pos and isinstance(pos[-1], StarArg):
            # f(..., *t) with opaque t: only when t lands exactly on the callee's *varargs parameter
            if a.vararg is None or len(pos) - 1 != len(params):
                raise Unsupported("*args")
            loc[a.vararg.arg] = pos.pop().v
        if len(pos) > len(params):
            raise Unsupported("too many positional arguments")
        for p, v in zip(params, pos):
            loc[p] = v
        kwonly = [p.arg for p in a.kwonlyargs]
        for k, v in kwargs.items():
            if k not in params and k not in kwonly:
                raise Unsupported("unexpected keyword %s" % k)
            loc[k] = v
        # defaults
        defaults = dict(zip([p.arg for p in all_pos][len(all_pos) - len(a.defaults):], a.defaults))
        for p, d in zip(a.kwonlyargs, a.kw_defaults):
            if d is not None:
                defaults[p.arg] = d
        denv = Env({}, module)
        for p in params + kwonly:
            if p not in loc:
                if p not in defaults:
                    raise Unsupported("missing argument %s" % p)
                loc[p] = self.eval(defaults[p], denv)
        self._raw_args = dict(loc)  # actual argument values before coercion (call_asserts of the caller's contract)
        # coerce to declared parameter types
        for p in a.args + a.kwonlyargs:
            ty = self.param_type(p, module, contract)
            v = loc.get(p.arg)
            if ty is not None and isinstance(v, (V, EmptyLiteral)):
                if isinstance(v, V) and isinstance(v.ty, TOpt) and not isinstance(ty, TOpt) and ty != TAny and not self.spec and contract is not None and not contract.inline and (not contract.trusted or ("%s is not None" % p.arg) in " ".join(contract.requires)):
                    # Optional value passed for a parameter that the callee's contract types as present (a verified callee was
                    # verified for present values only; a trusted stub says so in its requires): "is not None" is an
                    # obligation at the call site, then the value is unwrapped for the callee's clauses
                    self.ctx.oblige("%s:call:%s.%s-present" % (self.callee_stack[-1] if self.callee_stack else "?", fnode.name, p.arg), "call-requires", z3.Not(sym.opt_is_none(v)), note="%s is not None" % p.arg)
                    v = sym.opt_val(v)
                try:
                    loc[p.arg] = self.materialize(v, ty) if isinstance(v, EmptyLiteral) else sym.coerce(v, ty)
                except Unsupported:
                    if isinstance(v, V) and (ty == TAny or "any" in ty.name.replace("Optional", "").lower().split("[")[-1]):
                        pass  # annotation mentions Any (e.g. Optional[list[Any]]): every value is acceptable, keep it as it is
                    else:
                        raise
        return loc

    def param_type(self, p, module, contract):
        if contract is not None and p.arg in contract.params:
            return self.types.parse_str(contract.params[p.arg], module)
        if p.annotation is None:
            return None
        try:
            return self.types.parse(p.annotation, module)
        except Unsupported:
            return None

    def call_method(self, recv: V, name, args, kwargs, node):
        if isinstance(recv.ty, TOpt):
            self.fail(z3.Not(sym.opt_is_none(recv)), "AttributeError", "None.%s()" % name, node)
            recv = sym.opt_val(recv)
        info = self.index.cls(recv.ty.cls)
        owner, meth = self.index.find_method(info, name)
        if meth is None:
            raise Unsupported("no method %s.%s" % (recv.ty.cls, name))
        return self.call_function(owner.module, meth, owner, recv, args, kwargs, node, static_cls=recv.ty.cls)

    def call_function(self, module, fnode, cls, recv, args, kwargs, node, static_cls=None):
        clsname = cls.name if cls is not None else None
        contract = None
        if static_cls:
            contract = self.registry.lookup(static_cls, fnode.name)
        if contract is None:
            contract = self.registry.lookup(clsname, fnode.name, module.rel)
        cs_ = self.registry.contracts.get("%s!call" % (("%s.%s" % (static_cls or clsname, fnode.name)) if (static_cls or clsname) else fnode.name))
        if cs_ is not None and not self.spec:
            # "<Cls.fn>!call": CALL-SITE SUMMARY of a function whose own contract (key "<Cls.fn>") is verified elsewhere - a
            # separate contract object derived from it (e.g. exception classes renamed to what the caller's callbacks
            # raise, total heap havoc), so that refining the view of callers never touches what the function is verified
            # against (before, contracts/quic_noraise.py mutated the contract of tls.Context.handle_message in place)
            contract = cs_
        if recv is None and cls is not None:
            # unbound call Class.method(obj, ...) or staticmethod
            is_static = any(getattr(d, "id", None) == "staticmethod" for d in fnode.decorator_list)
            if not is_static and args:
                recv, args = args[0], args[1:]
        key = ("%s.%s" % (clsname, fnode.name)) if clsname else fnode.name
        loc = self.bind_args(fnode, recv, args, kwargs, module, contract)
        cenv = getattr(self, "cur_env", None)
        ccon = getattr(cenv, "contract", None) if cenv is not None else None
        if ccon is not None and not self.spec and getattr(ccon, "call_asserts", None) and key in ccon.call_asserts and len(self.callee_stack) <= 1:
            # obligations of the CALLER about what it passes (registry.Contract.call_asserts)
            saved = dict(cenv.locals)
            try:
                for pn, pv in self._raw_args.items():
                    if isinstance(pv, V):
                        cenv.locals["arg_" + pn] = pv
                for j, cl in enumerate(ccon.call_asserts[key]):
                    self.ctx.oblige("%s:call@%s:%s.passes.%d" % (self.callee_stack[-1] if self.callee_stack else "?", getattr(node, "lineno", None), key, j), "call-assert", self.spec_bool(cl, cenv), site=getattr(node, "lineno", None), note=cl)
            finally:
                for k in list(cenv.locals):
                    if k.startswith("arg_") and k not in saved:
                        del cenv.locals[k]
        env = Env(loc, module, cls, fnode)
        env.fname = key
        env.contract = contract
        if contract is not None and not contract.inline:
            ret_ty = self.return_type(fnode, module, contract)
            return self.apply_contract(contract, env, key, recv, node, ret_ty)
        if contract is None and key not in self.registry.consts.get("AUTO_INLINE", ()) and not self.spec:
            if not self.registry.consts.get("INLINE_ALL", False):
                raise Unsupported("call to %s without contract" % key)
        return self.inline(fnode, env, key)

    def return_type(self, fnode, module, contract):
        if contract is not None and contract.returns:
            return self.types.parse_str(contract.returns, module)
        if fnode.returns is None:
            return TNone
        return self.types.parse(fnode.returns, module)

    def inline(self, fnode, env, key):
        if self.depth > MAX_DEPTH:
            raise Unsupported("inline depth")
        self.depth += 1
        saved_env = getattr(self, "cur_env", None)
        try:
            env.anchors = {}
            # types of `xs = []` locals declared by the inlined callee's own contract (locals=) apply to its inlined body too
            c_ = getattr(env, "contract", None)
            env.local_types = {n: self.types.parse_str(t, env.module) for n, t in c_.local_types.items()} if c_ is not None else {}
            return self.run_body(fnode, env)
        finally:
            self.depth -= 1
            self.cur_env = saved_env

    def run_body(self, fnode, env):
        if not hasattr(env, "contract"):
            env.contract = None
        if not hasattr(env, "fname"):
            env.fname = fnode.name
        try:
            self.exec_block(fnode.body, env)
        except PyReturn as r:
            return r.value
        return NONE

    def construct(self, info, args, kwargs, node):
        if any(isinstance(a, StarArg) for a in args):
            raise Unsupported("*args")
        if info.is_enum:
            v = args[0]
            if not self.spec and isinstance(v, V) and v.ty != TEnum(info.name):
                # Enum(value) looks the value up among the members: ValueError("x is not a valid <Enum>") for any other
                # value (added for C05: an Enum constructor applied to a peer-supplied integer is a raise site)
                iv = sym.as_int(v)
                vals = [x if isinstance(x, int) else list(info.enum_members).index(k) for k, x in info.enum_members.items()]
                self.fail(z3.Or(*[iv == z3.IntVal(int(x)) for x in vals]) if vals else z3.BoolVal(False), "ValueError", "%s(value): not a valid member" % info.name, node)
            return V(TEnum(info.name), sym.as_int(v))
        if self.index.exc_is_subclass(info.name, "BaseException"):
            # exception object as a value (e.g. passed to a helper that raises it later): a python-level handle that
            # `raise <name>` re-raises with the class it was built from (same representation as `except ... as e`)
            from .stmts import ExcValue

            return ExcValue(PyRaise(info.name, list(args), dict(kwargs), site=getattr(node, "lineno", None)))
        obj = self.new_object(info.name)
        _, init = self.index.find_method(info, "__init__")
        if info.dataclass and init is None:
            model = self.model(info.name)
            names = [f for c in reversed(self.index.mro(info)) for f in c.ann]
            vals = {}
            for n, a in zip(names, args):
                vals[n] = a
            vals.update(kwargs)
            for c in reversed(self.index.mro(info)):
                for n in c.ann:
                    if n not in vals:
                        if n not in c.defaults:
                            raise Unsupported("missing dataclass field %s" % n)
                        d = c.defaults[n]
                        if isinstance(d, ast.Call) and getattr(d.func, "id", None) == "field":
                            fac = [k.value for k in d.keywords if k.arg == "default_factory"]
                            if fac and isinstance(fac[0], ast.Name) and fac[0].id in ("list", "dict"):
                                vals[n] = EmptyLiteral(fac[0].id)
                            else:
                                raise Unsupported("dataclass field factory")
                        else:
                            vals[n] = self.eval(d, Env({}, c.module))
                    v = vals[n]
                    ty = model.fields[n][1]
                    v = self.materialize(v, ty) if isinstance(v, EmptyLiteral) else self.from_any(v, ty)
                    if not isinstance(v, V):
                        v = V(TFunc, self.ctx.fresh_const(z3.IntSort(), "fn")) if ty in (TFunc, TOpt(TFunc)) else v
                    self.write_field(obj, n, v)
            return obj
        if init is None:
            return obj
        owner, init = self.index.find_method(info, "__init__")
        self.call_function(owner.module, init, owner, obj, args, kwargs, node, static_cls=info.name)
        return obj

    # ------------------------------------------------------------------ contracts at call sites
    def class_invariants(self, clsname):
        out = []
        info = self.index.cls(clsname)
        if info is None:
            return out
        for c in reversed(self.index.mro(info)):
            out.extend(self.registry.invariants.get(c.name, []))
        return out

    def apply_contract(self, c, env: Env, key, recv, node, ret_ty):
        site = getattr(node, "lineno", None)
        self.called_contracts.add(key)
        if c.trusted:
            self.trusted_used.add(key)
        caller = self.callee_stack[-1] if self.callee_stack else "?"
        env.old = Env(dict(env.locals), env.module, env.cls, env.func)
        env.old_heap = self.heap.copy()
        env.old.old, env.old.old_heap = env.old, env.old_heap
        if c.ghost_params:
            # ghost arguments: expressions over the CALLER's state, named by the caller's contract (ghost_args)
            cenv = getattr(self, "cur_env", None)
            supplied = (cenv.contract.ghost_args.get(key, {}) if cenv is not None and getattr(cenv, "contract", None) is not None else {})
            for gp, gty in c.ghost_params.items():
                if gp not in supplied:
                    raise Unsupported("call to %s: ghost parameter %s not supplied (ghost_args of the caller's contract)" % (key, gp))
                gv = self.spec_val(supplied[gp], cenv)
                gv = sym.coerce(gv, self.types.parse_str(gty, env.module))
                env.locals[gp] = gv
                env.old.locals[gp] = gv
        for k, e in c.let.items():
            env.locals[k] = self.spec_val(e, env)
            env.old.locals[k] = env.locals[k]
        invs = []
        if recv is not None and c.use_invariant and isinstance(recv.ty, TRef):
            invs = self.class_invariants(recv.ty.cls)
        is_init = env.func is not None and env.func.name == "__init__"
        if not self.spec:
            top = getattr(self, "top_cls", None)
            own = recv is not None and isinstance(recv.ty, TRef) and top is not None and recv.ty.cls == top
            if not is_init and not own:
                # visible-state invariants of a foreign receiver are known BEFORE its preconditions are checked
                for cl in invs:
                    self.ctx.assume(self.spec_bool(cl, env))
            for j, cl in enumerate(c.requires):
                self.ctx.oblige("%s:call@%s:%s.requires.%d" % (caller, site, key, j), "call-requires", self.spec_bool(cl, env), site=site, note=cl)
            if not is_init:
                own = recv is not None and isinstance(recv.ty, TRef) and top is not None and recv.ty.cls == top
                for j, cl in enumerate(invs):
                    if own:
                        self.ctx.oblige("%s:call@%s:%s.inv.%d" % (caller, site, key, j), "call-requires", self.spec_bool(cl, env), site=site, note=cl)
                    else:
                        # visible-state semantics: an object of ANOTHER class satisfies its class invariant whenever
                        # none of its own methods is running (every method of that class is proved to preserve it;
                        # direct writes to its invariant fields from outside are separate obligations)
                        self.ctx.assume(self.spec_bool(cl, env))
                        self.assumptions_used.add("visible-state invariants: objects of other classes satisfy their class invariant at call sites (preserved by each of their methods under contract)")
        # exceptional outcomes
        for exc, cond in c.raises.items():
            if self.spec:
                break
            if cond is None:
                b = self.ctx.fresh_const(z3.BoolSort(), "raises_" + exc)
                taken = self.ctx.branch(b)
            else:
                taken = self.ctx.branch(self.spec_bool(cond, env.old))
            if taken:
                rk = self.raise_kwargs(c, exc, env)
                self.havoc_modifies(c, env)
                for k, v in rk.items():
                    env.locals["exc_" + k] = v
                n_pc = len(self.ctx.pc)
                for cl in c.on_raise.get(exc, []):
                    self._assume_callee_clause(c, cl, env)
                if cond is None and len(self.ctx.pc) > n_pc and not self.ctx._feasible(z3.BoolVal(True)):
                    # "may raise" outcome whose on_raise clauses are contradicted by the state of THIS call (e.g. the callee
                    # promises `MessageError only for a frame that ends the stream` and the frame does not): the callee
                    # cannot raise this exception here.  The path condition was feasible when the outcome was chosen
                    # (ctx.branch), so the contradiction comes from the callee's own guarantee, not from the caller's
                    # assumptions: the path is infeasible and dropped (added for C16; before, the vacuity guard reported it)
                    from .core import PathEnd

                    raise PathEnd()
                for cl in invs:
                    self.ctx.assume(self.spec_bool(cl, env))
                raise PyRaise(exc, site=site, kwargs=rk)
        # normal outcome
        self.havoc_modifies(c, env)
        if ret_ty == TNone:
            res = NONE
        else:
            if c.allocates and c.trusted and isinstance(ret_ty, TRef) and not self.spec:
                # (C03) stub of an external CONSTRUCTOR (contract key allocates=True): the result is a new object,
                # distinct from every object that existed before (as for repository classes, new_object)
                res = self.new_object(ret_ty.cls)
            else:
                res = sym.fresh(ret_ty, self.ctx.fresh_name("ret_" + key.split(".")[-1]))
            for f in sym.wf(res):
                self.ctx.assume(f)
            if isinstance(ret_ty, TRef):
                self.ref_wf(res.t)
                self.note_ref(res.t)
            elif isinstance(ret_ty, TOpt) and isinstance(ret_ty.inner, TRef):
                self.ctx.assume(z3.Implies(z3.Not(sym.opt_is_none(res)), self.ref_wf_term(sym.opt_val(res).t)))
        env.result = res
        for cl in c.ensures:
            self._assume_callee_clause(c, cl, env)
        for cl in invs:
            self.ctx.assume(self.spec_bool(cl, env))
        return res

    def _assume_callee_clause(self, c, cl, env):
        """Assume a postcondition / on_raise clause of a callee at a call site.  Such clauses may mention LOCALS of the
        callee ("locals of the function are visible by name" - meaningful only when the callee itself is verified).  A
        clause that cannot be evaluated at the call site because it names such a local is SKIPPED: assuming fewer facts
        about the callee is always sound (added for C16: callers of H3Connection._handle_request_or_push_frame)."""
        try:
            t = self.spec_bool(cl, env)
        except Unsupported as u:
            if str(u).startswith("unbound name "):
                return
            raise
        self.ctx.assume(t)

    def raise_kwargs(self, c, exc, env):
        out = {}
        for attr, expr in c.raise_attrs.get(exc, {}).items():
            if expr.startswith("fresh:"):
                # "fresh:<type>": the attribute exists and is an ARBITRARY value of that type (nothing else is known)
                ty = self.types.parse_str(expr[len("fresh:"):].strip(), env.module)
                v = sym.fresh(ty, self.ctx.fresh_name("exc_" + attr))
                for f in sym.wf(v):
                    self.ctx.assume(f)
                out[attr] = v
                continue
            out[attr] = self.spec_val(expr, env.old)
        return out

    def havoc_modifies(self, c, env):
        for loc in c.modifies:
            if loc == "<opaque>":
                # the callee runs opaque callables: everything they may touch is unknown afterwards (dictiter.py)
                cfg = self.registry.consts.get("OPAQUE_CALL")
                if not cfg:
                    raise Unsupported("modifies '<opaque>' without OPAQUE_CALL declaration")
                for spec in getattr(self, "loop_stack", []):
                    if "<opaque>" not in spec.get("modifies", []):
                        raise Unsupported("call with opaque effects inside a loop whose spec does not declare modifies=['<opaque>']")
                self.assumptions_used.add("opaque callables: " + cfg["note"])
                self.havoc_all_but(cfg["preserves"])
                continue
            if loc == "<everything>":
                # the callee may write ANY field of ANY object (used for tls.Context.handle_message, which runs the
                # connection's own callbacks): total heap havoc, nothing preserved; locals of the caller are values and stay
                for spec in getattr(self, "loop_stack", []):
                    if "<everything>" not in spec.get("modifies", []):
                        raise Unsupported("call with modifies '<everything>' inside a loop whose spec does not declare modifies=['<everything>']")
                self.havoc_all_but([])
                continue
            self.havoc_location(loc, env.old if False else env)

    # ------------------------------------------------------------------ spec functions
    def expand_spec(self, sf: SpecFunc, args, kwargs, env):
        fn = sf.node
        names = [a.arg for a in fn.args.args]
        loc = {}
        for n, a in zip(names, args):
            loc[n] = a
        loc.update(kwargs)
        e2 = env.child(loc)
        e2.module = env.module
        e2.cls = None
        self.spec += 1
        try:
            for st in fn.body:
                if isinstance(st, ast.Return):
                    return self.eval(st.value, e2)
                if isinstance(st, ast.Assign):
                    self.assign(st.targets[0], self.eval(st.value, e2), e2)
                elif isinstance(st, ast.Expr) and isinstance(st.value, ast.Constant):
                    continue
                else:
                    raise Unsupported("spec function body statement %s" % type(st).__name__)
            raise Unsupported("spec function without return")
        finally:
            self.spec -= 1

    def sp_old(self, node, env):
        if env.old is None:
            raise Unsupported("old() outside contract")
        saved = self.heap
        self.heap = env.old_heap
        try:
            self.spec += 1
            e = env.old
            if env.locals is not env.old.locals:
                # bound variables of enclosing quantifiers/spec functions stay visible
                loc = dict(env.locals)
                loc.update(env.old.locals)
                e = env.old.child(loc)
                e.old, e.old_heap = env.old, env.old_heap
            if env.result is not None:
                if e is env.old:
                    e = env.old.child(dict(env.old.locals))
                    e.old, e.old_heap = env.old, env.old_heap
                e.result = env.result
            return self.eval(node.args[0], e)
        finally:
            self.spec -= 1
            self.heap = saved

    def _quant(self, node, env, is_forall):
        lam = node.args[0]
        if not isinstance(lam, ast.Lambda):
            raise Unsupported("quantifier needs a lambda")
        names = [a.arg for a in lam.args.args]
        tys = {}
        for a in lam.args.args:
            tys[a.arg] = TInt
        for kw in node.keywords:
            if kw.arg == "types":
                for k, v in ast.literal_eval(kw.value).items():
                    tys[k] = self.types.parse_str(v, env.module)
        loc = dict(env.locals)
        bound = []
        for n in names:
            c = z3.Const(self.ctx.fresh_name("q_" + n), sym.sort_of(tys[n]))
            bound.append(c)
            loc[n] = V(tys[n], c)
        e2 = env.child(loc)
        self.spec += 1
        saved_bound = getattr(self, "_bound_vars", [])
        self._bound_vars = saved_bound + bound  # read by sp_set_of (definitional extensions need closed terms)
        try:
            body = self.truth(self.evalv(lam.body, e2))
        finally:
            self.spec -= 1
            self._bound_vars = saved_bound
        pats = []
        for kw in node.keywords:
            if kw.arg == "pattern":
                self.spec += 1
                try:
                    elts = kw.value.elts if isinstance(kw.value, (ast.Tuple, ast.List)) else [kw.value]
                    pats.append(z3.MultiPattern(*[self.evalv(x, e2).t for x in elts]) if len(elts) > 1 else self.evalv(elts[0], e2).t)
                finally:
                    self.spec -= 1
        q = z3.ForAll if is_forall else z3.Exists
        if pats:
            try:
                return sym.mk_bool(q(bound, body, patterns=pats))
            except z3.Z3Exception:
                pass  # not a usable trigger in this state (e.g. a select on a lambda): let the solver choose
        return sym.mk_bool(q(bound, body))

    def sp_forall(self, node, env):
        return self._quant(node, env, True)

    def sp_exists(self, node, env):
        return self._quant(node, env, False)

    def sp_implies(self, node, env):
        self.spec += 1
        try:
            a = self.truth(self.evalv(node.args[0], env))
            if z3.is_false(z3.simplify(a)):
                return sym.mk_bool(True)  # lazy: the consequent may mention names that are unbound on this path
            try:
                b = self.truth(self.evalv(node.args[1], env))
            except Unsupported as u:
                # the consequent mentions a local that is not bound on this path: the implication still holds when the
                # antecedent is false on this path (proved, not assumed)
                if "unbound name" in str(u) and self.ctx.prove_quick(z3.Not(a), 300):
                    return sym.mk_bool(True)
                raise
        finally:
            self.spec -= 1
        return sym.mk_bool(z3.Implies(a, b))

    def sp_iff(self, node, env):
        self.spec += 1
        try:
            a = self.truth(self.evalv(node.args[0], env))
            b = self.truth(self.evalv(node.args[1], env))
        finally:
            self.spec -= 1
        return sym.mk_bool(a == b)

    def sp_ite(self, node, env):
        self.spec += 1
        try:
            c = self.truth(self.evalv(node.args[0], env))
            return sym.ite(c, self.evalv(node.args[1], env), self.evalv(node.args[2], env))
        finally:
            self.spec -= 1

    def sp_amap(self, node, env):
        """amap(lambda x: e): the total map x -> e (z3 Lambda); spec only."""
        lam = node.args[0]
        names = [a.arg for a in lam.args.args]
        loc = dict(env.locals)
        c = z3.Const(self.ctx.fresh_name("m_" + names[0]), z3.IntSort())
        loc[names[0]] = V(TInt, c)
        e2 = env.child(loc)
        self.spec += 1
        saved_bound = getattr(self, "_bound_vars", [])
        self._bound_vars = saved_bound + [c]
        try:
            body = self.evalv(lam.body, e2)
        finally:
            self.spec -= 1
            self._bound_vars = saved_bound
        return V(TArr(TInt, body.ty), z3.Lambda([c], body.t))

    def sp_set_of(self, node, env):
        """set_of(lst[, cond]): spec only - the SET of the elements of the list value `lst` (the empty set when the
        optional condition is false): { c | cond and exists i. 0 <= i < len(lst) and lst[i] == c } as a set[T] value."""
        self.spec += 1
        try:
            lst = self.evalv(node.args[0], env)
            cond = self.truth(self.evalv(node.args[1], env)) if len(node.args) > 1 else z3.BoolVal(True)
        finally:
            self.spec -= 1
        if isinstance(lst.ty, TOpt):
            lst = sym.opt_val(lst)
        if not isinstance(lst.ty, TList) or sym.sort_of(lst.ty.elem) != z3.IntSort():
            raise Unsupported("set_of(%s)" % lst.ty)
        # DEFINITIONAL EXTENSION instead of a z3 Lambda (array-valued lambdas as arguments of uninterpreted functions make
        # z3's array theory incomplete): a fresh set constant S with the axiom  forall c. S[c] <=> cond and exists i ...
        # Conservative (such an S exists for every list value) PROVIDED list and condition are closed terms: refused when
        # they mention a variable bound by an enclosing quantifier.
        from z3 import z3util

        bound = getattr(self, "_bound_vars", [])
        for t in (lst.t, cond):
            if any(any(v.eq(b) for b in bound) for v in z3util.get_vars(t)):
                raise Unsupported("set_of() of a term depending on a quantified variable")
        cache = self.ctx.__dict__.setdefault("_set_of_cache", {})
        key = (lst.t.get_id(), cond.get_id())
        if key not in cache:
            S = self.ctx.fresh_const(z3.ArraySort(z3.IntSort(), z3.BoolSort()), "set_of")
            c = z3.FreshConst(z3.IntSort(), "so_c")
            i = z3.FreshConst(z3.IntSort(), "so_i")
            body = z3.And(cond, z3.Exists([i], z3.And(0 <= i, i < sym.list_len(lst), z3.Select(sym.list_arr(lst), i) == c)))
            self.ctx.assume(z3.ForAll([c], z3.Select(S, c) == body, patterns=[z3.Select(S, c)]))
            cache[key] = (S, lst.t, cond)  # keep the terms alive (ids are only unique among live ASTs)
        return V(sym.TSet(lst.ty.elem), cache[key][0])

    def sp_invariant_of(self, node, env):
        """invariant_of(obj): the conjunction of the class invariants of obj's (static) class - to state, in an assume_pre,
        the visible-state fact that an object of another class satisfies its proved class invariant"""
        v = self.evalv(node.args[0], env)
        if isinstance(v.ty, TOpt):
            v = sym.opt_val(v)
        if not isinstance(v.ty, TRef):
            raise Unsupported("invariant_of(%s)" % v.ty)
        loc = dict(env.locals)
        loc["self"] = v
        e2 = env.child(loc)
        e2.cls = self.index.cls(v.ty.cls)
        self.spec += 1
        try:
            ts = [self.truth(self.evalv(self.parse_clause(cl), e2)) for cl in self.class_invariants(v.ty.cls)]
        finally:
            self.spec -= 1
        return sym.mk_bool(z3.And(*ts) if ts else z3.BoolVal(True))

    def sp_is_none(self, node, env):
        v = self.evalv(node.args[0], env)
        return sym.mk_bool(sym.equal(v, NONE))

    def sp_some(self, node, env):
        """value of an Optional known to be present (spec only)."""
        v = self.evalv(node.args[0], env)
        return sym.opt_val(v) if isinstance(v.ty, TOpt) else v

    def sp_raw(self, node, env):
        """raw(obj, 'field'): read a field by its exact (possibly mangled) name."""
        v = self.evalv(node.args[0], env)
        return self.read_field(v, node.args[1].value)

    def sp_at(self, node, env):
        """at(seq, i): total (unchecked) element access for specifications."""
        self.spec += 1
        try:
            return self.index_of(self.evalv(node.args[0], env), self.evalv(node.args[1], env))
        finally:
            self.spec -= 1

    def sp_bkey(self, node, env):
        """bkey(b): the integer id under which the byte string b is kept in a set[bytes] (sym.bkey)."""
        v = self.evalv(node.args[0], env)
        return V(TInt, self.set_key(TSet(TBytes), v))

    def sp_has_key(self, node, env):
        """has_key(s, c): the set[bytes] s has a member whose id is c."""
        s, c = self.evalv(node.args[0], env), self.evalv(node.args[1], env)
        if isinstance(s.ty, TDict) and s.ty.k == TBytes:
            # (C19) dict[bytes, V]: some key of the dict has the id c
            return sym.mk_bool(z3.Select(sym.dict_dom(s), sym.as_int(c)))
        if not (isinstance(s.ty, TSet) and s.ty.k == TBytes):
            raise Unsupported("has_key on %s" % s.ty)
        return sym.mk_bool(z3.Select(s.t, sym.as_int(c)))

    def sp_val_at(self, node, env):
        """(C19) val_at(d, c): the value a dict[bytes, V] stores under the key whose id is c (meaningful under has_key(d, c));
        spec only - the quantifiable counterpart of d[k], as has_key is of `k in d`."""
        s, c = self.evalv(node.args[0], env), self.evalv(node.args[1], env)
        if not (isinstance(s.ty, TDict) and s.ty.k == TBytes):
            raise Unsupported("val_at on %s" % s.ty)
        return V(s.ty.v, z3.Select(sym.dict_val(s), sym.as_int(c)))

    def json_term(self, v):
        """(added for C20) z3 Bool: the value is JSON-typed (str / int / float / bool / None / list / dict with str keys
        of JSON-typed values; NO bytes, tuples, objects).  Decided from the static type; for an opaque value (TAny) it is
        the uninterpreted predicate is_json_any(handle), about which the engine asserts a fact ONLY where it creates the
        value from parts (heterogeneous dict display, interp.e_Dict) - so an opaque value of unknown origin is never
        provably JSON."""
        from .sym import TTuple

        def static(ty):
            if ty in (TStr, TInt, TBool, TReal, TNone):
                return True
            if isinstance(ty, TOpt):
                return static(ty.inner)
            if isinstance(ty, TList):
                return static(ty.elem)
            if isinstance(ty, TDict):
                return ty.k == TStr and static(ty.v)
            if isinstance(ty, TEnum):
                return False
            return False

        if isinstance(v, V) and v.ty == TAny:
            return z3.Function("is_json_any", z3.IntSort(), z3.BoolSort())(v.t)
        if isinstance(v, V) and isinstance(v.ty, TOpt) and v.ty.inner == TAny:
            return z3.Or(sym.opt_is_none(v), z3.Function("is_json_any", z3.IntSort(), z3.BoolSort())(sym.opt_val(v).t))
        if isinstance(v, EmptyLiteral):
            return z3.BoolVal(True)
        return z3.BoolVal(bool(isinstance(v, V) and static(v.ty)))

    def sp_is_json(self, node, env):
        """is_json(x): see json_term"""
        return sym.mk_bool(self.json_term(self.eval(node.args[0], env)))

    def sp_is_instance(self, node, env):
        """is_instance(obj, 'Cls'): obj was created (on this path) as an instance of exactly Cls."""
        v = self.evalv(node.args[0], env)
        if not isinstance(v.ty, TRef):
            raise Unsupported("is_instance of %s" % v.ty)
        return sym.mk_bool(self.heap.read("object", "__class__", TInt, v.t).t == self.class_id(node.args[1].value))

    def sp_pre_existing(self, node, env):
        """pre_existing(obj): the reference denotes an object that existed when the function under verification was entered
        (objects created on the path have negative references, interp.new_object).  Lets a postcondition speak about the
        values of a dict under a quantifier, where no heap read attaches the well-formedness fact by itself."""
        v = self.evalv(node.args[0], env)
        if isinstance(v.ty, TOpt):
            v = sym.opt_val(v)
        if not isinstance(v.ty, TRef):
            raise Unsupported("pre_existing of %s" % v.ty)
        return sym.mk_bool(v.t >= 0)

    def sp_isa_opaque(self, node, env):
        """isa_opaque(x, 'Name'): the opaque (Any / Optional[Any]) value x is an instance of the external class Name - the
        same uninterpreted predicate that isinstance(x, mod.Name) evaluates to in code (bi_isinstance); None is no instance"""
        v = self.evalv(node.args[0], env)
        name = node.args[1].value
        if v.ty == TAny:
            return sym.mk_bool(self.isinstance_of(v.t, name))
        if isinstance(v.ty, TOpt) and v.ty.inner == TAny:
            return sym.mk_bool(z3.And(z3.Not(sym.opt_is_none(v)), self.isinstance_of(sym.opt_val(v).t, name)))
        raise Unsupported("isa_opaque of %s" % v.ty)

    def sp_cast(self, node, env):
        """cast(obj, 'Cls'): view a reference as an instance of a subclass (spec only; the clause should guard it with
        isinstance knowledge of its own)."""
        if not (len(node.args) == 2 and isinstance(node.args[1], ast.Constant) and isinstance(node.args[1].value, str)):
            return self.bi_cast(node, env)  # typing.cast(T, x) in the code under verification: identity
        v = self.evalv(node.args[0], env)
        if not isinstance(v.ty, TRef):
            raise Unsupported("cast of %s" % v.ty)
        return V(TRef(node.args[1].value), v.t)

    def sp_elem(self, node, env):
        """elem(seq, i): the array cell i of a list / bytes value, WITHOUT Python's negative-index normalisation and
        without a bounds check (spec only; meaningful for 0 <= i < len(seq), which the clause must guard).  Unlike
        at()/seq[i] the term is a plain select, which the solver can use as a quantifier trigger."""
        s, i = self.evalv(node.args[0], env), self.evalv(node.args[1], env)
        if isinstance(s.ty, TOpt):
            s = sym.opt_val(s)
        if isinstance(s.ty, TList):
            return V(s.ty.elem, z3.Select(sym.list_arr(s), sym.as_int(i)))
        if s.ty == TBytes:
            return V(TInt, z3.Select(sym.bytes_data(s), sym.as_int(i)))
        raise Unsupported("elem of %s" % s.ty)

    def sp_bytes_eq(self, node, env):
        a, b = self.evalv(node.args[0], env), self.evalv(node.args[1], env)
        return sym.mk_bool(sym.bytes_eq(a, b))

    def sp_same(self, node, env):
        """same(a, b): structural (z3 term) equality, e.g. for lists and dicts."""
        a, b = self.evalv(node.args[0], env), self.evalv(node.args[1], env)
        if a.ty != b.ty:
            b = sym.coerce(b, a.ty)
        return sym.mk_bool(a.t == b.t)

    # ------------------------------------------------------------------ python builtins
    def bi_partial(self, node, env):
        """functools.partial(fn, *args, **kwargs) (tls.py: `partial(pull_key_share, buf)` as item parser of pull_list)"""
        if len(node.args) == 1 and len(node.keywords) == 1 and node.keywords[0].arg is not None and isinstance(node.args[0], ast.Attribute):
            # partial(<obj.method>, <keyword>=<object>) (asyncio/server.py: callbacks stored in fields): a callable VALUE (C19)
            return self._bi_partial_value(node, env)
        if not node.args or any(isinstance(a, ast.Starred) for a in node.args):
            raise Unsupported("partial()")
        fn = self.eval(node.args[0], env)
        if not isinstance(fn, PyObj):
            raise Unsupported("partial() of a non-function value")
        args = [self.eval(a, env) for a in node.args[1:]]
        kwargs = {}
        for k in node.keywords:
            if k.arg is None:
                raise Unsupported("**kwargs")
            kwargs[k.arg] = self.eval(k.value, env)
        return Partial(fn, args, kwargs)

    def bi_len(self, node, env):
        v = self.evalv(node.args[0], env)
        return self.length(v, node)

    def length(self, v, node=None):
        if v.ty == TBytes:
            return V(TInt, sym.bytes_len(v))
        if isinstance(v.ty, TList):
            return V(TInt, sym.list_len(v))
        if v.ty == TStr:
            return V(TInt, sym.str_len(v.t))
        if v.ty == TRange:
            d = sym.range_stop(v) - sym.range_start(v)
            return V(TInt, z3.If(d < 0, I(0), d))
        if isinstance(v.ty, TRef):
            return self.call_method(v, "__len__", [], {}, node)
        if isinstance(v.ty, TTuple):
            return sym.mk_int(len(v.ty.items))
        if isinstance(v.ty, TOpt):
            self.fail(z3.Not(sym.opt_is_none(v)), "TypeError", "len(None)", node)
            return self.length(sym.opt_val(v), node)
        if isinstance(v.ty, TDict):
            raise Unsupported("len(dict)")
        raise Unsupported("len of %s" % v.ty)

    def _minmax(self, node, env, is_min):
        vals = [self.evalv(a, env) for a in node.args]
        if len(vals) < 2:
            raise Unsupported("min/max of iterable")
        cur = vals[0]
        for v in vals[1:]:
            if isinstance(cur.ty, TOpt) or isinstance(v.ty, TOpt):
                if isinstance(cur.ty, TOpt):
                    self.fail(z3.Not(sym.opt_is_none(cur)), "TypeError", "min/max with None", node)
                    cur = sym.opt_val(cur)
                if isinstance(v.ty, TOpt):
                    self.fail(z3.Not(sym.opt_is_none(v)), "TypeError", "min/max with None", node)
                    v = sym.opt_val(v)
            if cur.ty == TReal or v.ty == TReal:
                a, b = sym.as_real(cur), sym.as_real(v)
                if cur.ty != TReal or v.ty != TReal:
                    # python keeps the original object; value-wise a Real is exact here
                    pass
                cur = V(TReal, z3.If((b < a) if is_min else (b > a), b, a))
            else:
                a, b = sym.as_int(cur), sym.as_int(v)
                cur = V(TInt, z3.If((b < a) if is_min else (b > a), b, a))
        return cur

    def bi_min(self, node, env):
        return self._minmax(node, env, True)

    def bi_max(self, node, env):
        return self._minmax(node, env, False)

    def bi_abs(self, node, env):
        v = self.evalv(node.args[0], env)
        if v.ty == TReal:
            return V(TReal, z3.If(v.t < 0, -v.t, v.t))
        x = sym.as_int(v)
        return V(TInt, z3.If(x < 0, -x, x))

    def bi_int(self, node, env):
        v = self.evalv(node.args[0], env)
        if v.ty == TReal:
            # truncation toward zero (assumption A1: finite)
            self.assumptions_used.add("A1: float as real; int(x) is truncation")
            fl = z3.ToInt(v.t)
            return V(TInt, z3.If(v.t >= 0, fl, z3.If(z3.ToReal(fl) == v.t, fl, fl + 1)))
        if sym.is_num(v):
            return V(TInt, sym.as_int(v))
        c = self.registry.contracts.get("int")
        if c is not None:
            return self.apply_stub(c, "int", [v], {}, node)
        raise Unsupported("int() of %s" % v.ty)

    def bi_float(self, node, env):
        v = self.evalv(node.args[0], env)
        return V(TReal, sym.as_real(v))

    def bi_bool(self, node, env):
        return sym.mk_bool(self.truth(self.evalv(node.args[0], env)))

    def bi_bytes(self, node, env):
        if not node.args:
            return sym.bytes_const(b"")
        v = self.evalv(node.args[0], env)
        if v.ty == TBytes:
            return V(TBytes, v.t)
        if sym.is_num(v):
            n = sym.as_int(v)
            self.fail(n >= 0, "ValueError", "negative count", node)
            return sym.bytes_mk(n, z3.K(z3.IntSort(), I(0)))
        if isinstance(v.ty, TList) and v.ty.elem == TInt:
            # (C19) bytes(<list of ints>) raises ValueError unless every element is in range(256).  Checked for lists of
            # literal length (list displays, the only form in the repository: retry.encode_address); longer / symbolic
            # lists stay unchecked as before
            n = z3.simplify(sym.list_len(v))
            if z3.is_int_value(n) and n.as_long() <= 16:
                for i in range(n.as_long()):
                    e = z3.Select(sym.list_arr(v), i)
                    self.fail(z3.And(0 <= e, e <= 255), "ValueError", "bytes must be in range(0, 256)", node)
            return sym.bytes_mk(sym.list_len(v), sym.list_arr(v))
        raise Unsupported("bytes() of %s" % v.ty)

    bi_bytearray = bi_bytes

    def bi_range(self, node, env):
        a = [self.unopt(self.evalv(x, env), node) for x in node.args]
        if len(a) == 1:
            return sym.range_mk(I(0), sym.as_int(a[0]))
        if len(a) == 2:
            return sym.range_mk(sym.as_int(a[0]), sym.as_int(a[1]))
        raise Unsupported("range step")

    def bi_isinstance(self, node, env):
        v = self.eval(node.args[0], env)
        tn = node.args[1]
        names = [getattr(x, "id", getattr(x, "attr", None)) for x in (tn.elts if isinstance(tn, ast.Tuple) else [tn])]
        if isinstance(v, V):
            ty = v.ty
            if isinstance(ty, TOpt) and isinstance(ty.inner, TRef) and not self.spec:
                # (C19) isinstance(None, C) is False; otherwise decide on the value
                if self.ctx.branch(sym.opt_is_none(v)):
                    return sym.mk_bool(False)
                v = sym.opt_val(v)
                ty = v.ty
            if isinstance(ty, TRef):
                info = self.index.cls(ty.cls)
                if any(c.name in names for c in self.index.mro(info)):
                    return sym.mk_bool(True)
                # (C19) the value may be an instance of a SUBCLASS of its static class (e.g. a QuicEvent handed out by
                # next_event): when some subclass known to the index is (a subclass of) one of `names`, the answer
                # depends on the DYNAMIC class - the `__class__` tag every object carries (written at construction,
                # unconstrained for objects that already existed).  Static class without such a subclass: False, as before.
                hits = []
                for dn in sorted(self.index.classes):
                    di = self.index.cls(dn)
                    if di is None or di is info:
                        continue
                    try:
                        dm = self.index.mro(di)
                    except Exception:
                        continue
                    if any(c is info for c in dm) and any(c.name in names for c in dm):
                        hits.append(dn)
                if not hits:
                    return sym.mk_bool(False)
                dyn = self.heap.read("object", "__class__", TInt, v.t).t
                return sym.mk_bool(z3.Or(*[dyn == self.class_id(dn) for dn in hits]))
            if ty == TAny or (isinstance(ty, TOpt) and ty.inner == TAny):
                # opaque external object: its dynamic class is unknown; isinstance is an uninterpreted predicate of
                # (object handle, class name) - deterministic, otherwise unconstrained; None is an instance of nothing
                h = sym.opt_val(v).t if isinstance(ty, TOpt) else v.t
                r = z3.Or(*[self.isinstance_of(h, n) for n in names])
                if isinstance(ty, TOpt):
                    r = z3.And(z3.Not(sym.opt_is_none(v)), r)
                return sym.mk_bool(r)
            prim = {TInt: "int", TBool: "bool", TBytes: "bytes", TStr: "str", TReal: "float"}.get(ty)
            if prim:
                ok = prim in names or (prim == "bool" and "int" in names) or (prim == "bytes" and "bytearray" in names)
                return sym.mk_bool(ok)
        raise Unsupported("isinstance")

    def bi_cast(self, node, env):
        """typing.cast(T, x) is the identity at run time"""
        return self.eval(node.args[1], env)

    def _partial_term(self, qual, recv_t, arg_t):
        ids = self.registry.__dict__.setdefault("_partial_ids", {})
        f = z3.Function("uf_partial", z3.IntSort(), z3.IntSort(), z3.IntSort(), z3.IntSort())
        return f(z3.IntVal(ids.setdefault(qual, len(ids))), recv_t, arg_t)

    def _bi_partial_value(self, node, env):
        """(C19) functools.partial(<bound method obj.m>, <one keyword argument k=<object>>): a callable VALUE, the
        uninterpreted term uf_partial(code of "Cls.m", obj, argument object).  Nothing is assumed about calling it (a call
        of such a value goes through the callback contract of the field it is stored in); the term only lets a clause
        say WHICH partial application a field holds: spec builtin partial_of('Cls.m', obj, arg)."""
        if len(node.args) != 1 or len(node.keywords) != 1 or node.keywords[0].arg is None:
            raise Unsupported("partial(): only partial(<bound method>, <one keyword>=<object>)")
        callee = self.eval(node.args[0], env)
        arg = self.evalv(node.keywords[0].value, env)
        if isinstance(arg.ty, TOpt) and isinstance(arg.ty.inner, TRef):
            if self.ctx.branch(sym.opt_is_none(arg)):
                raise Unsupported("partial(): keyword argument None")
            arg = sym.opt_val(arg)
        if not (isinstance(callee, BoundMethod) and callee.cls is not None and isinstance(callee.recv, V) and isinstance(callee.recv.ty, TRef) and isinstance(arg.ty, TRef)):
            raise Unsupported("partial(): only partial(<bound method>, <one keyword>=<object>)")
        owner, meth = self.index.find_method(self.index.cls(callee.recv.ty.cls), callee.name)
        if meth is None:
            raise Unsupported("partial(): unknown method %s" % callee.name)
        return V(TFunc, self._partial_term("%s.%s" % (owner.name, callee.name), callee.recv.t, arg.t))

    def sp_partial_of(self, node, env):
        """partial_of('Cls.m', obj, arg): the callable value functools.partial(obj.m, <keyword>=arg) (see bi_partial)"""
        obj, arg = self.evalv(node.args[1], env), self.evalv(node.args[2], env)
        return V(TFunc, self._partial_term(node.args[0].value, obj.t, arg.t))

    def bi_id(self, node, env):
        """(C19) id(obj): CPython's identity number.  Modelled as the uninterpreted function uf_obj_id (usable in clauses
        after R.ufunc("obj_id", [<class>], "int")) that is INJECTIVE: two objects that are alive at the same time never
        share an id.  The model has no deallocation, so the axiom is stated for all references; it is only meaningful
        for objects that are reachable when the clause is evaluated (an id may be reused after an object died) -
        recorded as an assumption."""
        if len(node.args) != 1 or node.keywords:
            raise Unsupported("id() arity")
        v = self.evalv(node.args[0], env)
        if not isinstance(v.ty, TRef):
            raise Unsupported("id() of %s" % v.ty)
        f = z3.Function("uf_obj_id", z3.IntSort(), z3.IntSort())
        a, b = z3.Consts("id_a id_b", z3.IntSort())
        self.ctx.axioms.setdefault("obj_id", z3.ForAll([a, b], z3.Implies(f(a) == f(b), a == b), patterns=[z3.MultiPattern(f(a), f(b))]))
        self.assumptions_used.add("id(): distinct objects alive at the same time have distinct ids (CPython); clauses mention ids of reachable objects only")
        return V(TInt, f(v.t))

    def bi_print(self, node, env):
        return NONE

    def bi_str(self, node, env):
        if node.args:
            self.eval(node.args[0], env)
        return V(TStr, self.ctx.fresh_const(sym.StrSort, "str"))

    def bi_repr(self, node, env):
        return self.bi_str(node, env)

    def bi_list(self, node, env):
        if not node.args:
            return EmptyLiteral("list")
        x = self.eval(node.args[0], env)
        from .dictiter import DictView

        if isinstance(x, DictView):
            # (C19) list(d.keys() / d.values() / d.items()): a COPY holding the snapshot enumeration of the dict at this
            # moment (dictiter.enum_dict: pairwise distinct keys covering exactly the domain, arbitrary order).  The dict
            # may be changed afterwards - by the body of a loop over the copy, for instance - without affecting it.
            # Ghost names: _lst<n>_keys, _lst<n>_pos, _lst<n>_kid (key ids, for bytes keys); as the iterable of a for-loop: _seq<N>_*.
            return self.enum_dict(x, env, self.take_enum_tag("_lst"))
        if not isinstance(x, V):
            raise Unsupported("non-symbolic value in value position: list() of %s" % type(x).__name__)
        v = x
        if isinstance(v.ty, TList):
            return V(v.ty, v.t)
        raise Unsupported("list() of %s" % v.ty)

    def _bi_dict_genexp(self, node, env):
        """C17: dict((e1, e2) for (a, b) in NAME.items()) where NAME is a module-level constant whose value is a dict
        LITERAL (e.g. packet.PACKET_LONG_TYPE_DECODE_VERSION_1, the inversion of the ENCODE table): the generator is
        unrolled over the literal's entries in source order (later entries overwrite earlier ones, as dict() does).
        Every other form of dict(...) stays Unsupported."""
        if len(node.args) == 1 and not node.keywords and isinstance(node.args[0], ast.GeneratorExp):
            g = node.args[0]
            if len(g.generators) == 1 and not g.generators[0].ifs and isinstance(g.elt, ast.Tuple) and len(g.elt.elts) == 2:
                gen = g.generators[0]
                it = gen.iter
                if (isinstance(it, ast.Call) and isinstance(it.func, ast.Attribute) and it.func.attr == "items" and not it.args
                        and isinstance(it.func.value, ast.Name) and env.module is not None and it.func.value.id not in env.locals
                        and isinstance(env.module.consts.get(it.func.value.id), ast.Dict)
                        and isinstance(gen.target, ast.Tuple) and len(gen.target.elts) == 2 and all(isinstance(t, ast.Name) for t in gen.target.elts)):
                    lit = env.module.consts[it.func.value.id]
                    if lit.keys and all(k is not None for k in lit.keys):
                        pairs = []
                        for kn, vn in zip(lit.keys, lit.values):
                            loc = dict(env.locals)
                            loc[gen.target.elts[0].id] = self.evalv(kn, env)
                            loc[gen.target.elts[1].id] = self.evalv(vn, env)
                            e2 = env.child(loc)
                            pairs.append((self.evalv(g.elt.elts[0], e2), self.evalv(g.elt.elts[1], e2)))
                        k0, v0 = pairs[0]
                        if all(v.ty == v0.ty for _k, v in pairs) and all(k.ty == k0.ty for k, _v in pairs):
                            ty = TDict(k0.ty if not isinstance(k0.ty, TEnum) else TInt, v0.ty)
                            d = sym.dict_empty(ty)
                            dom, val = sym.dict_dom(d), sym.dict_val(d)
                            for k, v in pairs:
                                dom = z3.Store(dom, self.dict_key(ty, k), True)
                                val = z3.Store(val, self.dict_key(ty, k), sym.coerce(v, ty.v).t)
                            return sym.dict_mk(ty, dom, val)
        return None

    def bi_set(self, node, env):
        if not node.args:
            return EmptyLiteral("set")
        raise Unsupported("set(iterable)")

    def bi_dict(self, node, env):
        """dict() / dict(d) for a dict-typed d (added for C16, h3 parse_settings): a shallow copy.  Dicts are VALUES
        (domain array, value array) in this engine, so the copy is the same value; never fails."""
        if not node.args and not node.keywords:
            return EmptyLiteral("dict")
        if len(node.args) == 1 and not node.keywords and isinstance(node.args[0], ast.GeneratorExp):
            r = self._bi_dict_genexp(node, env)  # C17: inversion of a module-level dict literal
            if r is None:
                raise Unsupported("dict(...) call")
            return r
        if len(node.args) == 1 and not node.keywords:
            v = self.eval(node.args[0], env)
            if isinstance(v, EmptyLiteral) and v.kind == "dict":
                return v
            if isinstance(v, V) and isinstance(v.ty, TDict):
                return v
        raise Unsupported("dict(...) of a non-dict")

    def bi_frozenset(self, node, env):
        """frozenset() / frozenset(<tuple display>): the set whose members are exactly the tuple's items"""
        if not node.args:
            return EmptyLiteral("set")
        lit = node.args[0]
        if len(node.args) == 1 and isinstance(lit, ast.List):
            # frozenset([e0, .., en]) of a LITERAL list of int-valued elements (ints, IntEnum members): the finite set
            # {e0..en} as a characteristic function (only membership is modelled)
            s = z3.K(z3.IntSort(), z3.BoolVal(False))
            for e in lit.elts:
                v = self.evalv(e, env)
                if not (sym.is_num(v) or isinstance(v.ty, TEnum)):
                    raise Unsupported("frozenset element of type %s" % v.ty)
                s = z3.Store(s, sym.as_int(v), z3.BoolVal(True))
            return V(TSet(TInt), s)
        v = self.evalv(node.args[0], env)
        if isinstance(v.ty, TTuple) and v.ty.items and all(isinstance(t, TEnum) or t == TInt for t in v.ty.items) and not all(t == TInt for t in v.ty.items):
            s = z3.K(z3.IntSort(), z3.BoolVal(False))
            for i in range(len(v.ty.items)):
                s = z3.Store(s, sym.as_int(sym.tuple_get(v, i)), z3.BoolVal(True))
            return V(TSet(TInt), s)
        if isinstance(v.ty, TTuple) and v.ty.items and all(t == v.ty.items[0] for t in v.ty.items) and v.ty.items[0] in (TInt, TBytes):
            ty = TSet(v.ty.items[0])
            t = sym.set_empty(ty).t
            for i in range(len(v.ty.items)):
                t = z3.Store(t, self.set_key(ty, sym.tuple_get(v, i)), True)
            return V(ty, t)
        raise Unsupported("frozenset() of %s" % v.ty)

    def bi_sorted(self, node, env):
        """sorted(<set or list of int/bytes>): only its totality is modelled (these element types are totally ordered, so
        it cannot raise); the resulting list is left unconstrained (an over-approximation of the real result)"""
        v = self.eval(node.args[0], env)
        if not isinstance(v, V):
            return self._sorted_dictview(node, env, v)  # sorted(d.keys()): dictiter.py
        if len(node.args) == 1 and not node.keywords and isinstance(v.ty, (TSet, TList)):
            ety = v.ty.k if isinstance(v.ty, TSet) else v.ty.elem
            if ety in (TInt, TBytes):
                r = sym.fresh(TList(ety), self.ctx.fresh_name("sorted"))
                for f in sym.wf(r):
                    self.ctx.assume(f)
                return r
        raise Unsupported("sorted() of %s" % v.ty)

    def bi_divmod(self, node, env):
        a, b = self.evalv(node.args[0], env), self.evalv(node.args[1], env)
        q = self.binop(ast.FloorDiv(), a, b, node)
        r = self.binop(ast.Mod(), a, b, node)
        return sym.tuple_mk([q, r])

    # ------------------------------------------------------------------ methods of built-in values
    def value_method(self, recv: V, name, args, kwargs, node, env):
        if any(isinstance(a, StarArg) for a in args):
            raise Unsupported("*args")
        ty = recv.ty
        tgt = node.func.value if isinstance(node, ast.Call) and isinstance(node.func, ast.Attribute) else None
        if isinstance(ty, TList):
            if name == "append":
                new = self.list_insert(recv, sym.list_len(recv), args[0])
                self.mutate(tgt, recv, new, env)
                return NONE
            if name == "insert":
                new = self.list_insert(recv, sym.as_int(args[0]), args[1])
                self.mutate(tgt, recv, new, env)
                return NONE
            if name == "pop":
                n = sym.list_len(recv)
                self.fail(n > 0, "IndexError", "pop from empty list", node)
                i = sym.as_int(args[0]) if args else n - 1
                new, item = self.list_pop(recv, i, node)
                self.mutate(tgt, recv, new, env)
                return item
            if name == "popleft":
                n = sym.list_len(recv)
                self.fail(n > 0, "IndexError", "pop from an empty deque", node)
                new, item = self.list_pop(recv, I(0), node)
                self.mutate(tgt, recv, new, env)
                return item
            if name == "clear":
                self.mutate(tgt, recv, sym.list_empty(ty.elem), env)
                return NONE
            if name == "extend" and isinstance(args[0], V) and isinstance(args[0].ty, TList):
                self.mutate(tgt, recv, self.list_concat(recv, args[0]), env)
                return NONE
            if name == "copy":
                return V(ty, recv.t)
        if isinstance(ty, TDict):
            if name == "get":
                k_t = self.dict_key(ty, args[0])
                present = z3.Select(sym.dict_dom(recv), k_t)
                val = V(ty.v, z3.Select(sym.dict_val(recv), k_t))
                dflt = args[1] if len(args) > 1 else NONE
                if self.spec:
                    return sym.ite(present, val, dflt)
                if self.ctx.branch(present):
                    if isinstance(ty.v, TRef):
                        self.note_ref(val.t)
                    for f in sym.wf(val):
                        self.ctx.assume(f)
                    return val if dflt.ty != TNone or isinstance(ty.v, TOpt) else sym.mk_some(val)
                return dflt if dflt.ty != TNone or isinstance(ty.v, TOpt) else sym.mk_none(TOpt(ty.v))
            if name == "pop":
                k_t = self.dict_key(ty, args[0])
                present = z3.Select(sym.dict_dom(recv), k_t)
                if len(args) < 2:
                    self.fail(present, "KeyError", "dict.pop missing key", node)
                    val = V(ty.v, z3.Select(sym.dict_val(recv), k_t))
                    if isinstance(ty.v, TRef):
                        self.note_ref(val.t)
                    self.dict_mutate(tgt, recv, sym.dict_mk(ty, z3.Store(sym.dict_dom(recv), k_t, False), sym.dict_val(recv)), env, "delete", k_t)
                    return val
                if self.ctx.branch(present):
                    val = V(ty.v, z3.Select(sym.dict_val(recv), k_t))
                    self.dict_mutate(tgt, recv, sym.dict_mk(ty, z3.Store(sym.dict_dom(recv), k_t, False), sym.dict_val(recv)), env, "delete", k_t)
                    return val if args[1].ty != TNone else sym.mk_some(val)
                return args[1] if args[1].ty != TNone else sym.mk_none(TOpt(ty.v))
            if name == "clear":
                self.dict_mutate(tgt, recv, sym.dict_empty(ty), env, "clear")
                return NONE
            if name in ("keys", "values", "items") and not args:
                from .dictiter import DictView

                return DictView(name, recv, tgt)
        if isinstance(ty, TSet):
            if name == "add":
                self.mutate(tgt, recv, V(ty, z3.Store(recv.t, self.set_key(ty, args[0]), True)), env)
                return NONE
            if name == "discard":
                self.mutate(tgt, recv, V(ty, z3.Store(recv.t, self.set_key(ty, args[0]), False)), env)
                return NONE
            if name == "update" and len(args) == 1 and isinstance(args[0], V) and isinstance(args[0].ty, TList) and ty.k == TInt and args[0].ty.elem == TInt:
                # set[int].update(list[int]) (added for C16): the new set has exactly the old members and the list's
                # elements.  "e occurs in the list" is expressed with a ghost witness map w (index of an occurrence).
                lst = args[0]
                n, L = sym.list_len(lst), sym.list_arr(lst)
                ns = self.ctx.fresh_const(recv.t.sort(), "set_upd")
                w = self.ctx.fresh_const(z3.ArraySort(z3.IntSort(), z3.IntSort()), "set_upd_w")
                e = z3.FreshConst(z3.IntSort(), "e")
                i = z3.FreshConst(z3.IntSort(), "i")
                self.ctx.assume(z3.ForAll([i], z3.Implies(z3.And(0 <= i, i < n), z3.Select(ns, z3.Select(L, i))), patterns=[z3.Select(L, i)]))
                self.ctx.assume(z3.ForAll([e], z3.Implies(z3.Select(recv.t, e), z3.Select(ns, e)), patterns=[z3.Select(recv.t, e)]))
                we = z3.Select(w, e)
                self.ctx.assume(z3.ForAll([e], z3.Implies(z3.Select(ns, e), z3.Or(z3.Select(recv.t, e), z3.And(0 <= we, we < n, z3.Select(L, we) == e))), patterns=[z3.Select(ns, e)]))
                self.mutate(tgt, recv, V(ty, ns), env)
                return NONE
            if name == "difference" and len(args) == 1 and isinstance(args[0], V) and args[0].ty == ty:
                # a new set: members of recv that are not members of the argument
                e = z3.FreshConst(recv.t.sort().domain(), "e")
                return V(ty, z3.Lambda([e], z3.And(z3.Select(recv.t, e), z3.Not(z3.Select(args[0].t, e)))))
        if ty == TBytes and name == "decode" and len(args) <= 1 and set(kwargs) <= {"errors"}:
            # (added for C20)  bytes.decode(<codec literal>[, errors=<handler literal>]) -> an opaque str.
            # Semantics implemented: with the STRICT handler (no `errors`, or "strict") UnicodeDecodeError is raised
            # exactly when the byte string is not decodable in the codec.  Decodability is the uninterpreted predicate
            # decodable_<codec>(bkey(b)) - a function of the VALUE of b (bkey axiom) - about which only sound facts are
            # given: every byte string is decodable in latin-1; a string whose bytes are all < 128 is decodable in
            # ascii and utf-8; a string containing a byte >= 128 is not decodable in ascii.  With a total handler
            # (replace / ignore / backslashreplace) nothing is raised.  Any non-literal codec / handler: Unsupported.
            a = node.args[0] if node.args else None
            codec = a.value if isinstance(a, ast.Constant) and isinstance(a.value, str) else ("utf-8" if a is None else None)
            kw = next((k.value for k in node.keywords if k.arg == "errors"), None)
            handler = "strict" if kw is None else (kw.value if isinstance(kw, ast.Constant) and isinstance(kw.value, str) else None)
            codec = {"utf8": "utf-8", "utf-8": "utf-8", "ascii": "ascii", "latin1": "latin-1", "latin-1": "latin-1", "iso-8859-1": "latin-1"}.get((codec or "").lower().replace("_", "-"))
            if codec is None or handler not in ("strict", "replace", "ignore", "backslashreplace"):
                raise Unsupported("bytes.decode with a codec / error handler that is not a known literal")
            if handler == "strict" and codec != "latin-1":
                ok = z3.Function("decodable_" + codec.replace("-", ""), z3.IntSort(), z3.BoolSort())(sym.bkey(recv.t))
                k = z3.FreshConst(z3.IntSort(), "k")
                n = sym.bytes_len(recv)
                all_ascii = z3.ForAll([k], z3.Implies(z3.And(0 <= k, k < n), z3.Select(sym.bytes_data(recv), k) < 128))
                self.ctx.assume(z3.Implies(all_ascii, ok))
                if codec == "ascii":
                    self.ctx.assume(z3.Implies(ok, all_ascii))
                self.assumptions_used.add("bytes.decode: decodability in utf-8 is an uninterpreted predicate of the byte string's value; only 'all bytes < 128 => decodable' is used")
                self.fail(ok, "UnicodeDecodeError", "bytes.decode(%r) with the strict error handler" % codec, node)
            return V(TStr, self.ctx.fresh_const(sym.StrSort, "decoded"))
        if ty == TBytes and name == "hex" and not args and not kwargs:
            return V(TStr, self.ctx.fresh_const(sym.StrSort, "hex"))  # (added for C20) total, opaque str
        if ty == TBytes and name == "startswith" and len(args) == 1 and isinstance(args[0], V) and args[0].ty == TBytes and not kwargs:
            # bytes.startswith(prefix): len(prefix) <= len(self) and the first len(prefix) bytes agree
            p = args[0]
            lit = sym.bytes_literal(p)
            if lit is not None and len(lit) <= 64:
                return sym.mk_bool(z3.And(sym.bytes_len(recv) >= len(lit), *[z3.Select(sym.bytes_data(recv), i) == c for i, c in enumerate(lit)]))
            k = z3.FreshConst(z3.IntSort(), "k")
            lp = sym.bytes_len(p)
            return sym.mk_bool(z3.And(sym.bytes_len(recv) >= lp, z3.ForAll([k], z3.Implies(z3.And(0 <= k, k < lp), z3.Select(sym.bytes_data(recv), k) == z3.Select(sym.bytes_data(p), k)))))
        key = "%s.%s" % ({TBytes: "bytes", TStr: "str", TInt: "int"}.get(ty, "list" if isinstance(ty, TList) else "dict"), name)
        if ty == TBytes and name == "decode" and len(node.args) == 2 and isinstance(node.args[1], ast.Constant) and isinstance(node.args[1].value, str):
            # bytes.decode(codec, "<handler literal>"): a stub registered for that error handler takes precedence over the
            # generic one ("bytes.decode:ignore" is total, the generic stub may raise UnicodeDecodeError)
            k2 = "bytes.decode:" + node.args[1].value
            if k2 in self.registry.contracts:
                key = k2
        c = self.registry.contracts.get(key)
        if c is not None:
            return self.apply_stub(c, key, [recv] + list(args), kwargs, node)
        raise Unsupported("method %s of %s" % (name, ty))
