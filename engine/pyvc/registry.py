"""Sidecar contract registry: contracts, field types, spec functions, class invariants, lemmas."""
from __future__ import annotations

import ast
import importlib.util
import os


class Contract:
    def __init__(self, key, **kw):
        self.key = key
        self.requires: list[str] = kw.pop("requires", [])
        self.ensures: list[str] = kw.pop("ensures", [])
        # raises: {ExcName: cond-in-pre-state or None}.  With a condition: raised IFF cond (both directions).
        self.raises: dict[str, str | None] = kw.pop("raises", {})
        self.on_raise: dict[str, list[str]] = kw.pop("on_raise", {})
        # attributes of the raised exception as seen by callers: {Exc: {attr: expr-in-pre-state}}
        self.raise_attrs: dict[str, dict[str, str]] = kw.pop("raise_attrs", {})
        self.modifies: list[str] = kw.pop("modifies", [])
        self.loops: dict[int, dict] = kw.pop("loops", {})
        self.inline: bool = kw.pop("inline", False)
        self.params: dict[str, str] = kw.pop("params", {})
        self.returns: str | None = kw.pop("returns", None)
        self.let: dict[str, str] = kw.pop("let", {})
        self.ghost_entry: list[str] = kw.pop("ghost_entry", [])
        # anchors: unparsed statement text, optionally "#n" for the n-th match, or "return#n"
        self.cuts: dict[str, list[str]] = kw.pop("cuts", {})  # anchor -> clauses proved then assumed before the statement
        self.ghost_at: dict[str, dict[str, str]] = kw.pop("ghost_at", {})  # anchor -> {ghost location: expr}
        self.use_invariant: bool = kw.pop("use_invariant", True)
        self.trusted: bool = kw.pop("trusted", False)  # stub: never verified, only assumed
        self.pure: bool = kw.pop("pure", False)
        self.old_params: bool = True
        self.note: str = kw.pop("note", "")
        self.havoc_result: bool = True
        self.prop: list[str] = kw.pop("prop", [])
        self.max_paths = kw.pop("max_paths", None)
        self.assume_pre: list[str] = kw.pop("assume_pre", [])
        self.ghost_exit: dict[str, str] = kw.pop("ghost_exit", {})  # ghost location -> new value (old() = entry state)
        # check_frame: opt-in syntactic frame check - every heap field written on a path (other than at objects created
        # on that path) must be named by some `modifies` entry (see verify._frame_check)
        self.check_frame: bool = kw.pop("check_frame", False)
        # second, purely syntactic frame check (heap arrays changed only by Stores at objects created on the path)
        self.check_frame_syntactic: bool = kw.pop("check_frame_syntactic", False)
        # stop_at: anchors (statement text) at which the path ENDS after the cuts placed there are proved: a PREFIX
        # verification - nothing is claimed about the code from that statement on (no exit obligations are generated)
        self.stop_at: list[str] = kw.pop("stop_at", [])
        self.entry_ref_lists: list[str] = kw.pop("entry_ref_lists", [])  # see verify._run_path
        self.exit_cuts: list[str] = kw.pop("exit_cuts", [])  # ghost cuts proved then assumed at every normal exit
        # callback=True (with trusted=True): contract of a callable STORED IN THE FIELD named by the key ("Cls.field");
        # applied when that field's value is called (see CallMixin.call_opaque)
        self.callback: bool = kw.pop("callback", False)
        # frame=True: prove at every exit that no field of a pre-existing object outside `modifies` was written
        self.frame: bool = kw.pop("frame", False)
        # ghost parameters: {name: type}; universally quantified when the function is verified, supplied by the caller's
        # ghost_args = {callee key: {ghost param: expr over the caller's state at the call}} at call sites
        self.ghost_params: dict[str, str] = kw.pop("ghost_params", {})
        self.ghost_args: dict[str, dict[str, str]] = kw.pop("ghost_args", {})
        # call_asserts: {"Cls.callee": [clauses]} - obligations of THIS function at each of its calls of that callee, stated
        # over the caller's state plus `arg_<param>` = the ACTUAL argument value of the call (before it is coerced to the
        # callee's declared parameter type): lets a caller's contract say what it passes, e.g. which delivery-handler
        # arguments it registers, where the callee's own parameter is typed Any
        self.call_asserts: dict[str, list[str]] = kw.pop("call_asserts", {})
        # native witnesses for ghost parameters (engine/native only): {name: python expression over the parameters}
        self.ghost_native: dict[str, str] = kw.pop("ghost_native", {})
        # check_frame: when the function is verified, every heap field it writes (or lets a callee havoc) must be
        # covered by `modifies` (fields of objects created by the function, and self.* in __init__, excepted)
        # types of unannotated locals initialised with an empty literal ("xs = []"): {name: type}
        self.local_types: dict[str, str] = kw.pop("locals", {})
        # objects (expressions over the function's parameters) that opaque callables cannot reach: all their fields
        # survive an opaque call made while this function runs.  An ASSUMPTION about the caller (recorded as such).
        self.opaque_keeps: list[str] = kw.pop("opaque_keeps", [])
        # region (block) contract: {"anchor": "<statement text>[#n]", "span": k}; key is "Cls.method@label"
        self.region: dict = kw.pop("region", None)
        # expect_outcomes: outcomes ("return", exception class names) that MUST have at least one feasible path; a missing
        # one is reported as an error (the function is then undecided): guards against a change after which the function
        # can no longer return normally and every exit obligation holds vacuously (guide rule 6, made automatic)
        self.expect_outcomes: list[str] = kw.pop("expect_outcomes", [])
        # allocates=True (trusted stubs of external constructors): the returned object is newly created (calls.apply_contract)
        self.allocates: bool = kw.pop("allocates", False)
        self.stub_defaults: dict[str, str] = kw.pop("stub_defaults", {})  # trusted stubs: defaults of omitted parameters
        # comps: {ordinal of a map comprehension [e for x in L]: [element invariant clauses over x and `_y`]} (interp._listcomp_map)
        self.comps: dict[int, list[str]] = kw.pop("comps", {})
        # inline_loops: {"<callee function name>": {loop ordinal: loop spec}} - loop specs for callees executed inline while
        # THIS function is verified (stmts.loop)
        self.inline_loops: dict[str, dict] = kw.pop("inline_loops", {})
        self.specialize: dict[str, list] = kw.pop("specialize", {})  # param -> concrete values (case split, completeness proved)  # labelled assumptions (listed in evidence)
        if kw:
            raise TypeError("unknown contract keys %s for %s" % (list(kw), key))


class DictSum:
    def __init__(self, cls, dict_field, counter, term, value_cls):
        self.cls, self.dict_field, self.counter, self.term, self.value_cls = cls, dict_field, counter, term, value_cls
        self.reads = None  # field names read by the term (filled lazily from the spec function's AST)


class Registry:
    def __init__(self):
        self.contracts: dict[str, Contract] = {}
        self.fields: dict[str, dict[str, str]] = {}
        self.specs: dict[str, ast.FunctionDef] = {}
        self.spec_src: list[str] = []
        self.invariants: dict[str, list[str]] = {}
        self.type_aliases: dict[str, str] = {}
        self.opaque_types: set[str] = set()
        self.lemmas: dict[str, dict] = {}
        self.consts: dict[str, object] = {}
        self.ghost: dict[str, dict[str, str]] = {}
        self.c_contracts: dict[str, dict] = {}
        self.extern_modules: dict[str, str] = {}
        self.ufuncs: dict[str, tuple] = {}  # uninterpreted spec functions: name -> ([arg type strings], result type string)
        self.module_names: set[str] = set()  # names of imported third-party / stdlib modules (attribute access gives ModAttr)
        # (owner class, dict field) -> DictSum: engine-maintained exact sum of term(value) over the dict's values
        self.dict_sums: dict[tuple[str, str], list] = {}  # several sums (different terms) may ride on one dict

    # ---- declaration API used by sidecar files
    def contract(self, key, **kw):
        self.contracts[key] = Contract(key, **kw)

    def field_types(self, cls, **fields):
        self.fields.setdefault(cls, {}).update(fields)

    def ghost_field(self, cls, name, ty, native=None):
        self.fields.setdefault(cls, {})[name] = ty
        self.ghost.setdefault(cls, {})[name] = native

    def dict_sum(self, cls, dict_field, counter, term, value_cls):
        """ghost field `counter` of `cls` = sum over the values v of the dict field `dict_field` of the spec function
        `term`(v).  The ENGINE updates the counter at every mutation of that dict (store / del / pop / clear), so the
        equality with the mathematical sum holds by construction (engine/pyvc/dictiter.py)."""
        self.fields.setdefault(cls, {})[counter] = "int"
        self.ghost.setdefault(cls, {})[counter] = None
        self.dict_sums.setdefault((cls, dict_field), []).append(DictSum(cls, dict_field, counter, term, value_cls))

    def spec(self, src):
        self.spec_src.append(src)
        tree = ast.parse(_dedent(src))
        for st in tree.body:
            if isinstance(st, ast.FunctionDef):
                self.specs[st.name] = st

    def ufunc(self, name, argtypes, rettype):
        """uninterpreted function usable in clauses (models a library function whose definition is not given)"""
        self.ufuncs[name] = (list(argtypes), rettype)

    def invariant(self, cls, clauses):
        self.invariants.setdefault(cls, []).extend(clauses)

    def extern_module(self, rel, src):
        """model of a module that is not Python source in the repository (C extension, third party): class and
        function signatures only; every method needs a (trusted) contract."""
        self.extern_modules[rel] = _dedent(src)

    def c_contract(self, key, **kw):
        """contract of a C function: key '<file>::<function>', setup(m) builds the symbolic pre-state and returns the
        argument values, post(m, st, outcome) returns [(name, goal, note)] (checked by engine/cwp)."""
        self.c_contracts[key] = kw

    def lemma(self, name, **kw):
        self.lemmas[name] = kw

    def dominance(self, name, **kw):
        """control-flow placement obligations decided on the AST (engine/dominance.py); qual "dominance::<name>" """
        self.__dict__.setdefault("dominances", {})[name] = kw

    def after_load(self, fn):
        """run fn(registry) once ALL sidecar files are loaded (sidecars load in alphabetical order; a file that refines
        a contract declared by a later file registers the refinement here)"""
        self.__dict__.setdefault("_after_load", []).append(fn)

    def lookup(self, clsname, fname, module_rel=None):
        keys = []
        if clsname:
            keys.append("%s.%s" % (clsname, fname))
        else:
            if module_rel:
                keys.append("%s::%s" % (module_rel, fname))
            keys.append(fname)
        for k in keys:
            if k in self.contracts:
                return self.contracts[k]
        return None


def _dedent(s):
    import textwrap

    return textwrap.dedent(s)


def load_sidecars(paths) -> Registry:
    reg = Registry()
    for p in paths:
        spec = importlib.util.spec_from_file_location("sidecar_" + os.path.basename(p)[:-3], p)
        mod = importlib.util.module_from_spec(spec)
        mod.R = reg
        spec.loader.exec_module(mod)
    for fn in reg.__dict__.get("_after_load", []):
        fn(reg)
    return reg
