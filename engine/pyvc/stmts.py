"""Statement execution (mixin for Interp)."""
from __future__ import annotations

import ast

import z3

from . import sym
from .core import PathEnd, PyBreak, PyContinue, PyRaise, PyReturn
from .model import BoundMethod, ClassRef, Closure, Env, Partial, PyObj
from .interp import EmptyLiteral, I
from .sym import (NONE, TAny, TBool, TBytes, TDict, TEnum, TInt, TList, TNone, TOpt, TRange, TReal, TRef, TSet, TStr,
                  TTuple, Unsupported, V)


class StmtMixin:
    def exec_block(self, stmts, env: Env):
        for st in stmts:
            self.exec(st, env)

    def exec(self, st, env):
        m = getattr(self, "s_" + type(st).__name__, None)
        if m is None:
            raise Unsupported("statement %s" % type(st).__name__)
        self.cur_line = getattr(st, "lineno", None)
        self.cur_env = env  # the frame whose contract supplies ghost_args at call sites
        anchors = getattr(env, "anchors", None)
        if anchors and id(st) in anchors:
            for kind, label, payload in anchors[id(st)]:
                if kind == "stop":
                    continue
                if kind == "ghost":
                    for locn, expr in payload.items():
                        val = self.spec_val(expr, env)
                        self.assign(ast.parse(locn, mode="eval").body, val, env)
                else:
                    for j, cl in enumerate(payload):
                        t = self.spec_bool(cl, env)
                        self.ctx.oblige("%s:cut[%s].%d" % (env.fname, label, j), "assert", t, site=st.lineno, note=cl)
                        self.ctx.assume(t)
            if any(kind == "stop" for kind, _l, _p in anchors[id(st)]):
                raise PathEnd()  # prefix verification (contract key stop_at): the path ends here
        return m(st, env)

    def s_Pass(self, st, env):
        pass

    def s_Expr(self, st, env):
        if isinstance(st.value, ast.Constant):
            return
        self.eval(st.value, env)

    def s_Return(self, st, env):
        raise PyReturn(self.eval(st.value, env) if st.value is not None else NONE)

    def s_Break(self, st, env):
        raise PyBreak()

    def s_Continue(self, st, env):
        raise PyContinue()

    def s_Global(self, st, env):
        raise Unsupported("global")

    def s_Assert(self, st, env):
        v = self.evalv(st.test, env)
        if not self.ctx.branch(self.truth(v)):
            raise PyRaise("AssertionError", implicit="assert at line %d" % st.lineno, site=st.lineno)
        self._narrow_from_test(st.test, env, True)

    def s_Raise(self, st, env):
        if st.exc is None:
            cur = getattr(env, "handling", None)
            if cur is None:
                raise Unsupported("bare raise outside handler")
            raise cur
        e = st.exc
        if isinstance(e, ast.Call):
            name = e.func.id if isinstance(e.func, ast.Name) else e.func.attr
            args = [self.eval(a, env) for a in e.args]
            kwargs = {k.arg: self.eval(k.value, env) for k in e.keywords}
            raise PyRaise(name, args, kwargs, site=st.lineno)
        if isinstance(e, ast.Name):
            if e.id in env.locals and isinstance(env.locals[e.id], ExcValue):
                raise env.locals[e.id].exc
            v = env.locals.get(e.id)
            if isinstance(v, V):
                # (added for C03, tls.negotiate) `raise x` where x is a SYMBOLIC value whose static type is an exception
                # class C (or Optional[C]): raises an instance of C (callers / `raises` clauses see the class C; a
                # subclass instance is covered by declaring C).  `raise None` is a TypeError.
                ty = v.ty
                if isinstance(ty, TOpt):
                    self.fail(z3.Not(sym.opt_is_none(v)), "TypeError", "exceptions must derive from BaseException", st)
                    ty = ty.inner
                if isinstance(ty, TRef) and self.index.exc_is_subclass(ty.cls, "BaseException"):
                    raise PyRaise(ty.cls, site=st.lineno)
                raise Unsupported("raise of a %s value" % v.ty)
            raise PyRaise(e.id, site=st.lineno)
        if isinstance(e, ast.Attribute):
            raise PyRaise(e.attr, site=st.lineno)
        raise Unsupported("raise form")

    # ---- assignment
    def s_Assign(self, st, env):
        val = self.eval(st.value, env)
        for tgt in st.targets:
            self.assign(tgt, val, env)

    def s_AnnAssign(self, st, env):
        if st.value is None:
            return
        val = self.eval(st.value, env)
        if isinstance(st.target, ast.Attribute):
            pass  # a field: its declared (sidecar / class model) type decides, see assign()
        elif isinstance(val, EmptyLiteral) or (isinstance(val, V) and val.ty == TNone):
            try:
                ty = self.types.parse(st.annotation, env.module)
                val = self.materialize(val, ty)
            except Unsupported:
                pass
        self.assign(st.target, val, env)

    def materialize(self, val, ty):
        if isinstance(val, EmptyLiteral):
            if isinstance(ty, TList):
                return sym.list_empty(ty.elem)
            if isinstance(ty, TDict):
                return sym.dict_empty(ty)
            if isinstance(ty, TSet):
                return sym.set_empty(ty)
            if ty == sym.TAny:
                # an empty list/dict display bound to an opaque (Any) slot: an arbitrary opaque handle (nothing is known of it)
                return sym.fresh(sym.TAny, self.ctx.fresh_name("emptylit"))
            if isinstance(ty, TOpt):
                return sym.coerce(self.materialize(val, ty.inner), ty)  # `x: Optional[list[T]]`; x = [] -> the present empty list
            raise Unsupported("empty literal for %s" % ty)
        return sym.coerce(val, ty)

    def assign(self, tgt, val, env):
        if isinstance(tgt, ast.Name):
            if isinstance(val, EmptyLiteral) and getattr(env, "local_types", {}).get(tgt.id) is not None:
                val = self.materialize(val, env.local_types[tgt.id])  # "xs = []" with a type given in the contract
            if isinstance(val, V):
                old = env.locals.get(tgt.id)
                declared = getattr(env, "local_types", {}).get(tgt.id)
                if declared is not None:
                    val = sym.coerce(val, declared)
            env.locals[tgt.id] = val
            return
        if isinstance(val, EmptyLiteral):
            ty = self.lvalue_type(tgt, env)
            val = self.materialize(val, ty)
        if type(val).__name__ == "TableRow" and not isinstance(tgt, (ast.Tuple, ast.List)):
            raise Unsupported("dispatch table row stored in %s" % type(tgt).__name__)
        if not isinstance(val, V) and type(val).__name__ != "TableRow":
            if isinstance(tgt, ast.Attribute) and isinstance(val, (BoundMethod, Closure)):
                # storing a callable in a field: opaque handle
                val = V(sym.TFunc, self.ctx.fresh_const(z3.IntSort(), "fn"))
            else:
                raise Unsupported("assigning python object to %s" % type(tgt).__name__)
        if isinstance(tgt, ast.Attribute):
            base = self.evalv(tgt.value, env)
            if isinstance(base.ty, TOpt):
                self.fail(z3.Not(sym.opt_is_none(base)), "AttributeError", "None.%s = ..." % tgt.attr, tgt)
                base = sym.opt_val(base)
            if not isinstance(base.ty, TRef):
                raise Unsupported("attribute assignment on %s" % base.ty)
            from .model import _mangle

            name = _mangle(tgt.attr, env.cls.name) if env.cls is not None else tgt.attr
            self.write_field(base, name, val)
            return
        if isinstance(tgt, ast.Subscript):
            base = self.evalv(tgt.value, env)
            if isinstance(tgt.slice, ast.Slice):
                if base.ty != TBytes:
                    raise Unsupported("slice assignment on %s" % base.ty)
                lo, hi = self.slice_bounds(tgt.slice, sym.bytes_len(base), env)
                if val.ty != TBytes:
                    raise Unsupported("slice assign of %s" % val.ty)
                self.mutate(tgt.value, base, self.bytes_splice(base, lo, hi, val), env)
                return
            idx = self.evalv(tgt.slice, env)
            ty = base.ty
            if isinstance(ty, TList):
                n = sym.list_len(base)
                i = self.norm_index(sym.as_int(idx), n)
                self.fail(z3.And(0 <= i, i < n), "IndexError", "list assignment index out of range", tgt)
                new = sym.list_mk(ty.elem, n, z3.Store(sym.list_arr(base), i, sym.coerce(val, ty.elem).t))
            elif isinstance(ty, TDict):
                k_t = self.dict_key(ty, idx)
                new = sym.dict_mk(ty, z3.Store(sym.dict_dom(base), k_t, True), z3.Store(sym.dict_val(base), k_t, sym.coerce(val, ty.v).t))
                self.dict_mutate(tgt.value, base, new, env, "store", k_t, val)
                return
            elif ty == TBytes:
                n = sym.bytes_len(base)
                i = self.norm_index(sym.as_int(idx), n)
                self.fail(z3.And(0 <= i, i < n), "IndexError", "bytearray index out of range", tgt)
                new = sym.bytes_mk(n, z3.Store(sym.bytes_data(base), i, sym.as_int(val)))
            elif isinstance(ty, sym.TArr):
                new = V(ty, z3.Store(base.t, sym.coerce(idx, ty.k).t, sym.coerce(val, ty.v).t))
            else:
                raise Unsupported("item assignment on %s" % ty)
            self.mutate(tgt.value, base, new, env)
            return
        if isinstance(tgt, (ast.Tuple, ast.List)) and type(val).__name__ == "TableRow":
            # row of a dispatch table (dispatch.py, S2): `handler, epochs = table[key]`
            if len(tgt.elts) != 2 or not all(isinstance(t, ast.Name) for t in tgt.elts):
                raise Unsupported("unpacking a dispatch table row")
            env.locals[tgt.elts[0].id] = val.handler
            env.locals[tgt.elts[1].id] = val.epochs
            return
        if isinstance(tgt, (ast.Tuple, ast.List)):
            if isinstance(val.ty, TList) and not any(isinstance(t, ast.Starred) for t in tgt.elts):
                # unpacking a LIST into n targets (added for C16, h0 `method, path = data.split(b" ", 1)`): Python raises
                # ValueError ("not enough / too many values to unpack") unless the list has exactly n elements
                n = len(tgt.elts)
                self.fail(sym.list_len(val) == n, "ValueError", "unpack: the list does not have exactly %d elements" % n, tgt)
                for i, t in enumerate(tgt.elts):
                    self.assign(t, V(val.ty.elem, z3.Select(sym.list_arr(val), I(i))), env)
                return
            if not isinstance(val.ty, TTuple):
                raise Unsupported("unpacking %s" % val.ty)
            if len(val.ty.items) != len(tgt.elts):
                raise PyRaise("ValueError", implicit="unpack arity")
            for i, t in enumerate(tgt.elts):
                self.assign(t, sym.tuple_get(val, i), env)
            return
        raise Unsupported("assignment target %s" % type(tgt).__name__)

    def lvalue_type(self, tgt, env):
        if isinstance(tgt, ast.Attribute):
            base = self.evalv(tgt.value, env)
            b = base.ty.inner if isinstance(base.ty, TOpt) else base.ty
            from .model import _mangle

            name = _mangle(tgt.attr, env.cls.name) if env.cls is not None else tgt.attr
            return self.field(b.cls, name)[1]
        raise Unsupported("type of lvalue")

    def mutate(self, target_node, oldv: V, newv: V, env):
        """In-place mutation of a mutable value reached through `target_node` (value semantics + write-back)."""
        newv = V(oldv.ty, newv.t)
        if isinstance(target_node, ast.Name):
            origin = oldv.origin
            newv.origin = origin
            env.locals[target_node.id] = newv
            if origin is not None and origin[0] == "field":
                _, ref_t, owner, fname, ty = origin
                self.heap.write(owner, fname, ty, ref_t, newv.t)
            return
        if isinstance(target_node, ast.Attribute):
            self.assign(target_node, newv, env)
            return
        if isinstance(target_node, ast.Subscript) and not isinstance(target_node.slice, ast.Slice):
            self.assign(target_node, newv, env)
            return
        raise Unsupported("mutation through %s" % type(target_node).__name__)

    def s_AugAssign(self, st, env):
        cur = self.evalv(st.target, env)
        val = self.evalv(st.value, env)
        if cur.ty == TBytes and isinstance(st.op, ast.Add):
            self.mutate(st.target, cur, self.bytes_concat(cur, val), env)
            return
        if isinstance(cur.ty, TList) and isinstance(st.op, ast.Add):
            self.mutate(st.target, cur, self.list_concat(cur, val), env)
            return
        new = self.binop(st.op, cur, val, st)
        self.assign(st.target, new, env)

    def s_Delete(self, st, env):
        for tgt in st.targets:
            if isinstance(tgt, ast.Subscript):
                base = self.evalv(tgt.value, env)
                if isinstance(tgt.slice, ast.Slice):
                    if base.ty == TBytes:
                        lo, hi = self.slice_bounds(tgt.slice, sym.bytes_len(base), env)
                        self.mutate(tgt.value, base, self.bytes_splice(base, lo, hi, sym.bytes_const(b"")), env)
                        continue
                    raise Unsupported("del slice of %s" % base.ty)
                idx = self.evalv(tgt.slice, env)
                if isinstance(base.ty, TDict):
                    k_t = self.dict_key(base.ty, idx)
                    self.fail(z3.Select(sym.dict_dom(base), k_t), "KeyError", "del missing key", tgt)
                    self.dict_mutate(tgt.value, base, sym.dict_mk(base.ty, z3.Store(sym.dict_dom(base), k_t, False), sym.dict_val(base)), env, "delete", k_t)
                    continue
                if isinstance(base.ty, TList):
                    self.mutate(tgt.value, base, self.list_pop(base, sym.as_int(idx), tgt)[0], env)
                    continue
            raise Unsupported("del form")

    def list_pop(self, lst: V, i, node=None):
        n = sym.list_len(lst)
        i = self.norm_index(i, n)
        self.fail(z3.And(0 <= i, i < n), "IndexError", "pop index out of range", node)
        k = z3.FreshConst(z3.IntSort(), "k")
        arr = sym.list_arr(lst)
        item = V(lst.ty.elem, z3.Select(arr, i))
        new = sym.list_mk(lst.ty.elem, z3.simplify(n - 1), z3.Lambda([k], z3.If(k < i, z3.Select(arr, k), z3.Select(arr, k + 1))))
        return new, item

    def list_insert(self, lst: V, i, item: V):
        if isinstance(item, V) and isinstance(item.ty, TOpt) and not isinstance(lst.ty.elem, TOpt) and lst.ty.elem != TAny:
            # an Optional value stored into a list whose element type is not Optional: supported only where the value is
            # provably present on this path (otherwise the list model could not represent the None element)
            if not self.ctx.prove_quick(z3.Not(sym.opt_is_none(item))):
                raise Unsupported("possibly-None value inserted into %s" % lst.ty)
            item = sym.opt_val(item)
        n = sym.list_len(lst)
        # python clamps insert positions
        i = z3.If(i < 0, z3.If(i + n < 0, I(0), i + n), z3.If(i > n, n, i))
        i = z3.simplify(i)
        k = z3.FreshConst(z3.IntSort(), "k")
        arr = sym.list_arr(lst)
        it = sym.coerce(item, lst.ty.elem).t
        new = sym.list_mk(lst.ty.elem, z3.simplify(n + 1), z3.Lambda([k], z3.If(k < i, z3.Select(arr, k), z3.If(k == i, it, z3.Select(arr, k - 1)))))
        return new

    # ---- control flow
    def s_If(self, st, env):
        c = self.evalv(st.test, env) if not self._is_pyobj_test(st.test, env) else None
        t = self.truth(c)
        d = self.ctx.branch(t)
        self._narrow_from_test(st.test, env, d)
        if d:
            self.exec_block(st.body, env)
        else:
            self.exec_block(st.orelse, env)

    def _is_pyobj_test(self, test, env):
        return False

    def s_While(self, st, env):
        self.loop(st, env, kind="while")

    def s_For(self, st, env):
        self.loop(st, env, kind="for")

    def loop(self, st, env, kind):
        ordn = env.loop_ord
        env.loop_ord += 1
        contract = env.contract
        spec = (contract.loops.get(ordn) if contract else None)
        top_c = getattr(self, "top_contract", None)
        if top_c is not None and contract is not top_c and env.func is not None and env.func.name in getattr(top_c, "inline_loops", {}):
            # inline_loops={"<callee name>": {ordinal: spec}} in the contract of the function UNDER VERIFICATION: loop
            # specs for the loops of a callee that is executed inline (the clauses are evaluated in the callee's frame).
            # Used where the callee's own loop invariant speaks about its entry state (old()), which does not exist for
            # an inlined body, and where the caller knows what the callables it passes in modify.
            spec = top_c.inline_loops[env.func.name].get(ordn, spec)
        if spec is None and contract is not None and "default" in contract.loops:
            # (C03) loops={"default": dict(invariant=[...])}: the rule for a loop that has no entry of its own (a loop
            # the contract's author did not know about): with invariant [] it is the trivially sound over-approximation
            # "everything the body assigns is unknown afterwards" instead of Unsupported
            spec = contract.loops["default"]
        fname = env.fname
        idxname = "_i%d" % ordn
        # --- for-loop desugaring
        it_expr = None
        opt_seq = False
        if kind == "for":
            it = st.iter
            mode = None
            if isinstance(it, ast.Call) and isinstance(it.func, ast.Name) and it.func.id == "enumerate":
                mode = "enum"
                it_expr = it.args[0]
            elif isinstance(it, ast.Call) and isinstance(it.func, ast.Name) and it.func.id == "range":
                mode = "range"
                rargs = [self.evalv(a, env) for a in it.args]
                if len(rargs) == 1:
                    lo, hi = I(0), sym.as_int(rargs[0])
                elif len(rargs) == 2:
                    lo, hi = sym.as_int(rargs[0]), sym.as_int(rargs[1])
                else:
                    raise Unsupported("range step")
            elif isinstance(it, ast.Call) and isinstance(it.func, ast.Name) and it.func.id == "zip" and len(it.args) == 2 and not it.keywords and "zip" not in env.locals:
                # (C03) `for x, y in zip(a, b)` over two bytes / list values: min(len(a), len(b)) iterations, the i-th
                # item is the pair (a[i], b[i]) - zip() STOPS AT THE SHORTER input.  Both operands are evaluated once.
                mode = "zip"
                za, zb = self.evalv(it.args[0], env), self.evalv(it.args[1], env)
                for z in (za, zb):
                    if not (isinstance(z.ty, TList) or z.ty == TBytes):
                        raise Unsupported("zip over %s" % z.ty)
                env.locals["_zip%d_a" % ordn], env.locals["_zip%d_b" % ordn] = za, zb
                zlen = lambda z: sym.list_len(z) if isinstance(z.ty, TList) else sym.bytes_len(z)
                lo, hi = I(0), z3.If(zlen(za) <= zlen(zb), zlen(za), zlen(zb))
            else:
                mode = "seq"
                it_expr = it
            dict_view = None
            set_iter = None
            if mode in ("enum", "seq"):
                from .dictiter import DictView

                if isinstance(it_expr, ast.Call):
                    self._enum_tag = "_seq%d" % ordn  # ghost names of an enumeration made by this iterable
                seq0 = self.eval(it_expr, env)
                self._enum_tag = None
                if isinstance(seq0, DictView):
                    # for-loop directly over d.keys()/values()/items(): snapshot enumeration (dictiter.py)
                    dict_view = seq0
                    seq0 = self.enum_dict(seq0, env, "_seq%d" % ordn)
                if not isinstance(seq0, V):
                    raise Unsupported("for over %s" % type(seq0).__name__)
                if isinstance(seq0, V) and isinstance(seq0.ty, TOpt) and isinstance(seq0.ty.inner, TList):
                    # (added for C03) `for x in <Optional[list]>`: iterating None is a TypeError, otherwise the list
                    self.fail(z3.Not(sym.opt_is_none(seq0)), "TypeError", "'NoneType' object is not iterable", st)
                    seq0 = sym.opt_val(seq0)
                    opt_seq = True
                set_iter = None
                if isinstance(seq0.ty, TSet) and seq0.ty.k == TInt:
                    # for-loop over a set[int] (added for C16): SNAPSHOT ENUMERATION in an arbitrary order, as for dict
                    # views (dictiter.py E1/E2): a ghost list K of length n of pairwise distinct members covering exactly
                    # the set; ghost names _seq<N>_keys / _seq<N>_pos.  The set must not change in the body (obligation
                    # `set-unchanged` at the back edge; Python raises RuntimeError when its size changes).
                    set_iter = (it_expr, seq0)
                    seq0 = self.enum_set(seq0, env, "_seq%d" % ordn)
                    env.locals["_seq%d" % ordn] = seq0
                    it_expr = ast.Name(id="_seq%d" % ordn, ctx=ast.Load())
                if (isinstance(it_expr, ast.Call) or (isinstance(it_expr, ast.Subscript) and isinstance(it_expr.slice, ast.Slice))) and isinstance(seq0.ty, TList):
                    # the iterable expression is evaluated ONCE (Python semantics); iterate the bound snapshot
                    # (a call result or a slice copy `xs[:]` is a fresh list that the body cannot change)
                    env.locals["_seq%d" % ordn] = seq0
                    it_expr = ast.Name(id="_seq%d" % ordn, ctx=ast.Load())
                if isinstance(seq0.ty, TRef) or not isinstance(seq0.ty, (TList, TTuple)) and seq0.ty != TBytes:
                    raise Unsupported("for over %s" % seq0.ty)
                if isinstance(seq0.ty, TTuple):
                    # constant-size tuple: unroll
                    for i in range(len(seq0.ty.items)):
                        self.assign(st.target, sym.tuple_get(seq0, i), env)
                        try:
                            self.exec_block(st.body, env)
                        except PyBreak:
                            return
                        except PyContinue:
                            pass
                    self.exec_block(st.orelse, env)
                    return
                env.locals["_seq%d" % ordn] = seq0
                lo = I(0)
            env.locals[idxname] = V(TInt, lo)
        else:
            # while loop: `_i<n>` is a ghost counter of the iterations started (so that an invariant can be stated the same
            # way whether the code is written as a for loop or as a while loop)
            env.locals[idxname] = V(TInt, I(0))

        def cond_value():
            if kind == "while":
                return self.truth(self.evalv(st.test, env))
            i = env.locals[idxname].t
            if mode in ("range", "zip"):
                return i < hi
            seq = self.evalv(it_expr, env)
            if opt_seq and isinstance(seq.ty, TOpt):
                seq = sym.opt_val(seq)
            n = sym.list_len(seq) if isinstance(seq.ty, TList) else sym.bytes_len(seq)
            return i < n

        def bind_target():
            i = env.locals[idxname]
            if mode == "range":
                self.assign(st.target, i, env)
            elif mode == "zip":
                self.ctx.assume(i.t >= 0)  # the index starts at 0 and only grows (the head havoc forgets it)
                self.assign(st.target, sym.tuple_mk([self.index_of(za, i), self.index_of(zb, i)]), env)
            else:
                seq = self.evalv(it_expr, env)
                if opt_seq and isinstance(seq.ty, TOpt):
                    seq = sym.opt_val(seq)
                if isinstance(seq.ty, TList) and not z3.is_int_value(z3.simplify(i.t)) and self.ctx.prove_quick(i.t >= 0, 200):
                    # the loop index is known to be non-negative (loop invariant): Python's negative-index normalisation
                    # is the identity, so the element is the plain array cell (a usable quantifier trigger); the loop
                    # condition i < len(seq) has just been taken, so there is no IndexError
                    item = V(seq.ty.elem, z3.Select(sym.list_arr(seq), i.t))
                    for f in sym.wf(item):
                        self.ctx.assume(f)
                    if isinstance(seq.ty.elem, TRef):
                        self.ref_wf(item.t)
                elif seq.ty == TBytes and not z3.is_int_value(z3.simplify(i.t)) and self.ctx.prove_quick(i.t >= 0, 200):
                    item = V(TInt, z3.Select(sym.bytes_data(seq), i.t))  # same, for iteration over bytes
                    self.ctx.assume(z3.And(0 <= item.t, item.t <= 255))
                else:
                    item = self.index_of(seq, i)
                if mode == "enum":
                    self.assign(st.target, sym.tuple_mk([i, item]), env)
                else:
                    self.assign(st.target, item, env)
            env.locals[idxname] = V(TInt, i.t + 1)

        if spec is None:
            # no invariant: bounded unrolling is not a proof -> unsupported unless trivially constant
            unroll = (contract.loops.get(("unroll", ordn)) if contract else None)
            if unroll is None:
                raise Unsupported("loop %d of %s has no invariant" % (ordn, fname))
            for _ in range(unroll):
                if not self.ctx.branch(cond_value()):
                    self.exec_block(st.orelse, env)
                    return
                if kind == "for":
                    bind_target()
                try:
                    self.exec_block(st.body, env)
                except PyBreak:
                    return
                except PyContinue:
                    pass
            # unwinding assertion
            c = cond_value()
            self.ctx.oblige("%s:loop%d.unwind" % (fname, ordn), "unwind", z3.Not(c), site=st.lineno)
            self.ctx.assume(z3.Not(c))
            self.exec_block(st.orelse, env)
            return

        invs = spec.get("invariant", [])
        # 1. invariant holds on entry
        for j, cl in enumerate(invs):
            t = self.spec_bool(cl, env)
            self.ctx.oblige("%s:loop%d.init.%d" % (fname, ordn, j), "loop-init", t, site=st.lineno, note=cl)
        # 2. havoc what the body may modify
        outer_dirty = self.heap.dirty
        self.heap.dirty = []
        pre_locals = dict(env.locals)
        self.havoc_for_loop(st, env, spec)
        self._havoc_closure_nonlocals(env)
        havocked_pairs = list(self.heap.dirty)  # (field, object) pairs: the object matters to the frame checks (fresh objects are exempt)
        havocked_keys = {k for k, _r in self.heap.dirty}
        self.heap.dirty = []
        env.locals[idxname] = sym.fresh(TInt, self.ctx.fresh_name(idxname))
        if kind == "while":
            self.ctx.assume(env.locals[idxname].t >= 0)
        head_locals = dict(env.locals)
        havocked_names = {n for n, v in head_locals.items() if pre_locals.get(n) is not v}
        n_new = len(getattr(self, "new_refs", []))
        for cl in invs:
            self.ctx.assume(self.spec_bool(cl, env))
        dec0 = None
        if spec.get("decreases"):
            dec0 = self.spec_val(spec["decreases"], env).t
        head_dict = None
        if kind == "for" and dict_view is not None:
            head_dict = self.spec_val(ast.unparse(dict_view.node), env)
        # 3. one arbitrary iteration
        if self.ctx.branch(cond_value()):
            if kind == "for":
                bind_target()
            else:
                env.locals[idxname] = V(TInt, env.locals[idxname].t + 1)
            back = False
            if not hasattr(self, "loop_stack"):
                self.loop_stack = []
            self.loop_stack.append(spec)
            try:
                self.exec_block(st.body, env)
                back = True
            except PyContinue:
                back = True
            except PyBreak:
                pass
            finally:
                self.loop_stack.pop()
                body_dirty = self.heap.dirty
                self.heap.dirty = outer_dirty + havocked_pairs + body_dirty
            if back:
                # frame check of the loop rule: whatever the body changed must have been havocked at the loop head
                # (otherwise the "arbitrary iteration" would start from a state that is too specific)
                fresh_refs = getattr(self, "new_refs", [])[n_new:]
                for key, ref in body_dirty:
                    if key in havocked_keys:
                        continue
                    if ("<opaque>", "*") in havocked_keys and key not in getattr(self, "_opaque_keep", set()):
                        continue
                    if ref is not None and any(ref.eq(r) for r in fresh_refs):
                        continue  # field of an object created in this iteration
                    raise Unsupported("loop %d of %s: the body modifies %s.%s, which the loop head does not havoc (add it to the loop's modifies)" % (ordn, fname, key[0], key[1]))
                for n, v0 in head_locals.items():
                    v1 = env.locals.get(n)
                    if isinstance(v0, V) and isinstance(v1, V) and v0.ty != v1.ty and not n.startswith("_") and not (isinstance(v0.ty, TOpt) and v0.ty.inner == v1.ty):
                        # the head havoc produced a value of the pre-loop type only: later iterations would be lost
                        raise Unsupported("loop %d of %s: local %s changes type in the body (%s -> %s); declare its type in the contract's locals=" % (ordn, fname, n, v0.ty, v1.ty))
                    if v1 is v0 or n in havocked_names or not isinstance(v0, V) or not isinstance(v1, V):
                        continue
                    if isinstance(v0.ty, TOpt) and v0.ty.inner == v1.ty and sym.opt_val(v0).t.eq(v1.t):
                        continue  # Optional narrowing (`if x is not None:`) rebinds the name to the same value
                    if not v0.t.eq(v1.t):
                        raise Unsupported("loop %d of %s: the body changes local %s, which the loop head does not havoc (add it to the loop's modifies)" % (ordn, fname, n))
                if kind == "for" and set_iter is not None:
                    cur_set = self.evalv(set_iter[0], env)
                    self.ctx.oblige("%s:loop%d.set-unchanged" % (fname, ordn), "assert", cur_set.t == set_iter[1].t, site=st.lineno, note="the set iterated by the for-loop is not modified by the loop body")
                if head_dict is not None:
                    cur_dict = self.spec_val(ast.unparse(dict_view.node), env)
                    self.ctx.oblige("%s:loop%d.dict-unchanged" % (fname, ordn), "assert", cur_dict.t == head_dict.t, site=st.lineno, note="the dict iterated by a view is not modified by the loop body")
                for j, cl in enumerate(invs):
                    t = self.spec_bool(cl, env)
                    self.ctx.oblige("%s:loop%d.preserve.%d" % (fname, ordn, j), "loop-preserve", t, site=st.lineno, note=cl)
                if dec0 is not None:
                    d1 = self.spec_val(spec["decreases"], env).t
                    self.ctx.oblige("%s:loop%d.decreases" % (fname, ordn), "decreases", z3.And(d1 < dec0, dec0 >= 0), site=st.lineno)
                raise PathEnd()
            # break: fall through to code after the loop (no else clause)
            return
        # loop exit (the writes recorded before the loop and the head havoc stay recorded for the enclosing frame checks)
        self.heap.dirty = outer_dirty + havocked_pairs + self.heap.dirty
        self.exec_block(st.orelse, env)

    def _havoc_closure_nonlocals(self, env):
        """Loop head (added for the TLS parsers): a nested function that is a local / parameter of the frame the loop runs
        in (e.g. `func` of tls.pull_list, possibly wrapped in functools.partial) may be called by the body and rebind
        `nonlocal` variables of ITS defining scope - those variables are havocked here like every other location the body
        may change, and recorded so that CallMixin.call_closure accepts the call.  (The value seen after the loop is the
        havocked one: sound.)"""
        from .calls import nonlocal_names

        hv = self.__dict__.setdefault("nonlocal_havocked", set())
        for v in list(env.locals.values()):
            while isinstance(v, Partial):
                v = v.fn
            if isinstance(v, Closure) and not isinstance(v.node, ast.Lambda):
                for name in nonlocal_names(v.node):
                    old = v.env.locals.get(name)
                    if isinstance(old, V):
                        nv = sym.fresh(old.ty, self.ctx.fresh_name(name))
                        for f in sym.wf(nv):
                            self.ctx.assume(f)
                        v.env.locals[name] = nv
                        hv.add((id(v.env.locals), name))

    def havoc_for_loop(self, st, env, spec):
        names, fields, whole = assigned_in(st.body, env)
        for n in names:
            if n in env.locals and isinstance(env.locals[n], V):
                old = env.locals[n]
                nv = sym.fresh(old.ty, self.ctx.fresh_name(n))
                nv.origin = old.origin
                for f in sym.wf(nv):
                    self.ctx.assume(f)
                env.locals[n] = nv
        # fields: attribute writes / mutating calls on self.<f> or <local>.<f>
        for (base_src, fname) in fields:
            try:
                base = self.evalv(ast.parse(base_src, mode="eval").body, env)
            except (Unsupported, PyRaise):
                continue
            b = base
            absent = None
            if isinstance(b.ty, TOpt):
                absent = sym.opt_is_none(b)  # a None base denotes no object: nothing can have been written through it
                b = sym.opt_val(b)
            if not isinstance(b.ty, TRef):
                continue
            from .model import _mangle

            f = _mangle(fname, env.cls.name) if env.cls is not None else fname
            if f not in self.model(b.ty.cls).fields:
                continue
            owner, ty = self.field(b.ty.cls, f)
            nv = sym.fresh(ty, self.ctx.fresh_name(f))
            for fm in sym.wf(nv):
                self.ctx.assume(fm)
            self.field_touched(owner, f, b.t)
            if absent is not None:
                nv = V(ty, z3.If(absent, self.heap.read(owner, f, ty, b.t).t, nv.t))
            self.heap.write(owner, f, ty, b.t, nv.t)
        for extra in spec.get("modifies", []):
            if extra.startswith("top:"):
                # "top:<loc>" (loop specs supplied through inline_loops): the location is named in the frame of the
                # function UNDER VERIFICATION (e.g. the message object a parser's item closure fills in), not in the
                # frame of the inlined callee that contains the loop
                try:
                    self.havoc_location(extra[4:], self.top_env)
                except Unsupported as u:
                    if not str(u).startswith("unbound name "):
                        raise  # (a base that is not bound yet denotes no object: nothing to havoc)
                continue
            if extra == "<everything>":
                self.havoc_all_but([])  # the body calls a function whose contract says modifies=['<everything>']
                continue
            if extra == "<opaque>":
                # the body calls opaque callables: everything they may touch is unknown at the loop head
                cfg = self.registry.consts.get("OPAQUE_CALL")
                if not cfg:
                    raise Unsupported("modifies '<opaque>' without OPAQUE_CALL declaration")
                self.havoc_all_but(cfg["preserves"])
                continue
            self.havoc_location(extra, env)

    def havoc_location(self, loc: str, env):
        """loc: 'self.f', 'x.f', 'Class.f[*]' (whole field array), or local name."""
        if loc.endswith("[*]"):
            cn, f = loc[:-3].split(".")
            owner, ty = self.field(cn, f)
            self.field_touched(owner, f, None)
            self.heap.dirty.append(((owner, f), None))
            self.heap.arrays[(owner, f)] = z3.Const(self.ctx.fresh_name("h_%s.%s" % (owner, f)), z3.ArraySort(z3.IntSort(), sym.sort_of(ty)))
            return
        node = ast.parse(loc, mode="eval").body
        if isinstance(node, ast.Name):
            if node.id not in env.locals:
                # (C19) a local that is not bound yet on this path (bound on other paths before the loop, e.g. `waiter` in
                # protocol._process_events): nothing to forget
                return
            old = env.locals[node.id]
            env.locals[node.id] = sym.fresh(old.ty, self.ctx.fresh_name(node.id))
            return
        if isinstance(node, ast.Attribute):
            self.spec += 1
            try:
                base = self.evalv(node.value, env)
            finally:
                self.spec -= 1
            absent = None
            if isinstance(base.ty, TOpt):
                absent = sym.opt_is_none(base)  # modifies through a None base: no object, nothing to havoc
                base = sym.opt_val(base)
            from .model import _mangle

            f = node.attr
            if f not in self.model(base.ty.cls).fields and env.cls is not None:
                f = _mangle(f, env.cls.name)
            owner, ty = self.field(base.ty.cls, f)
            nv = sym.fresh(ty, self.ctx.fresh_name(f))
            for fm in sym.wf(nv):
                self.ctx.assume(fm)
            self.field_touched(owner, f, base.t)
            if absent is not None:
                nv = V(ty, z3.If(absent, self.heap.read(owner, f, ty, base.t).t, nv.t))
            self.heap.write(owner, f, ty, base.t, nv.t)
            return
        raise Unsupported("modifies location %s" % loc)

    def loc_key(self, loc: str, env):
        """(owner class, field) named by a modifies entry, or None for a local name"""
        if loc.endswith("[*]"):
            cn, f = loc[:-3].split(".")
            return (self.field(cn, f)[0], f)
        node = ast.parse(loc, mode="eval").body
        if isinstance(node, ast.Attribute):
            self.spec += 1
            try:
                base = self.evalv(node.value, env)
            finally:
                self.spec -= 1
            if isinstance(base.ty, TOpt):
                base = sym.opt_val(base)
            from .model import _mangle

            f = node.attr
            if f not in self.model(base.ty.cls).fields and env.cls is not None:
                f = _mangle(f, env.cls.name)
            return (self.field(base.ty.cls, f)[0], f)
        return None

    def s_Try(self, st, env):
        try:
            self.exec_block(st.body, env)
        except PyRaise as e:
            for h in st.handlers:
                if self.handler_matches(h, e):
                    if h.name:
                        env.locals[h.name] = ExcValue(e)
                    prev = getattr(env, "handling", None)
                    env.handling = e
                    try:
                        self.exec_block(h.body, env)
                    finally:
                        env.handling = prev
                        self._finally(st, env)
                    return
            self._finally(st, env)
            raise
        except (PyReturn, PyBreak, PyContinue, PathEnd):
            self._finally(st, env)
            raise
        else:
            self.exec_block(st.orelse, env)
            self._finally(st, env)

    def _finally(self, st, env):
        if st.finalbody:
            self.exec_block(st.finalbody, env)

    def handler_matches(self, h, e: PyRaise):
        if h.type is None:
            return True
        names = []
        t = h.type
        elts = t.elts if isinstance(t, ast.Tuple) else [t]
        for x in elts:
            names.append(x.id if isinstance(x, ast.Name) else x.attr)
        return any(self.index.exc_is_subclass(e.exc_type, n) for n in names)

    def s_With(self, st, env):
        """`with f(args) [as name]:` where f is a repository generator function decorated with @contextmanager whose
        body has exactly one `yield`, as a top-level expression statement (not inside try/with/loops).  contextlib
        semantics for that shape: run the statements before the yield (the yielded value is bound to `name`), run the
        with-body; on completion of the body WITHOUT an exception (falling off the end, return, break, continue) run the
        statements after the yield; if the body raises, the exception is thrown into the generator at the yield and,
        there being no try around it, none of the remaining statements run and the exception propagates unchanged."""
        if len(st.items) != 1:
            raise Unsupported("with statement (several items)")
        item = st.items[0]
        ce = item.context_expr
        if not (isinstance(ce, ast.Call) and isinstance(ce.func, (ast.Name, ast.Attribute))):
            raise Unsupported("with statement")
        if isinstance(ce, ast.Call) and isinstance(ce.func, ast.Attribute):
            return self._with_method_cm(st, item, ce, env)
        callee = self.eval(ce.func, env)
        from .model import FuncRef

        if not isinstance(callee, FuncRef) or callee.cls is not None:
            raise Unsupported("with statement")
        fn = callee.node
        if not any(getattr(d, "id", getattr(d, "attr", None)) == "contextmanager" for d in fn.decorator_list):
            raise Unsupported("with statement (not a @contextmanager function)")
        ys = [n for n in ast.walk(fn) if isinstance(n, (ast.Yield, ast.YieldFrom))]
        top = [i for i, b in enumerate(fn.body) if isinstance(b, ast.Expr) and isinstance(b.value, ast.Yield)]
        if len(ys) != 1 or len(top) != 1 or any(isinstance(n, ast.Return) for n in ast.walk(fn)):
            raise Unsupported("with statement (generator shape)")
        yi = top[0]
        args, kwargs = self.eval_args(ce, env)
        loc = self.bind_args(fn, None, args, kwargs, callee.module, None)
        genv = Env(loc, callee.module, None, fn)
        genv.contract, genv.fname, genv.anchors, genv.local_types = None, fn.name, {}, {}
        if self.depth > 12:
            raise Unsupported("inline depth")
        self.depth += 1
        try:
            self.exec_block(fn.body[:yi], genv)
            yv = fn.body[yi].value.value
            if item.optional_vars is not None:
                self.assign(item.optional_vars, self.eval(yv, genv) if yv is not None else NONE, env)
            try:
                self.exec_block(st.body, env)  # PyRaise / PathEnd propagate: generator abandoned at the yield
            except (PyReturn, PyBreak, PyContinue) as ctl:
                # C17 fix: `return` / `break` / `continue` inside the with-body leave the block WITHOUT an exception, so
                # __exit__(None, None, None) resumes the generator: the statements after the yield DO run (e.g. the
                # end-of-block check of tls.pull_block after `return buf.pull_bytes(length)`); the return value has
                # already been evaluated.  An exception raised by them replaces the pending control transfer.
                self.exec_block(fn.body[yi + 1:], genv)
                raise ctl
            self.exec_block(fn.body[yi + 1:], genv)
        finally:
            self.depth -= 1

    def _with_method_cm(self, st, item, ce, env):
        """`with obj.m(args) [as name]:` (added for C16, H3Connection._get_or_create_stream) where m is a repository METHOD
        decorated with @contextmanager of the shape
              <statements without yield>
              try:
                  yield <expr>
              finally:
                  <cleanup without yield>
        contextlib semantics for that shape: run the leading statements; bind the yielded value; run the with-body.
        However the body is left - normal completion, return, break, continue (generator resumed by __exit__(None..)) or an
        exception (thrown into the generator at the yield) - the `finally` cleanup runs exactly once and then the exit
        continues unchanged; an exception raised BY the cleanup replaces it.  The generator body is executed inline (no
        contract), with the receiver bound to `self`."""
        from .model import BoundMethod

        callee = self.eval(ce.func, env)
        if not isinstance(callee, BoundMethod) or callee.cls is None:
            raise Unsupported("with statement")
        info = self.index.cls(callee.cls)
        owner, fn = self.index.find_method(info, callee.name)
        if fn is None or not any(getattr(d, "id", getattr(d, "attr", None)) == "contextmanager" for d in fn.decorator_list):
            raise Unsupported("with statement (not a @contextmanager method)")
        ys = [n for n in ast.walk(fn) if isinstance(n, (ast.Yield, ast.YieldFrom))]
        body = [b for b in fn.body if not (isinstance(b, ast.Expr) and isinstance(b.value, ast.Constant))]
        last = body[-1] if body else None
        ok = (
            len(ys) == 1 and isinstance(last, ast.Try) and not last.handlers and not last.orelse and len(last.body) == 1
            and isinstance(last.body[0], ast.Expr) and isinstance(last.body[0].value, ast.Yield)
            and not any(isinstance(n, ast.Return) for n in ast.walk(fn))
        )
        if not ok:
            raise Unsupported("with statement (generator shape)")
        args, kwargs = self.eval_args(ce, env)
        loc = self.bind_args(fn, callee.recv, args, kwargs, owner.module, None)
        genv = Env(loc, owner.module, owner, fn)
        genv.contract, genv.fname, genv.anchors, genv.local_types = None, fn.name, {}, {}
        if self.depth > 12:
            raise Unsupported("inline depth")
        self.depth += 1
        try:
            self.exec_block(body[:-1], genv)
            yv = last.body[0].value.value
            if item.optional_vars is not None:
                self.assign(item.optional_vars, self.eval(yv, genv) if yv is not None else NONE, env)
            try:
                self.exec_block(st.body, env)
            except (PyRaise, PyReturn, PyBreak, PyContinue):
                self.exec_block(last.finalbody, genv)  # an exception raised here replaces the pending exit
                raise
            self.exec_block(last.finalbody, genv)
        finally:
            self.depth -= 1

    def s_FunctionDef(self, st, env):
        env.locals[st.name] = Closure(st, env)

    def s_Nonlocal(self, st, env):
        pass  # binding semantics implemented in CallMixin.call_closure (write-back to the defining scope)

    def s_Import(self, st, env):
        pass

    def s_ImportFrom(self, st, env):
        pass


def resolve_anchors(fnode, contract):
    """Map id(statement) -> [(kind, label, payload)] for the contract's cuts and ghost updates."""
    stmts = [n for n in ast.walk(fnode) if isinstance(n, ast.stmt) and n is not fnode]
    stmts.sort(key=lambda n: (n.lineno, n.col_offset))
    out: dict[int, list] = {}
    missing = []
    for kind, table in (("ghost", contract.ghost_at), ("cut", contract.cuts), ("stop", {a: None for a in getattr(contract, "stop_at", [])})):
        for anchor, payload in table.items():
            text, _, nth = anchor.partition("#")
            nth = int(nth) if nth else 0
            if text == "return":
                cands = [s for s in stmts if isinstance(s, ast.Return)]
            elif text.startswith("assigns:"):
                # semantic anchor: the simple statements that assign the local NAME (whatever the right-hand side says) - keeps a
                # ghost snapshot in place when the expression it precedes is edited (round-3 seed C07-4)
                name = text[len("assigns:"):].strip()
                cands = [s for s in stmts if isinstance(s, (ast.Assign, ast.AnnAssign, ast.AugAssign))
                         and any(isinstance(t, ast.Name) and t.id == name for t in (s.targets if isinstance(s, ast.Assign) else [s.target]))]
            else:
                if text.rstrip().endswith(":"):
                    # header of a compound statement ("if c:", "while c:", "for x in y:"), matched like _head()
                    try:
                        norm = _head(ast.parse(text.rstrip() + "\n    pass").body[0])
                    except SyntaxError:
                        norm = text.strip()
                else:
                    norm = ast.unparse(ast.parse(text).body[0]) if text.strip() else ""
                cands = [s for s in stmts if _head(s) == norm]
            if nth >= len(cands):
                missing.append(anchor)
                continue
            out.setdefault(id(cands[nth]), []).append((kind, anchor, payload))
    return out, missing


def _head(st):
    """Unparsed text of a statement; compound statements are matched by their header line only."""
    if isinstance(st, (ast.If, ast.While)):
        return ast.unparse(st.test).join(["if " if isinstance(st, ast.If) else "while ", ":"])
    if isinstance(st, ast.For):
        return "for %s in %s:" % (ast.unparse(st.target), ast.unparse(st.iter))
    try:
        return ast.unparse(st)
    except Exception:
        return ""


class ExcValue(PyObj):
    def __init__(self, exc):
        self.exc = exc


MUTATORS = {"append", "insert", "pop", "add", "subtract", "shift", "clear", "extend", "remove", "popleft", "appendleft", "update", "discard", "sort"}


def assigned_in(body, env):
    """Names assigned, (base source, field) pairs written or mutated in a loop body (syntactic)."""
    names, fields = set(), set()
    for st in body:
        for node in ast.walk(st):
            tgts = []
            if isinstance(node, ast.Assign):
                tgts = node.targets
            elif isinstance(node, (ast.AugAssign, ast.AnnAssign)):
                tgts = [node.target]
            elif isinstance(node, ast.For):
                tgts = [node.target]
            elif isinstance(node, ast.Delete):
                tgts = node.targets
            elif isinstance(node, ast.Call) and isinstance(node.func, ast.Attribute) and node.func.attr in MUTATORS:
                tgts = [node.func.value]
            elif isinstance(node, ast.ExceptHandler) and node.name:
                names.add(node.name)
            elif isinstance(node, ast.NamedExpr):
                tgts = [node.target]
            for t in tgts:
                _collect_target(t, names, fields)
    return names, fields, False


def _collect_target(t, names, fields):
    if isinstance(t, ast.Name):
        names.add(t.id)
    elif isinstance(t, (ast.Tuple, ast.List)):
        for x in t.elts:
            _collect_target(x, names, fields)
    elif isinstance(t, ast.Attribute):
        try:
            fields.add((ast.unparse(t.value), t.attr))
        except Exception:
            pass
    elif isinstance(t, ast.Subscript):
        _collect_target(t.value, names, fields)
    elif isinstance(t, ast.Starred):
        _collect_target(t.value, names, fields)
