"""python3-vt -m engine.pyvc.cli <qual> [...]: verify functions, print verdicts (developer tool)."""
import glob
import sys
import time

from .registry import load_sidecars
from .source import Index
from .verify import solve, verify_function


_OBS = []


def _solve_one(i):
    import os

    ob = _OBS[i]
    v = solve(ob, timeout_ms=int(os.environ.get("PYVC_TIMEOUT_MS", "10000")), use_cli=os.environ.get("PYVC_NOCLI") is None)
    mv = None
    if v.model is not None:
        mv = {k: str(v.model.eval(x.t, model_completion=True)) for k, x in ob.model_vars.items()}
    return i, v.status, v.secs, v.detail, mv


def main(argv):
    import os

    root = os.path.dirname(os.path.dirname(os.path.dirname(os.path.abspath(__file__))))
    reg = load_sidecars(sorted(glob.glob(os.path.join(root, "contracts", "*.py"))))
    idx = Index(extern=reg.extern_modules)
    rc = 0
    verbose = "-v" in argv
    for q in [a for a in argv if not a.startswith("-")]:
        t0 = time.time()
        if os.environ.get("PYVC_VACUITY") and "::" in q and not q.startswith(("logblocks::", "lemma::", "dominance::", "handlers::")):
            # developer vacuity probe: add the postcondition `1 == 2`; it must NOT be discharged on any path
            _m, _c, _f = idx.function(q)
            _k = reg.lookup(_c.name if _c else None, _f.name, _m.rel)
            if _k is not None and "1 == 2" not in _k.ensures:
                _k.ensures.append("1 == 2")
        if q.startswith("logblocks::"):
            from engine.logblocks import build as _lb_build

            r = _lb_build(q)
        elif q.startswith("dominance::"):
            from engine.dominance import build as _dom_build

            r = _dom_build(q, reg)
        elif q.startswith("handlers::"):
            from engine.handlerframe import build as _hf_build

            r = _hf_build(q, reg)
        elif q.startswith("lemma::"):
            from .verify import FunctionResult

            r = FunctionResult(q)
            r.obligations = list(reg.lemmas[q[7:]]["build"]())
        else:
            r = verify_function(idx, reg, q)
        print("== %s paths=%d obligations=%d gen=%.2fs errors=%s outcomes=%s" % (q, r.paths, len(r.obligations), time.time() - t0, r.errors, r.outcomes))
        jobs = int(os.environ.get("PYVC_JOBS", "1"))
        if jobs > 1:
            # developer convenience: solve the obligations of this function in forked workers (same verdicts)
            import multiprocessing as mp

            _OBS[:] = r.obligations
            with mp.get_context("fork").Pool(jobs) as pool:
                results = pool.map(_solve_one, range(len(_OBS)), chunksize=1)
        else:
            _OBS[:] = r.obligations
            results = [_solve_one(i) for i in range(len(_OBS))]
        for i, status, secs, detail, mv in results:
            ob = r.obligations[i]
            if status != "discharged" or verbose:
                print("  %-11s %-60s %.2fs %s %s" % (status, ob.name, secs, detail, ob.note[:80]))
                if mv is not None:
                    print("     model:", mv, "path", ob.path)
                rc = 1
    return rc


if __name__ == "__main__":
    sys.exit(main(sys.argv[1:]))
