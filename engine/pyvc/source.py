"""Index of the real source under $AIOQUIC_SRC (default /repo/src/aioquic): read on every run.

Nothing is imported from the repository: files are parsed with `ast` only.
"""
from __future__ import annotations

import ast
import hashlib
import os

SRC = os.environ.get("AIOQUIC_SRC", "/repo/src/aioquic")

BUILTIN_EXC = {
    "BaseException": None,
    "Exception": "BaseException",
    "ArithmeticError": "Exception",
    "ZeroDivisionError": "ArithmeticError",
    "OverflowError": "ArithmeticError",
    "AssertionError": "Exception",
    "AttributeError": "Exception",
    "LookupError": "Exception",
    "IndexError": "LookupError",
    "KeyError": "LookupError",
    "TypeError": "Exception",
    "ValueError": "Exception",
    "UnicodeError": "ValueError",
    "UnicodeDecodeError": "UnicodeError",
    "UnicodeEncodeError": "UnicodeError",
    "NotImplementedError": "RuntimeError",
    "RuntimeError": "Exception",
    "StopIteration": "Exception",
    "OSError": "Exception",
    "ConnectionError": "OSError",
    "MemoryError": "Exception",
    "InvalidSignature": "Exception",
    "UnsupportedAlgorithm": "Exception",
    "InvalidStateError": "Exception",
    "BufferReadError": "ValueError",
    "BufferWriteError": "ValueError",
    "StreamBlocked": "Exception",
    "DecompressionFailed": "Exception",
    "EncoderStreamError": "Exception",
    "DecoderStreamError": "Exception",
}


class ClassInfo:
    def __init__(self, name, node, module):
        self.name = name
        self.node = node
        self.module = module
        self.bases = [_name_of(b) for b in node.bases]
        self.methods: dict[str, ast.FunctionDef] = {}
        self.properties: set[str] = set()
        self.dataclass = any(_name_of(d) == "dataclass" or (isinstance(d, ast.Call) and _name_of(d.func) == "dataclass") for d in node.decorator_list)
        self.ann: dict[str, ast.expr] = {}  # class-level annotations (dataclass fields)
        self.defaults: dict[str, ast.expr] = {}
        self.enum_members: dict[str, object] = {}
        self.is_enum = any(b in ("Enum", "IntEnum", "IntFlag") for b in self.bases)
        self.is_intenum = any(b in ("IntEnum", "IntFlag") for b in self.bases)
        for st in node.body:
            if isinstance(st, (ast.FunctionDef, ast.AsyncFunctionDef)):
                self.methods[st.name] = st
                for d in st.decorator_list:
                    if _name_of(d) == "property":
                        self.properties.add(st.name)
            elif isinstance(st, ast.AnnAssign) and isinstance(st.target, ast.Name):
                self.ann[st.target.id] = st.annotation
                if st.value is not None:
                    self.defaults[st.target.id] = st.value
            elif isinstance(st, ast.Assign) and len(st.targets) == 1 and isinstance(st.targets[0], ast.Name):
                if self.is_enum:
                    try:
                        self.enum_members[st.targets[0].id] = ast.literal_eval(st.value)
                    except Exception:
                        self.enum_members[st.targets[0].id] = len(self.enum_members)
                else:
                    self.defaults[st.targets[0].id] = st.value


def _name_of(node):
    if isinstance(node, ast.Name):
        return node.id
    if isinstance(node, ast.Attribute):
        return node.attr
    if isinstance(node, ast.Call):
        return _name_of(node.func)
    return None


class Module:
    def __init__(self, rel, path, text=None):
        self.rel = rel  # e.g. quic/stream.py
        self.path = path
        self.extern = text is not None
        self.text = open(path).read() if text is None else text
        self.tree = ast.parse(self.text)
        self.classes: dict[str, ClassInfo] = {}
        self.functions: dict[str, ast.FunctionDef] = {}
        self.consts: dict[str, ast.expr] = {}
        for st in self.tree.body:
            if isinstance(st, ast.ClassDef):
                self.classes[st.name] = ClassInfo(st.name, st, self)
            elif isinstance(st, (ast.FunctionDef, ast.AsyncFunctionDef)):
                self.functions[st.name] = st
            elif isinstance(st, ast.Assign) and len(st.targets) == 1 and isinstance(st.targets[0], ast.Name):
                self.consts[st.targets[0].id] = st.value
            elif isinstance(st, ast.AnnAssign) and isinstance(st.target, ast.Name) and st.value is not None:
                self.consts[st.target.id] = st.value

    def segment(self, node):
        return ast.get_source_segment(self.text, node) or ""


class Index:
    def __init__(self, src=None, extern=None):
        self.src = src or SRC
        self.modules: dict[str, Module] = {}
        for rel, text in (extern or {}).items():
            self.modules[rel] = Module(rel, "<extern:%s>" % rel, text=text)
        for root, _dirs, files in os.walk(self.src):
            for f in sorted(files):
                if f.endswith(".py"):
                    p = os.path.join(root, f)
                    rel = os.path.relpath(p, self.src)
                    self.modules[rel] = Module(rel, p)
        self.classes: dict[str, ClassInfo] = {}
        for m in self.modules.values():
            for c in m.classes.values():
                # first definition wins; collisions are reported by lookup with module hint
                self.classes.setdefault(c.name, c)

    def cls(self, name, module=None) -> ClassInfo | None:
        if module is not None and name in module.classes:
            return module.classes[name]
        return self.classes.get(name)

    def function(self, qual: str, registry=None, variant=None):
        """qual = 'quic/stream.py::QuicStreamSender.get_frame' or 'quic/packet.py::decode_packet_number', or a REGION
        'quic/connection.py::QuicConnection._write_application@streams': a block contract on consecutive statements of the
        real function, extracted mechanically on every run (see region_node)."""
        rel, name = qual.split("::")
        m = self.modules[rel]
        if "@" in name:
            return self.region_node(m, name, registry, variant)
        if "." in name:
            c, f = name.split(".", 1)
            return m, m.classes[c], m.classes[c].methods[f]
        return m, None, m.functions[name]

    def region_node(self, m, name, registry, variant=None):
        """Block contract: the statements starting at the contract's `anchor` (unparsed statement text / compound header,
        optional '#n' for the n-th match; `span` consecutive statements, default 1) of the real function are wrapped,
        unchanged, into a synthetic FunctionDef whose parameters are `self` plus the locals the contract declares in
        `params` (the variables live at region entry).  What this drops: everything of the function outside the region -
        the region's `requires`/`assume_pre` therefore describe the state at region entry and are NOT proved by the
        region check; falling off the end of the region is its normal exit."""
        fname, label = name.split("@", 1)
        c, f = fname.split(".", 1) if "." in fname else (None, fname)
        cls = m.classes[c] if c else None
        fn = cls.methods[f] if cls else m.functions[f]
        contract = registry.contracts.get(name) if registry is not None else None
        if variant and registry is not None and registry.contracts.get(name + "#" + variant) is not None and registry.contracts[name + "#" + variant].region:
            # (C19) a VARIANT of a block contract ("Cls.fn@label#variant") may carry its own region (and need no plain twin)
            contract = registry.contracts[name + "#" + variant]
        if contract is None:
            raise KeyError("no region contract %s" % name)
        from .stmts import _head  # noqa

        text, _, nth = contract.region["anchor"].partition("#")
        nth = int(nth) if nth else 0
        if text == "sync-stretch":
            # (C19) the SYNCHRONOUS STRETCH of a coroutine function: the whole body of the `async def`, where every
            # statement of the form `await <expr>` (the coroutine suspends there; what runs before it ran to completion like
            # a callback) is replaced by `return <expr>`.  An `await` in any other position (`x = await f()`, `return await ..`)
            # is not supported.  A body without `await` is taken as it is.
            import copy

            class _Cut(ast.NodeTransformer):
                def visit_Expr(self, node):
                    if isinstance(node.value, ast.Await):
                        # the awaited expression is evaluated by the synchronous stretch and handed to the event loop: it
                        # becomes the region's result, so a contract can say WHAT is awaited (e.g. a shielded future)
                        return ast.copy_location(ast.Return(value=node.value.value), node)
                    return self.generic_visit(node)

                def visit_Await(self, node):
                    raise KeyError("sync-stretch of %s: `await` in expression position is not supported" % fname)

            stmts = [_Cut().visit(copy.deepcopy(st)) for st in fn.body]
            return self._region_fn(m, cls, f, label, contract, stmts)
        if text.startswith("calls:"):
            # semantic anchor: the statement containing a call of attribute/function `<name>` (n-th such statement),
            # widened to the innermost enclosing for/while loop ("widen": "loop", the default; the loop may enclose the
            # call through `if`/`try` statements) or left as the single statement ("widen": "stmt")
            callee = text[len("calls:"):].strip()
            widen = contract.region.get("widen", "loop")
            hits = []

            def has_call(st):
                for sub in ast.walk(st):
                    if isinstance(sub, ast.Call):
                        fnn = sub.func
                        if (isinstance(fnn, ast.Attribute) and fnn.attr == callee) or (isinstance(fnn, ast.Name) and fnn.id == callee):
                            return True
                return False

            def walk_c(body, loop):
                for i, st in enumerate(body):
                    subs = []
                    for fld in ("body", "orelse", "finalbody"):
                        sub = getattr(st, fld, None)
                        if isinstance(sub, list):
                            subs.append(sub)
                    for h in getattr(st, "handlers", []) or []:
                        subs.append(h.body)
                    if not subs:
                        if has_call(st):
                            hits.append(loop if (widen == "loop" and loop is not None) else (body, i))
                        continue
                    # a call in the header expression of a compound statement (loop iterable / condition)
                    hdr = [getattr(st, a) for a in ("test", "iter") if getattr(st, a, None) is not None]
                    if any(has_call(h) for h in hdr):
                        hits.append((body, i) if isinstance(st, (ast.For, ast.While)) or loop is None or widen != "loop" else loop)
                    nl = (body, i) if isinstance(st, (ast.For, ast.While)) else loop
                    for sub in subs:
                        walk_c(sub, nl)

            walk_c(fn.body, None)
            uniq = []
            for b, i in hits:
                if not any(b is b2 and i == i2 for b2, i2 in uniq):
                    uniq.append((b, i))
            if nth >= len(uniq):
                raise KeyError("no statement of %s calls %s" % (fname, callee))
            body, i = uniq[nth]
            stmts = body[i : i + int(contract.region.get("span", 1))]
            return self._region_fn(m, cls, f, label, contract, stmts)
        if text.startswith("writes:"):
            # semantic anchor, robust against the syntactic shape of the code: the statement that assigns the attribute
            # `<attr>` (n-th such statement), widened to the outermost chain of enclosing `if` statements
            attr = text[len("writes:"):].strip()
            hits = []

            def walk(body, chain):
                for st in body:
                    is_w = False
                    if isinstance(st, (ast.Assign, ast.AugAssign, ast.AnnAssign)):
                        tgts = st.targets if isinstance(st, ast.Assign) else [st.target]
                        for t in tgts:
                            for sub in ast.walk(t):
                                if isinstance(sub, ast.Attribute) and sub.attr == attr and isinstance(sub.ctx, ast.Store):
                                    is_w = True
                    if is_w:
                        hits.append((chain[0] if chain else (body, body.index(st))))
                    if isinstance(st, ast.If):
                        nxt = chain if chain else [(body, body.index(st))]
                        walk(st.body, nxt)
                        walk(st.orelse, nxt)
                    else:
                        for fld in ("body", "orelse", "finalbody"):
                            sub = getattr(st, fld, None)
                            if isinstance(sub, list):
                                walk(sub, [])
                        for h in getattr(st, "handlers", []) or []:
                            walk(h.body, [])

            walk(fn.body, [])
            uniq = []
            for b, i in hits:
                if not any(b is b2 and i == i2 for b2, i2 in uniq):
                    uniq.append((b, i))
            if nth >= len(uniq):
                raise KeyError("no statement of %s writes attribute %s" % (fname, attr))
            body, i = uniq[nth]
            stmts = body[i : i + int(contract.region.get("span", 1))]
            return self._region_fn(m, cls, f, label, contract, stmts)
        try:
            norm = ast.unparse(ast.parse(text).body[0])
        except SyntaxError:
            try:
                norm = _head(ast.parse(text + " pass").body[0])
            except SyntaxError:
                norm = text.strip()
        found = []

        def scan(body):
            for i, st in enumerate(body):
                if _head(st) == norm:
                    found.append((body, i))
                for fld in ("body", "orelse", "finalbody"):
                    sub = getattr(st, fld, None)
                    if isinstance(sub, list):
                        scan(sub)
                for h in getattr(st, "handlers", []) or []:
                    scan(h.body)

        scan(fn.body)
        if nth >= len(found):
            raise KeyError("region anchor %r not found in %s" % (contract.region["anchor"], fname))
        body, i = found[nth]
        stmts = body[i : i + int(contract.region.get("span", 1))]
        return self._region_fn(m, cls, f, label, contract, stmts)

    def _region_fn(self, m, cls, f, label, contract, stmts):
        params = ([ast.arg(arg="self")] if cls else []) + [ast.arg(arg=p) for p in contract.params if p != "self"]
        node = ast.FunctionDef(
            name="%s@%s" % (f, label),
            args=ast.arguments(posonlyargs=[], args=params, kwonlyargs=[], kw_defaults=[], defaults=[]),
            body=stmts, decorator_list=[], returns=None, lineno=stmts[0].lineno, col_offset=0,
        )
        node.end_lineno = stmts[-1].end_lineno
        node.region_src = "\n".join(m.segment(st) for st in stmts)
        return m, cls, node

    def find_method(self, cls: ClassInfo, name):
        seen = set()
        c = cls
        while c is not None and c.name not in seen:
            seen.add(c.name)
            if name in c.methods:
                return c, c.methods[name]
            nxt = None
            for b in c.bases:
                bc = self.cls(b, c.module)
                if bc is not None:
                    nxt = bc
                    break
            c = nxt
        return None, None

    def mro(self, cls: ClassInfo):
        out = []
        c = cls
        seen = set()
        while c is not None and c.name not in seen:
            out.append(c)
            seen.add(c.name)
            nxt = None
            for b in c.bases:
                bc = self.cls(b, c.module)
                if bc is not None:
                    nxt = bc
                    break
            c = nxt
        return out

    def exc_parent(self, name):
        if name in BUILTIN_EXC:
            return BUILTIN_EXC[name]
        c = self.classes.get(name)
        if c is not None:
            return c.bases[0] if c.bases else None
        # unknown name: an exception type only if it is spelled like one (third-party errors); Sequence, Enum, ... are not
        return "Exception" if (name.endswith("Error") or name.endswith("Exception") or name.startswith("Alert")) else None

    def exc_is_subclass(self, name, base):
        seen = set()
        while name is not None and name not in seen:
            if name == base:
                return True
            seen.add(name)
            name = self.exc_parent(name)
        return False

    def sha(self, module: Module, node) -> str:
        """hash of what the verification conditions of this function are generated from in ITS OWN module: the function
        (or region) text plus the definitions of the module-level constants it names, transitively (a changed constant,
        e.g. a frame capacity, changes the function's obligations although its own text is the same)"""
        src = getattr(node, "region_src", None) or module.segment(node)
        parts = [src]
        seen = set()
        todo = [n.id for n in ast.walk(node) if isinstance(n, ast.Name)]
        while todo:
            nm = todo.pop()
            if nm in seen or nm not in module.consts:
                continue
            seen.add(nm)
            val = module.consts[nm]
            try:
                parts.append("%s = %s" % (nm, ast.unparse(val)))
            except Exception:  # noqa
                parts.append(nm)
            todo.extend(n.id for n in ast.walk(val) if isinstance(n, ast.Name))
        return hashlib.sha256("\n".join([parts[0]] + sorted(parts[1:])).encode()).hexdigest()[:16]
