"""Which contracts constitute which property (functions are 'relpath::Qualified.name')."""

A1 = "A1: Python float arithmetic is encoded as exact real arithmetic (rounding, overflow, NaN, inf ignored); int(x) is truncation"
A2 = "A2: distinct object-typed parameters do not alias unless the contract says so"
PYSEM = "pyvc's encoding of the Python subset (DESIGN §2.1): int = mathematical Int (exact), list = (len, array), range = (start, stop), implicit failures (IndexError, assert, None dereference) are explicit raise outcomes"
SOLVERS = "soundness of z3 5.1.0 (API), /usr/bin/cvc5 1.0.3 and /usr/bin/z3 4.8.12 (only consulted when the first answers unknown)"
EXTRACT = "extraction: the FunctionDef is taken from the current file by qualified name with python's ast; docstrings, annotations and logger calls are dropped (DESIGN §2.1), nothing else"

PROPS = {}

A3_ = "A3: C pointers are (object, offset) in a flat 64-bit address space; every object satisfies 0 < addr and addr + size <= 2^47, so `pos + len > end` style comparisons are evaluated as the target evaluates them and their non-wrapping is proved, not assumed"
A4_ = "A4: AEAD objects use stream-mode AEAD ciphers (EVP block size 1: the names in quic/crypto.py CIPHER_SUITES, proved as postcondition of CryptoContext.setup); header-protection ciphers have block size <= 16"
CSEM_ = "cwp's encoding of C (DESIGN 2.2): the clang JSON AST of the real file after preprocessing with the real Python.h / OpenSSL headers; integers are bit-vectors of their LP64 width, implicit conversions executed as recorded in the AST, signed overflow / out-of-range shifts / out-of-bounds or NULL accesses are proof obligations, loops unrolled with an unwinding obligation"
CSTUBS_ = "trusted C contracts (engine/cwp/stubs.py): PyArg_ParseTuple[AndKeywords] by format string, PyBytes_FromStringAndSize, Py_BuildValue, PyLong_From*, PyErr_*, malloc/free/memcpy/memset/memcmp, OpenSSL EVP_* with the extents of EVP_EncryptInit(3)"

RS = "quic/rangeset.py::RangeSet."
RX = "quic/stream.py::QuicStreamReceiver."
TX = "quic/stream.py::QuicStreamSender."
RENO = "quic/congestion/reno.py::RenoCongestionControl."
BASE = [PYSEM, SOLVERS, EXTRACT]
SUBTRACT = "RangeSet.subtract is PROVED (two-phase loop invariant, contracts/quic_rangeset.py); nothing assumed about it"
CALLERS_ONCE = "caller history: the recovery layer reports each sent frame acknowledged or lost at most once, and a range reported lost lies inside the sender's current buffer window (precondition of on_data_delivery, not proved here)"

CONN0 = "quic/connection.py::QuicConnection."

CRY = "quic/crypto.py::"
PROPS["C02"] = dict(
    functions=[
        "quic/packet.py::decode_packet_number",
        CRY + "derive_key_iv_hp", CRY + "CryptoContext.__init__", CRY + "CryptoContext.setup", CRY + "CryptoContext.decrypt_packet", CRY + "CryptoContext.encrypt_packet",
        CRY + "next_key_phase", CRY + "apply_key_phase", CRY + "CryptoPair.setup_initial", CRY + "CryptoPair.decrypt_packet", CRY + "CryptoPair._update_key",
        CONN0 + "receive_datagram@expected_pn",
        "_crypto.c::AEAD_init", "_crypto.c::AEAD_decrypt", "_crypto.c::AEAD_encrypt", "_crypto.c::HeaderProtection_init", "_crypto.c::HeaderProtection_apply", "_crypto.c::HeaderProtection_remove",
    ],
    bounded=["native-xcheck-pn", "ccrypto-boundary"],
    scope="decided for all inputs: (1) a truncated packet number is expanded to the candidate congruent to it that is closest to the next expected number, for all four lengths (decode_packet_number, and again as postcondition of decrypt_packet); (2) key derivation follows RFC 9001 5.1-5.2 / RFC 9369 3.3: labels 'quic key|iv|hp|ku' resp. 'quicv2 ...' chosen by version, key length by cipher suite, IV 12 bytes, initial salt and 'client in'/'server in' labels by version and role, cipher names by suite; a key update installs AEAD keys, phase bit and the secret the next update starts from; (3) opening: header protection removed first, the AEAD input is everything after the unprotected header, its associated data is the WHOLE unprotected header, its packet number the expanded one, keyed by the current keys iff the key-phase bit of a short header equals the current phase and by the next generation's keys otherwise; CryptoContext.decrypt_packet writes no field of any existing object (checked frame), so a packet that fails to open changes no key state; the key phase advances exactly on an authentic short-header packet carrying the other phase bit; (4) sealing = header protection over (plain header, AEAD(payload, associated data = whole plain header, packet number)); (5) C level, bit-precise: nonce = IV xor packet number (64-bit big-endian, right-aligned), the whole `associated` argument is authenticated, all 16 tag bytes are checked / appended, header protection masks exactly the low 4/5 bits of byte 0 and the pn_length packet-number bytes, sample offset per RFC 9001 5.4.2, remove() returns the unmasked header and the non-negative truncated number",
    lemma="C02 sentence 1 (bit-exact recovery by an independent RFC implementation): the Python contracts say WHICH values reach the primitives (uninterpreted HKDF / AEAD / mask functions), the C contracts say the primitives are invoked on exactly those values, and the bounded stand-in ccrypto-boundary compares the compiled C with `cryptography` on boundary lengths; clause 'closest candidate' = decode_packet_number. Sentence 2 at the crypto layer: decrypt_packet raises CryptoError unless the AEAD opens (assumption: opening succeeds only for a genuine sealing) and has an empty frame",
    not_decided="unforgeability of the AEAD (cryptographic assumption), the connection layer's reaction to CryptoError (receive_datagram: drop without events - not under contract), Retry integrity tag, expected_packet_number bookkeeping in receive_datagram, agreement of OpenSSL with the RFC test vectors beyond the bounded stand-in",
    trusted_base=BASE + [CSEM_, CSTUBS_, A3_, A4_, "uninterpreted primitives hkdf_label / hkdf_ext / aead_seal / hp_apply / hash_of_suite (contracts/quic_crypto.py): what is proved is which arguments reach them", "AEAD authenticity assumption: AEAD.decrypt returns normally only for the sealing of its result under the same key, nonce and associated data"],
    assumptions=[A3_, A4_, "CryptoPair.recv is not CryptoPair.send (two fresh contexts from __init__, assumed at setup_initial/_update_key/decrypt_packet)"],
)

PROPS["C06"] = dict(
    functions=[(TX + "get_frame", 6), TX + "__init__", TX + "write", TX + "get_reset_frame", (TX + "on_data_delivery", 4), TX + "next_offset", RS + "__init__", RS + "add", RS + "subtract", RS + "shift", RS + "__getitem__",
               CONN0 + "_write_stream_frame", CONN0 + "_write_reset_stream_frame", CONN0 + "_write_stop_sending_frame", RX + "get_stop_frame", CONN0 + "_write_application@stream_credit",
               CONN0 + "_unblock_streams", CONN0 + "_handle_max_data_frame"],
    bounded=["rangeset-smallscope", "stream-sender-model", "native-xcheck-stream"],
    scope="CONNECTION LEVEL (all states satisfying the stated entry conditions, all arguments): _write_stream_frame returns exactly the growth of the stream's highest offset (0 for a retransmission) and never lets it pass max_offset; the per-stream block of _write_application's stream loop (block contract, extracted from the real function on every run) adds exactly that growth to the connection-wide counter, keeps the counter within the peer's MAX_DATA and the stream within the peer's per-stream limit, and puts NOTHING on the wire (no STREAM, RESET_STREAM or STOP_SENDING) for a stream still blocked by the peer's stream-count limit; a frame taken out of a send half is always written (no QuicPacketBuilderStop after get_frame: a FIN-only frame cannot be lost); _unblock_streams unblocks exactly the queued streams now below the limit, in order, stopping at the first that is not; MAX_DATA only grows the limit. SEND HALF: every STREAM frame cut by get_frame ends at or below max_offset (the per-stream/connection credit handed in by the connection) and carries at most max_size bytes; highest_offset is the running maximum of frame ends, so a retransmitted range (offset below highest_offset) does not raise it and consumes no additional credit; the RESET_STREAM final size equals highest_offset",
    lemma="per-stream clause of C06: by induction over calls, highest_offset = max over emitted frames of offset+len (get_frame ensures.5/6, write leaves it unchanged), and each emitted frame satisfies offset+len <= max_offset (ensures.2); hence highest offset sent <= the limit passed by the caller at that call",
    not_decided="the rest of _write_application (the block contract's entry conditions - counter within MAX_DATA, stream within its limit, a packet open - are ASSUMED at block entry, they are established by the previous iterations and by start_packet, which is not composed here), _get_or_create_stream_for_send (blocking of new streams beyond the limit), MAX_STREAM_DATA / MAX_STREAMS handlers, _parse_transport_parameters (0-RTT remembered limits), 'blocked data is sent once the limit is raised' (liveness)",
    trusted_base=BASE,
    assumptions=[A2],
)

PROPS["C07"] = dict(
    functions=[RX + "__init__", RX + "handle_reset", (RX + "handle_frame", 12), RX + "_pull_data", RS + "__init__",
               CONN0 + "_get_or_create_stream", (CONN0 + "_handle_stream_frame", 6), CONN0 + "_handle_reset_stream_frame", CONN0 + "_handle_path_challenge_frame"],
    bounded=["stream-receiver-model", "native-xcheck-stream"],
    scope="decided for all receive-half states and all frames/resets: FinalSizeError is raised exactly when data lies beyond, or a FIN or reset disagrees with, an already fixed final size (both directions), an accepted FIN/reset fixes the final size, highest_offset is the running maximum of frame ends, and a refused frame/reset leaves final size, highest offset, delivery position and finished flag unchanged",
    lemma="final-size clause of C07 ('a final size beyond/contradicting ... closes with the final-size error, a conforming peer is never accused') = raises-iff of handle_frame and handle_reset; connection.py maps FinalSizeError to FINAL_SIZE_ERROR (not proved here)",
    not_decided="flow-control and stream-limit checks in connection.py (_handle_stream_frame, _get_or_create_stream), reassembly byte bounds, MAX_PENDING_CRYPTO / challenge / retire caps",
    trusted_base=BASE,
    assumptions=[A2],
)

CUBIC = "quic/congestion/cubic.py::CubicCongestionControl."
RTTM = "quic/congestion/base.py::QuicRttMonitor."
REC = "quic/recovery.py::QuicPacketRecovery."
CB_FRAME = "callback frame (OPAQUE_CALL in contracts/quic_recovery.py): delivery handlers and the send_probe callback neither raise nor modify the sent-packet maps / counters of the packet spaces, the QuicSentPacket records, the congestion controller, the pacer or QuicPacketRecovery's own fields; everything else they may reach is havocked"
ACKSET_LOCAL = "the RangeSet handed to on_ack_received is local to that call (built by the frame parser): delivery handlers cannot modify it (opaque_keeps)"
REC_INIT = "initial state: QuicPacketRecovery.__init__ (create_congestion_control goes through a module-level factory dict, outside the subset) and QuicPacketSpace.__init__ are not verified; the ledger invariant is assumed to hold initially (bytes_in_flight = 0 by the class attribute default, no packet tracked, ghost totals 0)"
REC_PRE = "caller obligations of QuicPacketRecovery (preconditions, to be discharged in connection.py, not proved here): on_packet_sent is called with a packet number not yet tracked in that space, sent_bytes >= 0, sent_time set, and a packet object that was never registered or reported before; on_ack_received with a non-empty range set; the multi-space operations with every space in self.spaces satisfying space_ok"
DICT_MODEL = "engine/pyvc/dictiter.py: dict views are enumerated in an ARBITRARY order of pairwise distinct keys covering exactly the domain (sorted(): ascending); ghost sums over a dict's values (R.dict_sum) are maintained by the engine at every store/del/pop/clear and tied to enumerations by prefix sums (facts about finite sums, stated in the module docstring); filter() is modelled as evaluated at creation"
RTTM_INIT = "QuicRttMonitor.__init__ (list comprehension) is assumed to establish: 5 samples, index 0, not ready"
CUBE_ROOT = "better_cube_root (float ** (1/3)) is modelled as an arbitrary real; no fact about it is used (assumed only not to raise)"

PROPS["C08"] = dict(
    functions=[
        RENO + "__init__", RENO + "on_packet_acked", RENO + "on_packet_sent", RENO + "on_packets_expired", RENO + "on_packets_lost", RENO + "on_rtt_measurement",
        CUBIC + "__init__", CUBIC + "reset", CUBIC + "on_packet_acked", CUBIC + "on_packet_sent", CUBIC + "on_packets_expired", CUBIC + "on_packets_lost", CUBIC + "on_rtt_measurement",
        RTTM + "add_rtt", RTTM + "is_rtt_increasing",
        RS + "__contains__", "quic/recovery.py::QuicPacketPacer.update_rate",
        REC + "on_packet_sent", (REC + "on_ack_received", 4), REC + "_on_packets_lost", REC + "_detect_loss", REC + "_get_loss_space",
        REC + "on_loss_detection_timeout", REC + "reschedule_data", REC + "discard_space",
    ],
    bounded=["native-xcheck-reno"],
    scope=(
        "decided for all states, arguments and call histories (class invariants / per-operation contracts), floats as reals: "
        "(a) WINDOW FLOOR, Reno and CUBIC: congestion_window >= 2 * max_datagram_size is an inductive class invariant of both controllers (established by __init__ / reset, preserved by on_packet_acked, on_packet_sent, on_packets_expired, on_packets_lost, on_rtt_measurement); "
        "(b) CONTROLLER LEDGER, Reno and CUBIC (both satisfy one interface contract of QuicCongestionControl, same preconditions): bytes_in_flight moves by exactly +sent_bytes on sent, -sent_bytes on acked, minus the total sent_bytes of the list on lost/expired (prefix-sum witness), is untouched by on_rtt_measurement and by CUBIC's reset() (also enforced as a frame condition); "
        "(c) RECOVERY LEDGER: after each of on_packet_sent, on_ack_received (ANY non-empty range set: never-sent, already-acked, beyond-largest numbers), _detect_loss, _on_packets_lost, on_loss_detection_timeout, reschedule_data and discard_space, controller.bytes_in_flight equals the ghost total g_total, which moves only together with the touched space's g_flight = SUM over that space's sent_packets of (sent_bytes if in_flight else 0), a sum the engine maintains at every mutation of the dict; g_flight >= 0 for every space; "
        "(d) SINGLE REMOVAL: on_ack_received removes exactly the tracked packets whose number is in the acknowledged set; every packet declared lost is removed from the map whether or not it is in flight; discard_space empties the map; no operation adds or replaces an entry except on_packet_sent (exactly one new number); "
        "(e) AT MOST ONCE: every packet removed by ack/loss has its delivery handlers run exactly once, with ACKED iff its number is in the acknowledged set and LOST otherwise, no other packet's handlers run, discard_space runs none; a tracked packet has never been reported and a reported packet is never tracked again (ghost report counters and single-registration owner), so each packet is reported at most once over any history; "
        "(f) ack_eliciting_in_flight equals the number of tracked ack-eliciting packets (engine-maintained count) after every operation."
    ),
    lemma=(
        "ledger clause of C08: by (c) the invariant cc.bytes_in_flight = g_total holds after every public recovery call, and every contract states g_total - space.g_flight unchanged for the one space it touches while other spaces' fields are outside its frame, so g_total = SUM over spaces of g_flight (induction over the call history from the initial state, assumption REC_INIT); g_flight is the exact sum over the tracked in-flight packets (engine-maintained, dictiter.py); hence bytes in flight = total size of the in-flight packets still tracked, and >= 0 because every g_flight >= 0 (proved from sent_bytes >= 0 of tracked packets). 'reported at most once' = (e). 'window never below two datagrams' = (a). All controller calls made by recovery.py go through the interface contract that both controllers are proved to satisfy."
    ),
    not_decided=(
        "the flight budget of the packet builder / datagrams_to_send (last sentence of C08: in-flight bytes per send versus the window, probe datagram exception); the preconditions listed under REC_PRE at the call sites in connection.py; QuicPacketRecovery.__init__ / QuicPacketSpace.__init__ (REC_INIT); which packets _detect_loss examines (the dict order is left arbitrary, so the early `break` is not credited; only that whatever it declares lost is tracked, distinct and not newer than the largest acknowledged number); get_loss_detection_time / get_probe_timeout (timers, C09); behaviour when a delivery handler raises; floating-point rounding (A1)"
    ),
    trusted_base=BASE + [A1, DICT_MODEL, CB_FRAME, ACKSET_LOCAL, RTTM_INIT, CUBE_ROOT, "qlog/logging calls (QuicLoggerTrace.log_event/packet_type/encode_time, QuicPacketRecovery._log_metrics_updated, logger.debug) are stubs without effect on protocol state"],
    assumptions=[A1, A2, CB_FRAME, ACKSET_LOCAL, REC_INIT, REC_PRE, RTTM_INIT, CUBE_ROOT],
)

PROPS["C10"] = dict(
    functions=[
        RS + "__init__", RS + "add", RS + "subtract", RS + "shift", RS + "bounds", RS + "__getitem__", RS + "__len__",
        RX + "__init__", RX + "handle_reset", (RX + "handle_frame", 12), RX + "_pull_data",
        TX + "__init__", (TX + "get_frame", 6), TX + "write", TX + "reset", TX + "get_reset_frame", TX + "on_reset_delivery", (TX + "on_data_delivery", 4),
    ],
    bounded=["rangeset-smallscope", "stream-receiver-model", "stream-sender-model", "native-xcheck-stream"],
    scope="decided for all inputs and call histories: RangeSet add/shift/bounds/index against the abstract set-of-integers view with the sortedness/disjointness representation invariant; receive half: final-size error exactly when required, FIN/reset fix the final size; send half: frames start at the first pending offset, stay within size and offset caps, remove exactly their range from the pending set, write adds exactly the written range, nothing is offered after reset (get_frame refuses), reset latches the first error code, completion on acknowledged reset",
    lemma="the listed clauses of C10 are postconditions / raises-iff clauses of the functions above; byte-for-byte equality of delivered data with the reference offset->byte map, and re-offer after loss (on_data_delivery), are covered only by the bounded model-based stand-ins",
    not_decided="nothing of the stream halves or the range set is left to bounded checks: byte-level equality with the reference model, on_data_delivery and RangeSet.subtract are proved",
    trusted_base=BASE,
    assumptions=[A2],
)

PROPS["C12"] = dict(
    functions=[RS + "__init__", RS + "add", RS + "subtract", RS + "shift", RS + "bounds", RS + "__getitem__", RS + "__len__", CONN0 + "receive_datagram@record", CONN0 + "_on_ack_delivery"],
    bounded=["rangeset-smallscope"],
    scope="CONNECTION LEVEL: the tail of receive_datagram (block contract on the statement that records a packet, reached only after the AEAD opened the packet and its payload was processed without a connection error) adds exactly that packet number to the set to be acknowledged, arms the acknowledgement deadline of an ack-eliciting packet at now + the acknowledgement delay unless an earlier deadline is pending, and never postpones a pending deadline; an acknowledged ACK frame prunes exactly the numbers up to the largest number that frame carried, a lost one prunes nothing. DATA STRUCTURE: decided for all histories of the acknowledgement range set: after any sequence of add() calls the set contains exactly the packet numbers that were added (view' = view ∪ [start,stop) per call, nothing else changes), kept sorted, disjoint and non-adjacent, which is the structure push_ack_frame encodes",
    lemma="soundness clause of C12 at the data-structure level: ack_queue.add(pn) is the only writer on the receive path, so the ACK range set lists only recorded packet numbers",
    not_decided="that receive_datagram records a packet only after successful authentication, the ACK frame encoder push_ack_frame (C Buffer), ACK timing",
    trusted_base=BASE,
    assumptions=[],
)

H3 = "h3/connection.py::"
H3INT = "int(<bytes>) for content-length is a TRUSTED stub (contracts/h3_headers.py, contract 'int'): two uninterpreted functions py_int_ok / py_int_val of the byte string plus the grammar facts G1-G4 (empty rejected; all-digit strings of length 1..4300 accepted with a non-negative value; an accepted string has a digit and only bytes of {HT LF VT FF CR SP + - _ 0-9}; a negative value needs '-'), i.e. CPython's  ws* [+-]? digit+ ('_' digit+)* ws*  -  b'+5', b' 5 ', b'1_0', b'\\x0b5' ARE accepted content-lengths; cross-checked against CPython by tools/xcheck_pyint.py (446 207 strings, 0 disagreements)"
H3SET = "set[bytes] / frozenset[bytes] values are arrays over integer ids bkey(b) of byte strings; assumed: bkey(a) == bkey(b) <=> a and b are equal byte strings (sym.bkey_axiom; a model exists: any injective numbering), and every member of a set[bytes] is the id of some byte string (sym.wf); frozenset(<tuple display>), set.add, set.difference, `in`, truthiness are interpreted over these arrays"
H3QPACK = "H3Connection._decode_headers (pylsqpack boundary): assumed to return a list of (bytes, bytes) pairs or raise QpackDecompressionFailed / pylsqpack.StreamBlocked, and not to touch H3Stream bookkeeping; not verified"
H3FRAME = "modifies clauses are trusted by the engine (no frame check); for the H3Stream bookkeeping fields the frame is instead PROVED as explicit quantified ensures (h3_streams_untouched / the frame clause of validate_headers)"
PROPS["C15"] = dict(
    functions=[
        H3 + "validate_header_name", H3 + "validate_header_value", H3 + "validate_headers",
        H3 + "validate_request_headers", H3 + "validate_response_headers", H3 + "validate_trailers", H3 + "validate_push_promise_headers",
        H3 + "H3Connection._check_content_length", (H3 + "H3Connection._handle_request_or_push_frame", 4),
    ],
    bounded=["native-xcheck-h3"],
    scope="decided for ALL header lists (any length, any bytes) and all allowed/required sets: (1) validate_header_name / validate_header_value raise MessageError exactly when a name has a byte <= 0x20, an upper-case letter, a byte >= 0x7F or a non-initial colon / a value contains NUL, CR, LF or starts or ends with SP/HTAB; (2) validate_headers raises MessageError exactly when the block is not h3_block_ok: some name or value is bad, a pseudo-header follows a regular header, a pseudo-header is repeated or not in the allowed set, a required pseudo-header is missing, or one of the implementation's extra rules fails (content-length not a non-negative int() spelling, transfer-encoding other than 'trailers', http(s) :scheme without non-empty :authority and :path) - both directions - and on return stream.expected_content_length is the value of the LAST content-length field (unchanged when there is none), no other stream bookkeeping is written; (3) the four wrappers raise exactly when the block is not a well-formed request (:method and :authority present, pseudo-headers among :method :scheme :authority :path :protocol), response (:status present, no other pseudo-header), trailers (no pseudo-header at all), push promise (exactly the four request pseudo-headers) - names spelled out as byte-string comparisons; (4) _check_content_length raises exactly when a declared content-length differs from the bytes counted; (5) _handle_request_or_push_frame: a HeadersReceived / PushPromiseReceived event is the only event of its call and carries exactly the list object the validator of the right kind (response on clients, request on servers, trailers after the first block) accepted; a DATA frame adds exactly len(frame_data) to stream.content_length and yields at most one DataReceived with that payload; whenever a DATA or HEADERS frame ends the stream and the call returns, expected_content_length is None or equals content_length; MessageError escapes only for a block that breaks a rule or for a content-length mismatch at the end of the stream (never accused); other frame types produce no event and leave the bookkeeping alone",
    lemma="C15 sentence 1 (names, values, pseudo-header order / uniqueness / allow-list, :method / :status / none on trailers) = raises-iff of the four wrappers, which are proved from the raises-iff of validate_headers by instantiating its abstract allowed / required sets with the frozenset displays in the source, which in turn uses the raises-iff of validate_header_name / validate_header_value per item; 'handed to the application' = the only places that construct HeadersReceived / PushPromiseReceived are in _handle_request_or_push_frame, whose ensures tie the event's list to the validated one; content-length clause = (a) validate_headers records the declared value, (b) every DATA payload delivered through _handle_request_or_push_frame is counted (ensures.0), (c) a stream-ending DATA / HEADERS frame returns only if _check_content_length accepted (ensures.3); sentence 2 (the rule breaker gets MessageError instead of the event) = the same iff read right-to-left plus on_raise.MessageError; that MessageError becomes close(H3_MESSAGE_ERROR) is the class attribute error_code of MessageError handled in handle_event (not under contract)",
    not_decided="H3Connection._receive_request_or_push_data is NOT under contract: its DATA-fragment shortcut (adds len(buffer) to content_length and emits the same bytes) and its lone-FIN branch (calls _check_content_length before emitting the final DataReceived) are read, not proved; so is handle_event's mapping of MessageError to H3_MESSAGE_ERROR and the claim that no other code constructs these events. FINDINGS kept as separate clauses (contracts/h3_headers.py C15_FINDING_CLAUSES, enabled with C15_STRICT=1, natively reproduced by tools/repro_c15_findings.py): F1 several content-length fields with different values are accepted and only the last is compared with the body; observation F2: a stream ended by a frame of unknown type (e.g. GREASE 0x21 with FIN) gets neither the content-length check nor any end-of-stream event. Seeded defect 2 (content-length no longer ends the pseudo-header section) is NOT discharged (loop0.preserve of the after_pseudo_headers invariant) but the solver returns unknown rather than a model; the bounded cross-check native-xcheck-h3 produces the concrete failing block",
    trusted_base=BASE + [H3INT, H3SET, H3QPACK, H3FRAME, "qlog calls QuicLoggerTrace.log_event / encode_http3_* are stubs (total, no effect on modelled state)", "Buffer: contracts/buffer_model.py (Python-level restatement of the cwp-proved C contract)"],
    assumptions=[H3INT, H3SET, H3QPACK, A2],
)

PROPS["C17"] = dict(
    functions=["buffer.py::size_uint_var"] + ["_buffer.c::Buffer_" + n for n in ("data_slice", "eof", "pull_bytes", "pull_uint8", "pull_uint16", "pull_uint32", "pull_uint64", "pull_uint_var", "push_bytes", "push_uint8", "push_uint16", "push_uint32", "push_uint64", "push_uint_var", "seek", "tell", "capacity_getter", "data_getter")] + ["lemma::varint_roundtrip", "lemma::fixed_roundtrip"],
    bounded=["varint-codec", "native-xcheck-varint", "cbuffer-model"],
    scope="decided for all values, positions and capacities (bit-vector proof on the real C): every fixed-width push/pull is the big-endian encoding / decoding of its width, push_uint_var writes exactly the minimal RFC 9000 section 16 encoding (1/2/4/8 bytes by value, two-bit length prefix) and raises ValueError exactly above 2^62-1, pull_uint_var returns exactly the RFC decoding of the bytes at the position and advances by the encoded length; BufferReadError / BufferWriteError exactly when the bytes do not fit, and then position and bytes are unchanged ('never reading past the declared length'); round trip decode(encode(v)) = v and length agreement as lemmas over the two specification functions; size_uint_var = minimal length, ValueError exactly above 2^62-1",
    lemma="C17 'variable-length integer, fixed-width integer' clauses: encoder postcondition (bytes written = enc(v)) + decoder postcondition (value = dec(bytes)) + lemma dec(enc(v)) = v and |enc(v)| = size(v); the specification functions are written from RFC 9000 section 16, not from the C code ('independent encoder')",
    not_decided="ACK range sets, packet headers, Retry / Version Negotiation, transport parameters, TLS handshake messages (Python codecs over the Buffer contract: not under contract yet); out-of-range integers passed to the fixed-width push functions are truncated by the CPython argument parser (format units B/H/I/K do no overflow checking) - the contracts take the parsed value as the value",
    trusted_base=BASE + [CSEM_, CSTUBS_, A3_],
    assumptions=[A3_],
)


A3 = "A3: C pointers are (object, offset) in a flat 64-bit address space; every object satisfies 0 < addr and addr + size <= 2^47, so `pos + len > end` style comparisons are evaluated as the target evaluates them and their non-wrapping is proved, not assumed"
A4 = "A4: AEAD objects use stream-mode AEAD ciphers (EVP block size 1: the names in quic/crypto.py CIPHER_SUITES); header-protection ciphers have block size <= 16"
CSEM = "cwp's encoding of C (DESIGN §2.2): the clang JSON AST of the real file after preprocessing with the real Python.h / OpenSSL headers; integers are bit-vectors of their LP64 width, implicit conversions executed as recorded in the AST, signed overflow / out-of-range shifts / out-of-bounds or NULL accesses are proof obligations, loops unrolled with an unwinding obligation"
CSTUBS = "trusted C contracts (engine/cwp/stubs.py): PyArg_ParseTuple[AndKeywords] by format string (y# gives len >= 0 bytes plus a NUL; n/I/K/B/H deliver ANY value of their width, no overflow check), PyBytes_FromStringAndSize, Py_BuildValue, PyLong_From*, PyErr_*, malloc (success implies size <= 2^47)/free/memcpy/memset/memcmp, OpenSSL EVP_* with the extents of EVP_EncryptInit(3): EVP_CipherUpdate writes at most inl + block_size - 1 bytes, GET_TAG writes and SET_TAG reads `arg` bytes, CipherInit reads key_len / iv_len bytes"
CB = "_buffer.c::Buffer_"
CC = "_crypto.c::"
_BUFFER_FNS = [CB + n for n in ("init", "dealloc", "data_slice", "eof", "pull_bytes", "pull_uint8", "pull_uint16", "pull_uint32", "pull_uint64", "pull_uint_var", "push_bytes", "push_uint8", "push_uint16", "push_uint32", "push_uint64", "push_uint_var", "seek", "tell", "capacity_getter", "data_getter")]
_CRYPTO_FNS = [CC + n for n in ("AEAD_init", "AEAD_decrypt", "AEAD_encrypt", "HeaderProtection_init", "HeaderProtection_apply", "HeaderProtection_remove")]

PROPS["C04"] = dict(
    functions=_BUFFER_FNS + _CRYPTO_FNS,
    bounded=["cbuffer-model", "ccrypto-boundary"],
    scope="decided for EVERY argument the CPython argument parser can deliver (any Py_ssize_t, any bytes object, any 32/64-bit pattern) and every object state satisfying the class invariant: each function of _buffer.c and each entry point of _crypto.c (create_ctx and HeaderProtection_mask are inlined at their call sites) keeps every load, store, memcpy/memset and every OpenSSL access inside the object it was given or its own scratch arrays, commits no signed overflow or out-of-range shift, returns NULL exactly when a Python exception is set, and re-establishes the class invariant on every exit (Buffer: base is the start of a live allocation, base <= pos <= end inside it; AEAD / HeaderProtection: contexts, key, IV intact) - so oversized, truncated or otherwise unusable input is rejected with an exception and the helper stays usable. Buffer_init ESTABLISHES the invariant for every capacity / data",
    lemma="C04 = conjunction, over the 26 C functions, of the c-safety obligations (one per memory access / arithmetic operation) and the invariant postconditions; the Python call sites need no precondition because the C functions are total-safe",
    not_decided="OpenSSL and CPython internals (trusted extents), AEAD_dealloc / HeaderProtection_dealloc (free only), module initialisation; that setup.py compiles exactly these sources",
    trusted_base=BASE + [CSEM, CSTUBS, A3, A4],
    assumptions=[A3, A4],
)


TLSX = "tls.py::Context."
A5 = "A5: callbacks stored in Context fields (update_traffic_key_cb, alpn_cb, new_session_ticket_cb, get_session_ticket_cb) are external code: they do not re-enter or write the Context; they may raise (modelled as CallbackError)"
A6 = "A6: signature validity is an uninterpreted predicate sig_ok(certificate, signature, signed data, parameters); public_key.verify raises InvalidSignature exactly when it is false; the signed data is an uninterpreted function of (transcript bytes, role string); MAC values are arbitrary byte strings (the adversary may make every comparison succeed)"
TLS_STUBS = "trusted stubs in contracts/tls_state.py (assumed, never verified): the tls.py message parsers pull_* / serializers push_* (arbitrary well-typed message, may raise anything except being silent about it), KeySchedule / KeyScheduleProxy methods (transcript = bytes fed to update_hash; extract increments generation), verify_certificate, signature_algorithm_params, decode_public_key, _signature_algorithms_for_private_key, _build_session_ticket, the `cryptography` / ssl / os / struct calls, the C Buffer model (contracts/buffer_model.py)"

PROPS["C11"] = dict(
    functions=[
        TLSX + "__init__", TLSX + "handle_message", TLSX + "_handle_reassembled_message",
        TLSX + "_set_state", TLSX + "_setup_traffic_protection", TLSX + "_check_certificate_verify_signature", TLSX + "_set_peer_certificate",
        TLSX + "_client_handle_hello", TLSX + "_client_handle_encrypted_extensions", TLSX + "_client_handle_certificate_request",
        TLSX + "_client_handle_certificate", TLSX + "_client_handle_certificate_verify", TLSX + "_client_handle_finished",
        TLSX + "_client_handle_new_session_ticket",
        TLSX + "_server_expect_finished", TLSX + "_server_handle_certificate", TLSX + "_server_handle_certificate_verify", TLSX + "_server_handle_finished",
    ],
    bounded=[],
    scope="decided for all 13 states x all integer message types x all message contents and all histories (class invariant): (1) dispatch: _handle_reassembled_message raises AlertUnexpectedMessage exactly for the (state, type) pairs outside the RFC 8446 A.1/A.2 table (code points from RFC 8446 section 4; nothing after the handshake except NewSessionTicket on the client), and then state, key schedule object and transcript, traffic keys, key-release log, peer certificate, resumption / verification flags are all unchanged (no handler ran); any other failure concerns a legal message and does not advance the state; a processed message moves the state exactly along the RFC transition relation; handle_message never dispatches before the ClientHello was sent. (2) transitions: every handler is entered only in its state(s), never raises the unexpected-message alert itself, changes the state only as its last effect; CLIENT_EXPECT_FINISHED is entered only by _client_handle_certificate_verify after _check_certificate_verify_signature returned, which it does exactly when the algorithm was advertised and the signature verifies under the certificate the server sent over the transcript with the server role string (raises AlertDecryptError exactly otherwise), or by _client_handle_encrypted_extensions when _session_resumed, which _client_handle_hello sets only when a PSK had been offered (_key_schedule_psk present) and the ServerHello selected identity 0. (3) key release: update_traffic_key_cb invocations are logged in order; per handler the log grows by exactly: ServerHello (DECRYPT,HANDSHAKE); EncryptedExtensions (ENCRYPT,HANDSHAKE); client Finished (DECRYPT,ONE_RTT),(ENCRYPT,ONE_RTT) and server-side Finished (DECRYPT,ONE_RTT), both only after the received verify_data equalled the expected one (also on every failure path); Certificate / CertificateRequest / CertificateVerify / NewSessionTicket release nothing",
    lemma="Class invariant H of tls.Context, established by __init__ and preserved by every verified method on normal AND exceptional exit: H1 state in {CLIENT_EXPECT_FINISHED, CLIENT_POST_HANDSHAKE} => g_cv_ok or _session_resumed; H2 client and _session_resumed => g_psk_sel (PSK offered and selected); H5 g_cv_ok false before a CertificateVerify was accepted; H7 POST_HANDSHAKE => peer Finished matched. g_cv_ok is DEFINED (ghost_exit) as the outcome of the RFC 4.4.3 check on the entry transcript, so a handler that reaches CLIENT_EXPECT_FINISHED without a passing check violates H1/H5. Since the dispatcher is the only caller of the handlers and refuses everything outside the table without side effects, every history (any order, omission, repetition of the server flight, with arbitrary MAC outcomes) that ends in CLIENT_POST_HANDSHAKE passed a verified CertificateVerify or an offered-and-selected PSK, then a matching Finished; application read keys appear in the key log only in the Finished handlers after the match",
    not_decided="Context._server_handle_hello (228 lines: its contract - state SERVER_EXPECT_CERTIFICATE/FINISHED, key schedule present, flags kept - is ASSUMED at the dispatcher, so the server-side key-release order and H for the server's first step are not proved) and Context._client_send_hello (assumed at handle_message: state CLIENT_EXPECT_SERVER_HELLO, flags kept; that _key_schedule_psk is set exactly when a PSK is put into the ClientHello is by inspection); HelloRetryRequest (unsupported by the code); the QUIC side (connection._update_traffic_key, HandshakeCompleted); that the MAC / signature primitives are sound (A6). H4/H6 (server-side analogue) are refuted for _server_handle_certificate on an exception path: recorded finding",
    trusted_base=BASE + [TLS_STUBS, A5, A6],
    assumptions=[A2, A5, A6],
)

CONN = "quic/connection.py::QuicConnection."
C18_INV = "C18 invariants PC (peer-issued IDs) and HC (host-issued IDs) are assumed at entry of each listed entry point (`requires`) and proved at every normal exit of every listed function that writes their fields; QuicConnection.__init__ (which establishes them: current ID 0, no spares, seen = {0}, retire-prior-to 0, one host ID with sequence number 0, _host_cid_seq = 1) and the first-packet assignment `_peer_cid.sequence_number = 0` in receive_datagram are not under contract"
C18_SEQ_INT = "QuicConnectionId.sequence_number is typed int (its dataclass annotation); it is None only before the first packet from the peer has been processed, and _payload_received refuses NEW_CONNECTION_ID in Initial/Handshake packets (frame/epoch table, not verified here)"
C18_QLOG = "qlog plumbing: context.quic_logger_frames is a list whenever self._quic_logger is set (assumed precondition of both frame handlers; QuicLoggerTrace.encode_* are trusted stubs)"
C18_CIDLEN = "configuration.connection_id_length >= 0 (QuicConnection.__init__ already called os.urandom with it; nothing writes it afterwards)"
C18_FRESH = "allocation freshness for QuicConnectionId (engine/pyvc/interp.py _assume_unreferenced): an object under construction is referenced from no field / list of the entry heap or of the current heap"
C18_COMP = "engine/pyvc/comp.py: `[x for x in L if P(x)]` is the unique list related to L by the index maps src/dst (facts F1-F4), P evaluated in strict pure mode"
PB_ = "quic/packet_builder.py::QuicPacketBuilder."
PROPS["C18"] = dict(
    functions=[
        CONN + "_handle_new_connection_id_frame", CONN + "_consume_peer_cid", CONN + "_retire_peer_cid", CONN + "change_connection_id",
        CONN + "_handle_retire_connection_id_frame", CONN + "_replenish_connection_ids",
        CONN + "_on_new_connection_id_delivery", CONN + "_on_retire_connection_id_delivery",
        CONN + "_write_retire_connection_id_frame", CONN + "_write_application@retire_cids", PB_ + "start_frame",
    ],
    bounded=[],
    scope="decided for all states satisfying PC/HC and all frame contents / call arguments (hence, by induction, all histories of NEW_CONNECTION_ID, RETIRE_CONNECTION_ID, change_connection_id() and delivery callbacks): "
    "PEER SIDE - after a NEW_CONNECTION_ID frame is processed normally the recorded retire-prior-to is max(previous, frame's), the current destination ID and every spare are at or above it, pairwise distinct, recorded as seen, and 1 + spares <= _local_active_connection_id_limit; CONNECTION_ID_LIMIT_ERROR exactly when that bound or the pending-retirement bound min(4*limit, 100) would be exceeded, PROTOCOL_VIOLATION exactly when retire_prior_to > sequence_number, FRAME_ENCODING_ERROR exactly when the ID length is outside 1..20 (the last two leave the state untouched); the retirement queue grows by exactly the old current ID (iff it is below retire-prior-to) followed by the old spares below it, each once, older entries kept; every other old spare is still held (same object, same number); the only ID that can become held is the frame's own and only if its sequence number was never seen, sequence numbers once seen stay seen (so an ID abandoned earlier - by retire-prior-to or by change_connection_id() - is never held, hence never used as destination, again); change_connection_id() abandons exactly the current ID, queues its retirement once and switches to the oldest spare, and does nothing without a spare; a lost RETIRE_CONNECTION_ID is queued again, an acknowledged one is not; EMISSION - block contract on the RETIRE_CONNECTION_ID loop of _write_application (located by the call it makes): a queued sequence number leaves the queue only together with a written frame whose delivery handler is registered on the packet (start_frame: exactly one handler more per frame that names one, none when the frame is refused), the loop ends with an empty queue, and when the packet is full (QuicPacketBuilderStop) the numbers not yet written are all still queued in order. "
    "HOST SIDE - RETIRE_CONNECTION_ID: PROTOCOL_VIOLATION exactly when the sequence number was never issued or names the ID the packet was addressed to (state untouched); otherwise exactly the named ID is removed from _host_cids, every other issued ID stays (same object, bytes, number), and the list is topped up to exactly min(8, peer's active_connection_id_limit) with fresh consecutive sequence numbers marked not-yet-sent; len(_host_cids) <= max(1, min(8, peer limit)) and sequence numbers distinct and below _host_cid_seq are preserved; a lost NEW_CONNECTION_ID makes its ID pending (was_sent False) again",
    lemma="C18 sentence 1: 'addresses every later packet to a connection ID at or above it' = pc_floor (ensures of the NEW_CONNECTION_ID handler and of change_connection_id; the packet builder is given _peer_cid.cid), together with E_seen/E_new (never re-held); 'announces the retirement of each ID it abandons' = witness clauses E_ann0-2 of the handler + ensures of change_connection_id/_retire_peer_cid (queued), '(again after loss)' = _on_retire_connection_id_delivery; 'never keeps more peer-issued IDs than it advertised' = pc_limit with the raises-iff clauses. Sentence 2: 'never issues more simultaneously active IDs than the peer allows' = hc_bound + ensures.6 of _replenish_connection_ids (the peer's limit is >= 2 by _parse_transport_parameters, so max(1, min(8, limit)) <= limit); 'keeps accepting packets addressed to any ID it issued until the peer retires it' = the kept-elements clauses of the RETIRE_CONNECTION_ID handler (the only function that removes from _host_cids; receive_datagram matches the destination ID against _host_cids); 'replaces retired IDs' = len(_host_cids) == max(h0 - removed, min(8, limit)) with fresh unsent IDs. Induction: every function that writes the PC/HC fields is in the list and proves PC/HC at exit, and states explicitly what it leaves unchanged",
    not_decided="KNOWN FINDING: the NEW_CONNECTION_ID handler calls _consume_peer_cid() with no spare ID (IndexError escapes) for a frame whose retire-prior-to exceeds the current ID and all spares while its own sequence number was already seen - the defect clause (cut) is refuted on the unchanged tree and everything else is verified under it. Not under contract: _write_application's NEW_CONNECTION_ID emission loop and _write_new_connection_id_frame; the entry conditions of the RETIRE_CONNECTION_ID block (a packet is open) are assumed; that the registered handler/argument pair is (_on_retire_connection_id_delivery, (sequence_number,)) is not stated (only that one pair is registered per frame); receive_datagram (destination-ID match, peer-initiated switch calling change_connection_id, first-packet assignment), __init__, _parse_transport_parameters (peer limit >= 2, written once), asyncio/server.py routing, ConnectionIdIssued/Retired events, and the wire-level history of datagrams across loss",
    trusted_base=BASE + [C18_COMP, C18_FRESH, "contracts/buffer_model.py (Python-level restatement of the cwp-proved Buffer contract)", "os.urandom stub (n bytes; ValueError for n < 0)"],
    assumptions=[C18_INV, C18_SEQ_INT, C18_QLOG, C18_CIDLEN, A2],
)

PB = PB_
CRYPTO_STUB = "CryptoPair.encrypt_packet: trusted Python-level restatement of the cwp-proved C contracts of _crypto.c AEAD_encrypt + HeaderProtection_apply (after fix fe0e03b): result = header + payload + 16-byte tag; CryptoError exactly when payload > 1484, header + payload + 16 > 1500, header shorter than its packet-number field + 1, or payload shorter than 4 - pn_length; assumes send keys are installed (no AssertionError) and OpenSSL does not fail"
BUF_STUB = "Buffer (contracts/buffer_model.py): trusted Python-level restatement of the cwp-proved contracts of _buffer.c"
FRAMES = "modifies lists are checked syntactically (check_frame=True) for every C13 function: a heap field written on some path, other than at an object allocated on that path, must be named in `modifies`"
PB_CALLERS = "callers of the builder (connection.py frame writers, not verified here): start_frame is called with a packet open, capacity >= 1 covering the frame type; bytes pushed after start_frame stay within the announced capacity (class-invariant clause 'non-empty packet leaves room for the tag'); start_packet is given a CryptoPair (aead_tag_size == 16, assigned once in CryptoPair.__init__) with send keys installed; max_total_bytes / max_flight_bytes are assigned only on a fresh builder"
PB_OVR = "the budget clauses are claimed for a builder run up to the first 'overrun' (ghost flag g_ovr, candidate defect D2: header-protection sample padding is not budgeted by start_frame); start_packet/flush/_end_packet require `not g_ovr` on entry and report g_ovr on exit"
CONN_PRE = "assumed preconditions of datagrams_to_send (connection invariants not re-proved): max_datagram_size >= 1200, version is a 32-bit value, connection IDs < 256 bytes, packet number >= 0"

PROPS["C13"] = dict(
    functions=[
        # the two heavy functions first (fresh worker processes); NOT sharded: path pruning uses wall-clock solver budgets,
        # so two processes can enumerate slightly different sets of (vacuous) paths and index-based sharding would
        # lose count ("sharding lost obligations")
        PB + "_end_packet", PB + "start_packet",
        PB + "__init__", PB + "packet_is_empty", PB + "packet_number", PB + "remaining_buffer_space", PB + "remaining_flight_space",
        PB + "start_frame", PB + "flush", PB + "_flush_current_datagram",
        "quic/packet.py::encode_long_header_first_byte", "quic/crypto.py::CryptoPair.key_phase",
        "quic/connection.py::QuicNetworkPath.can_send", "quic/connection.py::QuicConnection.datagrams_to_send",
    ],
    bounded=[],
    # contract variants holding the clauses of the property that are REFUTED on the unchanged tree (genuine candidate defects,
    # reproduced natively; see DESIGN 5 'C13 as built'): run with tools/vc.sh / tools/vcpar.py, expected verdict `refuted`
    known_candidates=[
        PB + "_flush_current_datagram#rfc_padding",  # D1: Initial datagrams are padded to the flight capacity, not to 1200
        PB + "_end_packet#no_overrun",  # D2: sample padding can push a packet one byte over the datagram / amplification budget
    ],
    scope="decided for all builder states satisfying the class invariant PB, all arguments and all call sequences (induction over the public methods __init__, start_packet, start_frame, flush): "
    "(s1) every datagram appended to the builder's output - hence every element returned by flush() - is at most max_datagram_size bytes long; "
    "(s2, as the code achieves it) a datagram that contains an Initial packet sent by a client, or an ack-eliciting Initial packet sent by a server (ack-eliciting decided per frame type as in RFC 9000), is at least min(1200, flight capacity of that datagram) bytes long - the unconditional 1200-byte clause of the property is REFUTED (known candidate D1); "
    "(s3, builder) _total_bytes equals the total length of all datagrams produced, trailing Initial padding included, and with max_total_bytes set that total never exceeds max(max_total_bytes, 0), up to the first sample-padding overrun (D2, refuted as its own clause); "
    "(s3, connection, PREFIX of datagrams_to_send up to the try block of the non-closing branch) the builder is fresh and max_total_bytes == 3 * bytes_received - bytes_sent for EVERY unvalidated path, handshake confirmed or not; QuicNetworkPath.can_send(size) == validated or sent + size <= 3 * received; "
    "packet numbers advance by exactly one per emitted packet and the packets returned by flush() carry consecutive numbers; start_frame refuses (QuicPacketBuilderStop) exactly when the announced size plus tag does not fit the datagram budget or, for in-flight frames, the flight budget; "
    "no BufferWriteError / CryptoError escapes _end_packet, start_packet or flush unless an overrun happened (BufferWriteError) or max_datagram_size > 1500 (CryptoError)",
    lemma="s1: invariant 'forall d in _datagrams: len(d) <= g_mds' (+ _flush_current_datagram ensures, flush ensures.0); g_mds is the constructor argument and equals the capacity of the builder's Buffer, which no method changes. "
    "s3: ghost g_out += len(datagram) at the only append site; invariant _total_bytes == g_out (cut in _flush_current_datagram: the count charged equals the length handed over); start_packet clips _buffer_capacity to max_total_bytes - _total_bytes when a datagram is begun, invariant g_out + max(_buffer_capacity,0) <= max(max_total_bytes,0) while it is assembled, tell() <= _buffer_capacity, trailing padding goes to _flight_capacity <= _buffer_capacity; so after any call sequence g_out <= max_total_bytes; with the datagrams_to_send prefix (fresh builder, budget = 3*received - sent) the bytes of one datagrams_to_send call stay within the budget of the path. "
    "s2: ghost g_need is set at the only site where a packet is recorded as sent, from the property's words; cut in _end_packet: such a packet marks the datagram (_datagram_needs_padding); _flush_current_datagram then pads to the flight capacity (1-RTT: inside the packet)",
    not_decided="the unconditional 1200-byte floor (D1, refuted); the exact budget under sample padding (D2, refuted); the close branch of datagrams_to_send, which sets no max_total_bytes at all (D3, reproduced natively: 4027 bytes sent to an unvalidated address that sent 1200); the rest of datagrams_to_send (frame writers, packet registration, the bytes_sent += len(datagram) loop), receive_datagram's bytes_received accounting and path validation, _find_network_path / migration; that the frame writers respect the builder's call protocol (" + PB_CALLERS + "); key-phase values of CryptoContext (0/1) are an invariant assumed of CryptoPair",
    trusted_base=BASE + [CRYPTO_STUB, BUF_STUB, FRAMES, PB_CALLERS, PB_OVR],
    assumptions=[A2, PB_CALLERS, PB_OVR, CONN_PRE],
)


PROPS["C09"] = dict(
    functions=[CONN0 + "get_timer", CONN0 + "_close_begin", CONN0 + "close", CONN0 + "_close_end", CONN0 + "handle_timer@expiry", CONN0 + "datagrams_to_send@end_states", CONN0 + "receive_datagram@arm",
               "quic/crypto.py::CryptoContext.teardown", "quic/crypto.py::CryptoPair.teardown"],
    bounded=[],
    scope="decided for all states and arguments (function contracts and block contracts extracted from the real functions on every run): T1 the prologue of receive_datagram leaves every connection that is not in an end state with a close deadline, whatever happens to the datagram afterwards, and never moves an existing one; get_timer, given a close deadline, returns a finite deadline that is <= the close deadline and <= every pending acknowledgement / loss / pacing deadline, and in an end state returns exactly the close deadline; T3 _close_end (requires a latched close event) appends exactly that one event, moves to TERMINATED and clears the deadline; close() latches the first reason only outside the end states and never emits the event itself; the first statement of handle_timer terminates the connection exactly when now >= the close deadline (creating the idle-timeout event when no close was in progress) and otherwise changes neither events, state nor deadline; the head of datagrams_to_send returns [] without any effect in CLOSING / DRAINING / TERMINATED before a pending close could be flushed; T4 _close_begin arms the closing period at now + 3 probe timeouts and enters CLOSING (initiator) or DRAINING",
    lemma="C09 'always names a finite next timer deadline' = receive_datagram@arm (and connect, not under contract) establish _close_at, nothing but _close_end clears it, get_timer <= _close_at; 'reports termination exactly once ... within three probe timeouts' = close/_close_begin/handle_timer@expiry/_close_end; 'sends at most its closing packets, delivers nothing after termination' = datagrams_to_send@end_states (+ receive_datagram's END_STATES test inside the prologue block)",
    not_decided="connect()/_connect, the closing branch of datagrams_to_send (_close_begin call site), _handle_connection_close_frame, _receive_version_negotiation_packet, the re-arming of the idle deadline after a successfully processed packet (position of the assignment inside receive_datagram), the rest of handle_timer (loss-detection timeout), that no other function writes _close_at / _events after termination (frame of the whole class), wall-clock progress and the caller firing the timer",
    trusted_base=BASE + ["QuicConnection._discard_epoch, _find_network_path, _idle_timeout, QuicPacketRecovery.get_loss_detection_time: frame-only summaries (write nothing relevant to the close state machine), by inspection", "qlog sinks (log_event, end_trace)"],
    assumptions=["block contracts: the stated entry conditions (a network path exists; a close deadline exists when handle_timer is called; logger plumbing) are assumed at block entry", A1],
)


REC = "quic/recovery.py::QuicPacketRecovery."
PROPS["C01"] = dict(
    functions=[
        RX + "__init__", RX + "handle_reset", (RX + "handle_frame", 12), RX + "_pull_data",
        TX + "__init__", (TX + "get_frame", 6), TX + "write", TX + "reset", (TX + "on_data_delivery", 4), TX + "next_offset",
        RS + "__init__", RS + "add", RS + "subtract", RS + "shift", RS + "__getitem__", RS + "__len__",
        CONN0 + "_write_stream_frame", CONN0 + "_write_application@stream_credit", (CONN0 + "_handle_stream_frame", 6),
        (REC + "on_ack_received", 6), REC + "_on_packets_lost", REC + "_detect_loss", REC + "discard_space",
    ],
    bounded=["stream-receiver-model", "stream-sender-model", "rangeset-smallscope"],
    scope="SAFETY SENTENCE, per function, for all inputs and call histories: (receive half) the bytes handed to the application by handle_frame are exactly the reference model's bytes (offset -> byte map of the accepted frames) for the maximal contiguous run starting at the previous delivery position - in order, without gap or repeat (the delivery position only moves forward and each call delivers [old position, new position)); the end marker is reported exactly when the delivery position reaches the final size (until a reset is accepted); (send half) every frame cut by get_frame carries exactly the written bytes for its offsets, FIN exactly on the frame that ends at the final offset; on_data_delivery(LOST) makes exactly the lost range pending again and re-offers a lost FIN, on_data_delivery(ACKED) trims the buffer to the first unacknowledged byte and completes exactly when all bytes and the FIN are acknowledged; (connection) a frame taken out of a send half is always written into the packet (no QuicPacketBuilderStop between get_frame and start_frame - a FIN-only frame cannot be lost), blocked streams put nothing on the wire; (recovery) every packet removed from the sent map is removed exactly once and its delivery handlers are each invoked once, ACKED iff its number is in the acknowledged set and LOST otherwise, a lost packet is removed whether or not it is in flight - so on_data_delivery's precondition 'each in-flight frame is reported once' is what recovery provides",
    lemma="Composition (paper argument over the contracts, not machine-checked): the sender contract makes every emitted frame consistent with the written byte string W (data = W[offset:offset+len], fin => end = |W|); the channel only drops, delays, duplicates, reorders authentic packets (AEAD assumption of C02), so every frame the receiver handles was emitted; the receiver model gM is then a restriction of W, delivered bytes are gM on [0, position) = W[0:position), in order, gap-free, repeat-free; end-of-stream only at position = final size = |W|",
    not_decided="the wire encoding / decoding of STREAM frames (_write_stream_frame's pushes, _handle_stream_frame's pulls: only lengths and limits are under contract), the registration of on_data_delivery with the right (start, stop, fin) arguments in QuicPacketBuilder.start_frame (handler arguments are not modelled), 'end-of-stream at most once' across duplicated datagrams at connection level (the receive half repeats its end marker for a repeated FIN frame), CRYPTO stream delivery, sentence 2 (liveness: every written byte is eventually delivered; no spurious protocol-error close) beyond the per-step ingredients above, key updates and address rebinding (enter only through the channel assumption)",
    trusted_base=BASE + ["contracts/buffer_model.py, contracts/quic_builder.py (callee contracts proved under C17 / C13)"],
    assumptions=[A2, "recovery-layer caller preconditions (fresh packet numbers, well-formed spaces) and opaque delivery callbacks as stated in the C08 evidence"],
)

# ---------------------------------------------------------------------------------------------------------------- C20
LOGQ = "quic/logger.py::QuicLoggerTrace."
C20_T = "T (typing): inside logger-guarded blocks and in the encoders, names and attribute chains denote values of their declared types (parameter / field annotations, .pyi stubs of the C extensions); reading an attribute of such a value does not raise, +,-,* on declared numbers and len() of declared sized values are total"
C20_SFA = "syntactic frame analysis (engine/logblocks.py, written for this property): a conservative AST / dataflow analysis of the current source - block enumeration, grammar of total and effect-free forms, definite assignment, by-name call resolution over EVERY same-named definition in the package, declared-type-directed JSON shape inference; its verdicts are reported as obligations with goal True/False (no SMT reasoning); its own correctness is part of the trusted base (kill-checked with 61 mutants)"
C20_SINKS = "logger API: QuicLogger.start_trace / end_trace (incl. QuicFileLogger.end_trace: json.dump to a file) and the secrets log file's write()/flush() are assumed total and to write only the logger's / file's own state"
C20_REFLECT = "no reflective access to logger-owned state (getattr / __dict__ / vars by string): occurrences are found by NAME tokens"
C20_ENC = ("encode_connection_limit_frame encode_crypto_frame encode_data_blocked_frame encode_datagram_frame encode_max_stream_data_frame encode_new_connection_id_frame encode_new_token_frame "
           "encode_reset_stream_frame encode_retire_connection_id_frame encode_stream_data_blocked_frame encode_stop_sending_frame encode_stream_frame encode_streams_blocked_frame encode_http3_data_frame "
           "encode_path_challenge_frame encode_path_response_frame packet_type log_event _encode_http3_headers").split()
PROPS["C20"] = dict(
    functions=["logblocks::quic/connection.py", "logblocks::quic/recovery.py", "logblocks::quic/packet_builder.py", "logblocks::h3/connection.py", "logblocks::quic/logger.py", "logblocks::@rest"]
    + [LOGQ + m + "#c20" for m in C20_ENC],
    bounded=[],
    scope="NON-INTERFERENCE, decided per block for EVERY logger-guarded block of quic/connection.py, quic/recovery.py, quic/packet_builder.py, h3/connection.py as the source stands at this run (blocks are enumerated mechanically: "
    "`if <x>._quic_logger is not None [and <pure>]:`, `if <cfg>.quic_logger:` in __init__, `if secrets_log_file is not None:` in _update_traffic_key; nothing is hand-listed): "
    "(L1 .frame) the block has no else branch, every statement writes only logger-owned state (the `quic_logger_frames` lists, the trace via log_event, the QuicLogger via start_trace/end_trace, the `_quic_logger` handle itself, the secrets file, "
    "containers created inside the block), contains no return/break/continue/raise/loop/try/with, binds no local that occurs anywhere else in the function, and every callee (followed by name through all definitions, e.g. "
    "_log_metrics_updated -> get_log_data of every congestion controller) passes the same analysis and returns a fresh container where its result is mutated; "
    "(L2 .total) no expression of the block can raise, by a grammar of total forms under the typing assumption T (strict .decode, asserts, division, unknown calls, undecided subscripts, possibly-unbound names are rejected); "
    "(L3 .json) every value handed to a sink - log_event category/event/data, <..>.quic_logger_frames.append - is JSON-typed (str/int/float/bool/None/list/dict with str keys of those; no bytes, tuples, objects); "
    "(L4 .outside/.callsites/.inventory/@rest) outside the blocks a logger-owned name occurs only in the guard test, as a keyword argument passed along, in a copy between logger-owned locations / None / [] initialisation, or as a "
    "declaration; a function that dereferences the handle unguarded (_log_metrics_updated) is called only from inside guarded blocks; no other file of the package mentions these names except the QuicConfiguration field "
    "declarations; the count of NAME tokens equals the count of classified AST occurrences. "
    "ENCODERS (every method of QuicLoggerTrace and QuicLogger.to_dict, enumerated from quic/logger.py): writes nothing but containers it creates (log_event: exactly one append to self._events; _events touched nowhere else), "
    "cannot raise, result JSON-typed (shape inference from the declared parameter / field types; the events list is JSON given the .json obligation of every sink call); and with pyvc/SMT for 19 of them (variants #c20): no "
    "exception escapes for any argument of the declared types (None dereference, KeyError, UnicodeDecodeError, ZeroDivisionError are explicit escape obligations), no field of any pre-existing object is written (frame=True), "
    "is_json(result); log_event appends exactly one record, keeps all earlier records and the record is JSON if data is",
    lemma="paper lemma (stated, not machine-checked): let L be the logger-owned locations. Run A (logger set) and run B (no logger) on equal inputs execute the same statements outside guarded blocks on equal non-L state: by induction over "
    "execution steps, a step outside a block reads no L location except to pass the object along (L4), so it computes the same values and takes the same branch in both runs; a guarded block is skipped in B and in A "
    "terminates normally (L2 + encoder totality) at its end (no escaping control flow), having written only L (L1, encoders' frame) and bound no live local - so the non-L states agree again after it. Hence both runs emit the "
    "same events, put the same frames into packets and end in the same non-L state; 'logging never raises' is L2 + encoder totality; 'the qlog document is serialisable as JSON' is L3 + the encoders' .json + to_dict's .json.",
    not_decided="(1) KNOWN FINDING: QuicLoggerTrace._encode_http3_headers decodes header names/values with the strict utf-8 handler - UnicodeDecodeError for non-UTF-8 header bytes on both the send_headers and the receive path (refuted by "
    "both back ends, reproduced natively; fix in tools/fixes/c20_h3_headers_non_utf8.patch). (2) 'one packet record per packet sent and received' (counting clause) is not decided: the packet_sent / packet_received blocks are shown "
    "to be present, total and transparent, not that exactly one is executed per packet. (3) totality rests on the typing assumption T: an attribute read on an Optional receiver that is None inside a block (e.g. "
    "<ctx>.quic_logger_frames being None while _quic_logger is set, self.tls before _initialize) is not excluded here - the other sidecars assume `_quic_logger is None or <..>.quic_logger_frames is not None` at their entries. "
    "(4) QuicFileLogger (file output), QuicLogger.start_trace/end_trace, the secrets file's write/flush: trusted sinks. (5) float NaN/inf are emitted by json.dumps as non-standard tokens (not a raise). "
    "(6) encode_ack_frame, encode_transport_parameters, encode_connection_close_frame, to_dict, QuicLogger.to_dict, encode_http3_headers_frame / push_promise_frame and the homogeneous one-line encoders are covered by the syntactic "
    "analysis only (RangeSet iteration, __dict__ iteration, stores into heterogeneous dict displays are outside pyvc's subset; a homogeneous display leaves pyvc nothing to prove)",
    trusted_base=BASE + [C20_SFA, C20_T, C20_SINKS, C20_REFLECT, "stdlib stubs: time.time (total), binascii.hexlify (total on bytes, ASCII result), bytes.decode / bytes.hex semantics as documented in engine/pyvc/calls.py value_method"],
    assumptions=[C20_T, C20_SINKS, C20_REFLECT],
)
