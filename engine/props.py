"""Which contracts constitute which property (functions are 'relpath::Qualified.name')."""

A1 = "A1: Python float arithmetic is encoded as exact real arithmetic (rounding, overflow, NaN, inf ignored); int(x) is truncation"
A2 = "A2: distinct object-typed parameters do not alias unless the contract says so"
PYSEM = "pyvc's encoding of the Python subset (DESIGN §2.1): int = mathematical Int (exact), list = (len, array), range = (start, stop), implicit failures (IndexError, assert, None dereference) are explicit raise outcomes"
SOLVERS = "soundness of z3 5.1.0 (API), /usr/bin/cvc5 1.0.3 and /usr/bin/z3 4.8.12 (only consulted when the first answers unknown)"
EXTRACT = "extraction: the FunctionDef is taken from the current file by qualified name with python's ast; docstrings, annotations and logger calls are dropped (DESIGN §2.1), nothing else"

PROPS = {}

RS = "quic/rangeset.py::RangeSet."
RX = "quic/stream.py::QuicStreamReceiver."
TX = "quic/stream.py::QuicStreamSender."
RENO = "quic/congestion/reno.py::RenoCongestionControl."
BASE = [PYSEM, SOLVERS, EXTRACT]
SUBTRACT = "RangeSet.subtract: its contract (view' = view minus [start,stop)) is ASSUMED at call sites, not proved; it is checked on the real function only by the bounded stand-in rangeset-smallscope"
CALLERS_ONCE = "caller history: the recovery layer reports each sent frame acknowledged or lost at most once, and a range reported lost lies inside the sender's current buffer window (precondition of on_data_delivery, not proved here)"

PROPS["C02"] = dict(
    functions=["quic/packet.py::decode_packet_number"],
    bounded=["native-xcheck-pn"],
    scope="decided for all inputs: a truncated packet number is expanded to the candidate congruent to it that is closest to the next expected number (window (e-h, e+h]), for all four packet-number lengths, all truncated values and all expected numbers below 2^62",
    lemma="C02 sentence 1, clause 'a truncated packet number is always expanded to the candidate closest to the next expected number' = ensures.0-3 of decode_packet_number, proved per num_bits with the case split proved complete",
    not_decided="AEAD/header-protection round trip in _crypto.c, agreement with a second implementation, and 'an altered packet changes nothing' (cryptographic assumptions and C code outside pyvc's reach; the planned C VC generator cwp is not built)",
    trusted_base=BASE,
    assumptions=[],
)

PROPS["C06"] = dict(
    functions=[(TX + "get_frame", 4), TX + "write", TX + "get_reset_frame", RS + "add", RS + "shift", RS + "__getitem__"],
    bounded=["rangeset-smallscope", "stream-sender-model", "native-xcheck-stream"],
    scope="decided for all states and arguments of the send half: every STREAM frame cut by get_frame ends at or below max_offset (the per-stream/connection credit handed in by the connection) and carries at most max_size bytes; highest_offset is the running maximum of frame ends, so a retransmitted range (offset below highest_offset) does not raise it and consumes no additional credit; the RESET_STREAM final size equals highest_offset",
    lemma="per-stream clause of C06: by induction over calls, highest_offset = max over emitted frames of offset+len (get_frame ensures.5/6, write leaves it unchanged), and each emitted frame satisfies offset+len <= max_offset (ensures.2); hence highest offset sent <= the limit passed by the caller at that call",
    not_decided="that QuicConnection._write_stream_frame passes min(per-stream limit, connection credit) as max_offset, the connection-level sum, and stream-count limits (connection.py is outside the subset the engine handles today); 'blocked data is sent once the limit is raised' (liveness)",
    trusted_base=BASE + [SUBTRACT],
    assumptions=[SUBTRACT, A2],
)

PROPS["C07"] = dict(
    functions=[RX + "handle_reset", RX + "handle_frame", RX + "_pull_data"],
    bounded=["stream-receiver-model", "native-xcheck-stream"],
    scope="decided for all receive-half states and all frames/resets: FinalSizeError is raised exactly when data lies beyond, or a FIN or reset disagrees with, an already fixed final size (both directions), an accepted FIN/reset fixes the final size, highest_offset is the running maximum of frame ends, and a refused frame/reset leaves final size, highest offset, delivery position and finished flag unchanged",
    lemma="final-size clause of C07 ('a final size beyond/contradicting ... closes with the final-size error, a conforming peer is never accused') = raises-iff of handle_frame and handle_reset; connection.py maps FinalSizeError to FINAL_SIZE_ERROR (not proved here)",
    not_decided="flow-control and stream-limit checks in connection.py (_handle_stream_frame, _get_or_create_stream), reassembly byte bounds, MAX_PENDING_CRYPTO / challenge / retire caps",
    trusted_base=BASE,
    assumptions=[A2],
)

PROPS["C08"] = dict(
    functions=[RENO + "__init__", RENO + "on_packet_acked", RENO + "on_packet_sent", RENO + "on_packets_lost", "quic/congestion/cubic.py::CubicCongestionControl.on_packets_lost"],
    bounded=["native-xcheck-reno"],
    scope="decided for the Reno controller, all call sequences (class invariant): congestion_window >= 2 * max_datagram_size after construction and after every acked/sent/lost callback; a loss event never raises the window; bytes_in_flight changes by exactly the packet size on sent/acked. CUBIC: on_packets_lost alone, as a Hoare triple (window >= 2*mds before implies window >= 2*mds after)",
    lemma="clause 'the congestion window never drops below two datagrams' = class invariant of RenoCongestionControl (established by __init__, preserved by on_packet_acked, on_packet_sent, on_packets_lost)",
    not_decided="CUBIC on_packet_acked / reset (float cube roots; its window growth is not under contract, so the CUBIC floor is not an inductive class invariant here), the in-flight ledger of QuicPacketRecovery (sum over the sent-packet maps), at-most-once delivery callbacks, the builder's flight budget",
    trusted_base=BASE + [A1, "QuicRttMonitor.__init__ assumed total (stub)"],
    assumptions=[A1, A2],
)

PROPS["C10"] = dict(
    functions=[
        RS + "add", RS + "shift", RS + "bounds", RS + "__getitem__", RS + "__len__",
        RX + "handle_reset", RX + "handle_frame", RX + "_pull_data",
        (TX + "get_frame", 4), TX + "write", TX + "reset", TX + "get_reset_frame", TX + "on_reset_delivery",
    ],
    bounded=["rangeset-smallscope", "stream-receiver-model", "stream-sender-model", "native-xcheck-stream"],
    scope="decided for all inputs and call histories: RangeSet add/shift/bounds/index against the abstract set-of-integers view with the sortedness/disjointness representation invariant; receive half: final-size error exactly when required, FIN/reset fix the final size; send half: frames start at the first pending offset, stay within size and offset caps, remove exactly their range from the pending set, write adds exactly the written range, nothing is offered after reset (get_frame refuses), reset latches the first error code, completion on acknowledged reset",
    lemma="the listed clauses of C10 are postconditions / raises-iff clauses of the functions above; byte-for-byte equality of delivered data with the reference offset->byte map, and re-offer after loss (on_data_delivery), are covered only by the bounded model-based stand-ins",
    not_decided="byte equality with the reference model and QuicStreamSender.on_data_delivery are bounded only; RangeSet.subtract is assumed + bounded",
    trusted_base=BASE + [SUBTRACT],
    assumptions=[SUBTRACT, A2],
)

PROPS["C12"] = dict(
    functions=[RS + "add", RS + "shift", RS + "bounds", RS + "__getitem__", RS + "__len__"],
    bounded=["rangeset-smallscope"],
    scope="decided for all histories of the acknowledgement range set: after any sequence of add() calls the set contains exactly the packet numbers that were added (view' = view ∪ [start,stop) per call, nothing else changes), kept sorted, disjoint and non-adjacent, which is the structure push_ack_frame encodes",
    lemma="soundness clause of C12 at the data-structure level: ack_queue.add(pn) is the only writer on the receive path, so the ACK range set lists only recorded packet numbers",
    not_decided="that receive_datagram records a packet only after successful authentication, the ACK frame encoder push_ack_frame (C Buffer), ACK timing",
    trusted_base=BASE,
    assumptions=[],
)

H3 = "h3/connection.py::"
H3INT = "int(<bytes>) for content-length is a TRUSTED stub (contracts/h3_headers.py, contract 'int'): two uninterpreted functions py_int_ok / py_int_val of the byte string plus the grammar facts G1-G4 (empty rejected; all-digit strings of length 1..4300 accepted with a non-negative value; an accepted string has a digit and only bytes of {HT LF VT FF CR SP + - _ 0-9}; a negative value needs '-'), i.e. CPython's  ws* [+-]? digit+ ('_' digit+)* ws*  -  b'+5', b' 5 ', b'1_0', b'\\x0b5' ARE accepted content-lengths; cross-checked against CPython by tools/xcheck_pyint.py (446 207 strings, 0 disagreements)"
H3SET = "set[bytes] / frozenset[bytes] values are arrays over integer ids bkey(b) of byte strings; assumed: bkey(a) == bkey(b) <=> a and b are equal byte strings (sym.bkey_axiom; a model exists: any injective numbering), and every member of a set[bytes] is the id of some byte string (sym.wf); frozenset(<tuple display>), set.add, set.difference, `in`, truthiness are interpreted over these arrays"
H3QPACK = "H3Connection._decode_headers (pylsqpack boundary): assumed to return a list of (bytes, bytes) pairs or raise QpackDecompressionFailed / pylsqpack.StreamBlocked, and not to touch H3Stream bookkeeping; not verified"
H3FRAME = "modifies clauses are trusted by the engine (no frame check); for the H3Stream bookkeeping fields the frame is instead PROVED as explicit quantified ensures (h3_streams_untouched / the frame clause of validate_headers)"
PROPS["C15"] = dict(
    functions=[
        H3 + "validate_header_name", H3 + "validate_header_value", H3 + "validate_headers",
        H3 + "validate_request_headers", H3 + "validate_response_headers", H3 + "validate_trailers", H3 + "validate_push_promise_headers",
        H3 + "H3Connection._check_content_length", (H3 + "H3Connection._handle_request_or_push_frame", 4),
    ],
    bounded=["native-xcheck-h3"],
    scope="decided for ALL header lists (any length, any bytes) and all allowed/required sets: (1) validate_header_name / validate_header_value raise MessageError exactly when a name has a byte <= 0x20, an upper-case letter, a byte >= 0x7F or a non-initial colon / a value contains NUL, CR, LF or starts or ends with SP/HTAB; (2) validate_headers raises MessageError exactly when the block is not h3_block_ok: some name or value is bad, a pseudo-header follows a regular header, a pseudo-header is repeated or not in the allowed set, a required pseudo-header is missing, or one of the implementation's extra rules fails (content-length not a non-negative int() spelling, transfer-encoding other than 'trailers', http(s) :scheme without non-empty :authority and :path) - both directions - and on return stream.expected_content_length is the value of the LAST content-length field (unchanged when there is none), no other stream bookkeeping is written; (3) the four wrappers raise exactly when the block is not a well-formed request (:method and :authority present, pseudo-headers among :method :scheme :authority :path :protocol), response (:status present, no other pseudo-header), trailers (no pseudo-header at all), push promise (exactly the four request pseudo-headers) - names spelled out as byte-string comparisons; (4) _check_content_length raises exactly when a declared content-length differs from the bytes counted; (5) _handle_request_or_push_frame: a HeadersReceived / PushPromiseReceived event is the only event of its call and carries exactly the list object the validator of the right kind (response on clients, request on servers, trailers after the first block) accepted; a DATA frame adds exactly len(frame_data) to stream.content_length and yields at most one DataReceived with that payload; whenever a DATA or HEADERS frame ends the stream and the call returns, expected_content_length is None or equals content_length; MessageError escapes only for a block that breaks a rule or for a content-length mismatch at the end of the stream (never accused); other frame types produce no event and leave the bookkeeping alone",
    lemma="C15 sentence 1 (names, values, pseudo-header order / uniqueness / allow-list, :method / :status / none on trailers) = raises-iff of the four wrappers, which are proved from the raises-iff of validate_headers by instantiating its abstract allowed / required sets with the frozenset displays in the source, which in turn uses the raises-iff of validate_header_name / validate_header_value per item; 'handed to the application' = the only places that construct HeadersReceived / PushPromiseReceived are in _handle_request_or_push_frame, whose ensures tie the event's list to the validated one; content-length clause = (a) validate_headers records the declared value, (b) every DATA payload delivered through _handle_request_or_push_frame is counted (ensures.0), (c) a stream-ending DATA / HEADERS frame returns only if _check_content_length accepted (ensures.3); sentence 2 (the rule breaker gets MessageError instead of the event) = the same iff read right-to-left plus on_raise.MessageError; that MessageError becomes close(H3_MESSAGE_ERROR) is the class attribute error_code of MessageError handled in handle_event (not under contract)",
    not_decided="H3Connection._receive_request_or_push_data is NOT under contract: its DATA-fragment shortcut (adds len(buffer) to content_length and emits the same bytes) and its lone-FIN branch (calls _check_content_length before emitting the final DataReceived) are read, not proved; so is handle_event's mapping of MessageError to H3_MESSAGE_ERROR and the claim that no other code constructs these events. FINDINGS kept as separate clauses (contracts/h3_headers.py C15_FINDING_CLAUSES, enabled with C15_STRICT=1, natively reproduced by tools/repro_c15_findings.py): F1 several content-length fields with different values are accepted and only the last is compared with the body; observation F2: a stream ended by a frame of unknown type (e.g. GREASE 0x21 with FIN) gets neither the content-length check nor any end-of-stream event. Seeded defect 2 (content-length no longer ends the pseudo-header section) is NOT discharged (loop0.preserve of the after_pseudo_headers invariant) but the solver returns unknown rather than a model; the bounded cross-check native-xcheck-h3 produces the concrete failing block",
    trusted_base=BASE + [H3INT, H3SET, H3QPACK, H3FRAME, "qlog calls QuicLoggerTrace.log_event / encode_http3_* are stubs (total, no effect on modelled state)", "Buffer: contracts/buffer_model.py (Python-level restatement of the cwp-proved C contract)"],
    assumptions=[H3INT, H3SET, H3QPACK, A2],
)

PROPS["C17"] = dict(
    functions=["buffer.py::size_uint_var"],
    bounded=["varint-codec", "native-xcheck-varint"],
    scope="decided for all integers: size_uint_var returns the RFC 9000 §16 minimal length in {1,2,4,8} and raises ValueError exactly above 2^62-1; the C encoder/decoder (_buffer.c push_uint_var / pull_uint_var) is compared with an RFC-derived spec function only by the bounded stand-in varint-codec (boundary values and random samples)",
    lemma="varint length clause of C17; the round trip of the C codec is bounded only",
    not_decided="_buffer.c functional correctness (C outside pyvc; cwp not built), packet headers, transport parameters, TLS messages",
    trusted_base=BASE,
    assumptions=[],
)


A3 = "A3: C pointers are (object, offset) in a flat 64-bit address space; every object satisfies 0 < addr and addr + size <= 2^47, so `pos + len > end` style comparisons are evaluated as the target evaluates them and their non-wrapping is proved, not assumed"
A4 = "A4: AEAD objects use stream-mode AEAD ciphers (EVP block size 1: the names in quic/crypto.py CIPHER_SUITES); header-protection ciphers have block size <= 16"
CSEM = "cwp's encoding of C (DESIGN §2.2): the clang JSON AST of the real file after preprocessing with the real Python.h / OpenSSL headers; integers are bit-vectors of their LP64 width, implicit conversions executed as recorded in the AST, signed overflow / out-of-range shifts / out-of-bounds or NULL accesses are proof obligations, loops unrolled with an unwinding obligation"
CSTUBS = "trusted C contracts (engine/cwp/stubs.py): PyArg_ParseTuple[AndKeywords] by format string (y# gives len >= 0 bytes plus a NUL; n/I/K/B/H deliver ANY value of their width, no overflow check), PyBytes_FromStringAndSize, Py_BuildValue, PyLong_From*, PyErr_*, malloc (success implies size <= 2^47)/free/memcpy/memset/memcmp, OpenSSL EVP_* with the extents of EVP_EncryptInit(3): EVP_CipherUpdate writes at most inl + block_size - 1 bytes, GET_TAG writes and SET_TAG reads `arg` bytes, CipherInit reads key_len / iv_len bytes"
CB = "_buffer.c::Buffer_"
CC = "_crypto.c::"
_BUFFER_FNS = [CB + n for n in ("init", "dealloc", "data_slice", "eof", "pull_bytes", "pull_uint8", "pull_uint16", "pull_uint32", "pull_uint64", "pull_uint_var", "push_bytes", "push_uint8", "push_uint16", "push_uint32", "push_uint64", "push_uint_var", "seek", "tell", "capacity_getter", "data_getter")]
_CRYPTO_FNS = [CC + n for n in ("AEAD_init", "AEAD_decrypt", "AEAD_encrypt", "HeaderProtection_init", "HeaderProtection_apply", "HeaderProtection_remove")]

PROPS["C04"] = dict(
    functions=_BUFFER_FNS + _CRYPTO_FNS,
    bounded=["cbuffer-model", "ccrypto-boundary"],
    scope="decided for EVERY argument the CPython argument parser can deliver (any Py_ssize_t, any bytes object, any 32/64-bit pattern) and every object state satisfying the class invariant: each function of _buffer.c and each entry point of _crypto.c (create_ctx and HeaderProtection_mask are inlined at their call sites) keeps every load, store, memcpy/memset and every OpenSSL access inside the object it was given or its own scratch arrays, commits no signed overflow or out-of-range shift, returns NULL exactly when a Python exception is set, and re-establishes the class invariant on every exit (Buffer: base is the start of a live allocation, base <= pos <= end inside it; AEAD / HeaderProtection: contexts, key, IV intact) - so oversized, truncated or otherwise unusable input is rejected with an exception and the helper stays usable. Buffer_init ESTABLISHES the invariant for every capacity / data",
    lemma="C04 = conjunction, over the 26 C functions, of the c-safety obligations (one per memory access / arithmetic operation) and the invariant postconditions; the Python call sites need no precondition because the C functions are total-safe",
    not_decided="OpenSSL and CPython internals (trusted extents), AEAD_dealloc / HeaderProtection_dealloc (free only), module initialisation; that setup.py compiles exactly these sources",
    trusted_base=BASE + [CSEM, CSTUBS, A3, A4],
    assumptions=[A3, A4],
)
