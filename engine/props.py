"""Which contracts constitute which property (functions are 'relpath::Qualified.name')."""

A1 = "A1: Python float arithmetic is encoded as exact real arithmetic (rounding, overflow, NaN, inf ignored); int(x) is truncation"
A2 = "A2: distinct object-typed parameters do not alias unless the contract says so"
PYSEM = "pyvc's encoding of the Python subset (DESIGN §2.1): int = mathematical Int (exact), list = (len, array), range = (start, stop), implicit failures (IndexError, assert, None dereference) are explicit raise outcomes"
SOLVERS = "soundness of z3 5.1.0 (API), /usr/bin/cvc5 1.0.3 and /usr/bin/z3 4.8.12 (only consulted when the first answers unknown)"
EXTRACT = "extraction: the FunctionDef is taken from the current file by qualified name with python's ast; docstrings, annotations and logger calls are dropped (DESIGN §2.1), nothing else"

PROPS = {}

RS = "quic/rangeset.py::RangeSet."
RX = "quic/stream.py::QuicStreamReceiver."
TX = "quic/stream.py::QuicStreamSender."
RENO = "quic/congestion/reno.py::RenoCongestionControl."
BASE = [PYSEM, SOLVERS, EXTRACT]
SUBTRACT = "RangeSet.subtract: its contract (view' = view minus [start,stop)) is ASSUMED at call sites, not proved; it is checked on the real function only by the bounded stand-in rangeset-smallscope"
CALLERS_ONCE = "caller history: the recovery layer reports each sent frame acknowledged or lost at most once, and a range reported lost lies inside the sender's current buffer window (precondition of on_data_delivery, not proved here)"

PROPS["C02"] = dict(
    functions=["quic/packet.py::decode_packet_number"],
    bounded=["native-xcheck-pn"],
    scope="decided for all inputs: a truncated packet number is expanded to the candidate congruent to it that is closest to the next expected number (window (e-h, e+h]), for all four packet-number lengths, all truncated values and all expected numbers below 2^62",
    lemma="C02 sentence 1, clause 'a truncated packet number is always expanded to the candidate closest to the next expected number' = ensures.0-3 of decode_packet_number, proved per num_bits with the case split proved complete",
    not_decided="AEAD/header-protection round trip in _crypto.c, agreement with a second implementation, and 'an altered packet changes nothing' (cryptographic assumptions and C code outside pyvc's reach; the planned C VC generator cwp is not built)",
    trusted_base=BASE,
    assumptions=[],
)

PROPS["C06"] = dict(
    functions=[(TX + "get_frame", 4), TX + "write", TX + "get_reset_frame", RS + "add", RS + "shift", RS + "__getitem__"],
    bounded=["rangeset-smallscope", "stream-sender-model", "native-xcheck-stream"],
    scope="decided for all states and arguments of the send half: every STREAM frame cut by get_frame ends at or below max_offset (the per-stream/connection credit handed in by the connection) and carries at most max_size bytes; highest_offset is the running maximum of frame ends, so a retransmitted range (offset below highest_offset) does not raise it and consumes no additional credit; the RESET_STREAM final size equals highest_offset",
    lemma="per-stream clause of C06: by induction over calls, highest_offset = max over emitted frames of offset+len (get_frame ensures.5/6, write leaves it unchanged), and each emitted frame satisfies offset+len <= max_offset (ensures.2); hence highest offset sent <= the limit passed by the caller at that call",
    not_decided="that QuicConnection._write_stream_frame passes min(per-stream limit, connection credit) as max_offset, the connection-level sum, and stream-count limits (connection.py is outside the subset the engine handles today); 'blocked data is sent once the limit is raised' (liveness)",
    trusted_base=BASE + [SUBTRACT],
    assumptions=[SUBTRACT, A2],
)

PROPS["C07"] = dict(
    functions=[RX + "handle_reset", RX + "handle_frame", RX + "_pull_data"],
    bounded=["stream-receiver-model", "native-xcheck-stream"],
    scope="decided for all receive-half states and all frames/resets: FinalSizeError is raised exactly when data lies beyond, or a FIN or reset disagrees with, an already fixed final size (both directions), an accepted FIN/reset fixes the final size, highest_offset is the running maximum of frame ends, and a refused frame/reset leaves final size, highest offset, delivery position and finished flag unchanged",
    lemma="final-size clause of C07 ('a final size beyond/contradicting ... closes with the final-size error, a conforming peer is never accused') = raises-iff of handle_frame and handle_reset; connection.py maps FinalSizeError to FINAL_SIZE_ERROR (not proved here)",
    not_decided="flow-control and stream-limit checks in connection.py (_handle_stream_frame, _get_or_create_stream), reassembly byte bounds, MAX_PENDING_CRYPTO / challenge / retire caps",
    trusted_base=BASE,
    assumptions=[A2],
)

PROPS["C08"] = dict(
    functions=[RENO + "__init__", RENO + "on_packet_acked", RENO + "on_packet_sent", RENO + "on_packets_lost", "quic/congestion/cubic.py::CubicCongestionControl.on_packets_lost"],
    bounded=["native-xcheck-reno"],
    scope="decided for the Reno controller, all call sequences (class invariant): congestion_window >= 2 * max_datagram_size after construction and after every acked/sent/lost callback; a loss event never raises the window; bytes_in_flight changes by exactly the packet size on sent/acked. CUBIC: on_packets_lost alone, as a Hoare triple (window >= 2*mds before implies window >= 2*mds after)",
    lemma="clause 'the congestion window never drops below two datagrams' = class invariant of RenoCongestionControl (established by __init__, preserved by on_packet_acked, on_packet_sent, on_packets_lost)",
    not_decided="CUBIC on_packet_acked / reset (float cube roots; its window growth is not under contract, so the CUBIC floor is not an inductive class invariant here), the in-flight ledger of QuicPacketRecovery (sum over the sent-packet maps), at-most-once delivery callbacks, the builder's flight budget",
    trusted_base=BASE + [A1, "QuicRttMonitor.__init__ assumed total (stub)"],
    assumptions=[A1, A2],
)

PROPS["C10"] = dict(
    functions=[
        RS + "add", RS + "shift", RS + "bounds", RS + "__getitem__", RS + "__len__",
        RX + "handle_reset", RX + "handle_frame", RX + "_pull_data",
        (TX + "get_frame", 4), TX + "write", TX + "reset", TX + "get_reset_frame", TX + "on_reset_delivery",
    ],
    bounded=["rangeset-smallscope", "stream-receiver-model", "stream-sender-model", "native-xcheck-stream"],
    scope="decided for all inputs and call histories: RangeSet add/shift/bounds/index against the abstract set-of-integers view with the sortedness/disjointness representation invariant; receive half: final-size error exactly when required, FIN/reset fix the final size; send half: frames start at the first pending offset, stay within size and offset caps, remove exactly their range from the pending set, write adds exactly the written range, nothing is offered after reset (get_frame refuses), reset latches the first error code, completion on acknowledged reset",
    lemma="the listed clauses of C10 are postconditions / raises-iff clauses of the functions above; byte-for-byte equality of delivered data with the reference offset->byte map, and re-offer after loss (on_data_delivery), are covered only by the bounded model-based stand-ins",
    not_decided="byte equality with the reference model and QuicStreamSender.on_data_delivery are bounded only; RangeSet.subtract is assumed + bounded",
    trusted_base=BASE + [SUBTRACT],
    assumptions=[SUBTRACT, A2],
)

PROPS["C12"] = dict(
    functions=[RS + "add", RS + "shift", RS + "bounds", RS + "__getitem__", RS + "__len__"],
    bounded=["rangeset-smallscope"],
    scope="decided for all histories of the acknowledgement range set: after any sequence of add() calls the set contains exactly the packet numbers that were added (view' = view ∪ [start,stop) per call, nothing else changes), kept sorted, disjoint and non-adjacent, which is the structure push_ack_frame encodes",
    lemma="soundness clause of C12 at the data-structure level: ack_queue.add(pn) is the only writer on the receive path, so the ACK range set lists only recorded packet numbers",
    not_decided="that receive_datagram records a packet only after successful authentication, the ACK frame encoder push_ack_frame (C Buffer), ACK timing",
    trusted_base=BASE,
    assumptions=[],
)

PROPS["C15"] = dict(
    functions=["h3/connection.py::validate_header_name", "h3/connection.py::validate_header_value"],
    bounded=["native-xcheck-h3"],
    scope="decided for all byte strings: validate_header_name raises MessageError exactly when some byte is a control/space (<=0x20), upper-case, DEL/non-ASCII (>=0x7F) or a non-initial colon; validate_header_value raises exactly when the value contains NUL/CR/LF or starts or ends with SP/HTAB",
    lemma="name/value clauses of C15 = raises-iff (both directions, existential over positions, loop invariants) of the two validators",
    not_decided="pseudo-header ordering / allow-list / required-list in validate_headers (sets of bytes, int(bytes)), content-length accounting, that every event is preceded by validation",
    trusted_base=BASE,
    assumptions=[],
)

PROPS["C17"] = dict(
    functions=["buffer.py::size_uint_var"],
    bounded=["varint-codec", "native-xcheck-varint"],
    scope="decided for all integers: size_uint_var returns the RFC 9000 §16 minimal length in {1,2,4,8} and raises ValueError exactly above 2^62-1; the C encoder/decoder (_buffer.c push_uint_var / pull_uint_var) is compared with an RFC-derived spec function only by the bounded stand-in varint-codec (boundary values and random samples)",
    lemma="varint length clause of C17; the round trip of the C codec is bounded only",
    not_decided="_buffer.c functional correctness (C outside pyvc; cwp not built), packet headers, transport parameters, TLS messages",
    trusted_base=BASE,
    assumptions=[],
)


A3 = "A3: C pointers are (object, offset) in a flat 64-bit address space; every object satisfies 0 < addr and addr + size <= 2^47, so `pos + len > end` style comparisons are evaluated as the target evaluates them and their non-wrapping is proved, not assumed"
A4 = "A4: AEAD objects use stream-mode AEAD ciphers (EVP block size 1: the names in quic/crypto.py CIPHER_SUITES); header-protection ciphers have block size <= 16"
CSEM = "cwp's encoding of C (DESIGN §2.2): the clang JSON AST of the real file after preprocessing with the real Python.h / OpenSSL headers; integers are bit-vectors of their LP64 width, implicit conversions executed as recorded in the AST, signed overflow / out-of-range shifts / out-of-bounds or NULL accesses are proof obligations, loops unrolled with an unwinding obligation"
CSTUBS = "trusted C contracts (engine/cwp/stubs.py): PyArg_ParseTuple[AndKeywords] by format string (y# gives len >= 0 bytes plus a NUL; n/I/K/B/H deliver ANY value of their width, no overflow check), PyBytes_FromStringAndSize, Py_BuildValue, PyLong_From*, PyErr_*, malloc (success implies size <= 2^47)/free/memcpy/memset/memcmp, OpenSSL EVP_* with the extents of EVP_EncryptInit(3): EVP_CipherUpdate writes at most inl + block_size - 1 bytes, GET_TAG writes and SET_TAG reads `arg` bytes, CipherInit reads key_len / iv_len bytes"
CB = "_buffer.c::Buffer_"
CC = "_crypto.c::"
_BUFFER_FNS = [CB + n for n in ("init", "dealloc", "data_slice", "eof", "pull_bytes", "pull_uint8", "pull_uint16", "pull_uint32", "pull_uint64", "pull_uint_var", "push_bytes", "push_uint8", "push_uint16", "push_uint32", "push_uint64", "push_uint_var", "seek", "tell", "capacity_getter", "data_getter")]
_CRYPTO_FNS = [CC + n for n in ("AEAD_init", "AEAD_decrypt", "AEAD_encrypt", "HeaderProtection_init", "HeaderProtection_apply", "HeaderProtection_remove")]

PROPS["C04"] = dict(
    functions=_BUFFER_FNS + _CRYPTO_FNS,
    bounded=["cbuffer-model", "ccrypto-boundary"],
    scope="decided for EVERY argument the CPython argument parser can deliver (any Py_ssize_t, any bytes object, any 32/64-bit pattern) and every object state satisfying the class invariant: each function of _buffer.c and each entry point of _crypto.c (create_ctx and HeaderProtection_mask are inlined at their call sites) keeps every load, store, memcpy/memset and every OpenSSL access inside the object it was given or its own scratch arrays, commits no signed overflow or out-of-range shift, returns NULL exactly when a Python exception is set, and re-establishes the class invariant on every exit (Buffer: base is the start of a live allocation, base <= pos <= end inside it; AEAD / HeaderProtection: contexts, key, IV intact) - so oversized, truncated or otherwise unusable input is rejected with an exception and the helper stays usable. Buffer_init ESTABLISHES the invariant for every capacity / data",
    lemma="C04 = conjunction, over the 26 C functions, of the c-safety obligations (one per memory access / arithmetic operation) and the invariant postconditions; the Python call sites need no precondition because the C functions are total-safe",
    not_decided="OpenSSL and CPython internals (trusted extents), AEAD_dealloc / HeaderProtection_dealloc (free only), module initialisation; that setup.py compiles exactly these sources",
    trusted_base=BASE + [CSEM, CSTUBS, A3, A4],
    assumptions=[A3, A4],
)


PB = "quic/packet_builder.py::QuicPacketBuilder."
CRYPTO_STUB = "CryptoPair.encrypt_packet: trusted Python-level restatement of the cwp-proved C contracts of _crypto.c AEAD_encrypt + HeaderProtection_apply (after fix fe0e03b): result = header + payload + 16-byte tag; CryptoError exactly when payload > 1484, header + payload + 16 > 1500, header shorter than its packet-number field + 1, or payload shorter than 4 - pn_length; assumes send keys are installed (no AssertionError) and OpenSSL does not fail"
BUF_STUB = "Buffer (contracts/buffer_model.py): trusted Python-level restatement of the cwp-proved contracts of _buffer.c"
FRAMES = "modifies lists are checked syntactically (check_frame=True) for every C13 function: a heap field written on some path, other than at an object allocated on that path, must be named in `modifies`"
PB_CALLERS = "callers of the builder (connection.py frame writers, not verified here): start_frame is called with a packet open, capacity >= 1 covering the frame type; bytes pushed after start_frame stay within the announced capacity (class-invariant clause 'non-empty packet leaves room for the tag'); start_packet is given a CryptoPair (aead_tag_size == 16, assigned once in CryptoPair.__init__) with send keys installed; max_total_bytes / max_flight_bytes are assigned only on a fresh builder"
PB_OVR = "the budget clauses are claimed for a builder run up to the first 'overrun' (ghost flag g_ovr, candidate defect D2: header-protection sample padding is not budgeted by start_frame); start_packet/flush/_end_packet require `not g_ovr` on entry and report g_ovr on exit"
CONN_PRE = "assumed preconditions of datagrams_to_send (connection invariants not re-proved): max_datagram_size >= 1200, version is a 32-bit value, connection IDs < 256 bytes, packet number >= 0"

PROPS["C13"] = dict(
    functions=[
        # the two heavy functions first (fresh worker processes); NOT sharded: path pruning uses wall-clock solver budgets,
        # so two processes can enumerate slightly different sets of (vacuous) paths and index-based sharding would
        # lose count ("sharding lost obligations")
        PB + "_end_packet", PB + "start_packet",
        PB + "__init__", PB + "packet_is_empty", PB + "packet_number", PB + "remaining_buffer_space", PB + "remaining_flight_space",
        PB + "start_frame", PB + "flush", PB + "_flush_current_datagram",
        "quic/packet.py::encode_long_header_first_byte", "quic/crypto.py::CryptoPair.key_phase",
        "quic/connection.py::QuicNetworkPath.can_send", "quic/connection.py::QuicConnection.datagrams_to_send",
    ],
    bounded=[],
    # contract variants holding the clauses of the property that are REFUTED on the unchanged tree (genuine candidate defects,
    # reproduced natively; see DESIGN 5 'C13 as built'): run with tools/vc.sh / tools/vcpar.py, expected verdict `refuted`
    known_candidates=[
        PB + "_flush_current_datagram#rfc_padding",  # D1: Initial datagrams are padded to the flight capacity, not to 1200
        PB + "_end_packet#no_overrun",  # D2: sample padding can push a packet one byte over the datagram / amplification budget
    ],
    scope="decided for all builder states satisfying the class invariant PB, all arguments and all call sequences (induction over the public methods __init__, start_packet, start_frame, flush): "
    "(s1) every datagram appended to the builder's output - hence every element returned by flush() - is at most max_datagram_size bytes long; "
    "(s2, as the code achieves it) a datagram that contains an Initial packet sent by a client, or an ack-eliciting Initial packet sent by a server (ack-eliciting decided per frame type as in RFC 9000), is at least min(1200, flight capacity of that datagram) bytes long - the unconditional 1200-byte clause of the property is REFUTED (known candidate D1); "
    "(s3, builder) _total_bytes equals the total length of all datagrams produced, trailing Initial padding included, and with max_total_bytes set that total never exceeds max(max_total_bytes, 0), up to the first sample-padding overrun (D2, refuted as its own clause); "
    "(s3, connection, PREFIX of datagrams_to_send up to the try block of the non-closing branch) the builder is fresh and max_total_bytes == 3 * bytes_received - bytes_sent for EVERY unvalidated path, handshake confirmed or not; QuicNetworkPath.can_send(size) == validated or sent + size <= 3 * received; "
    "packet numbers advance by exactly one per emitted packet and the packets returned by flush() carry consecutive numbers; start_frame refuses (QuicPacketBuilderStop) exactly when the announced size plus tag does not fit the datagram budget or, for in-flight frames, the flight budget; "
    "no BufferWriteError / CryptoError escapes _end_packet, start_packet or flush unless an overrun happened (BufferWriteError) or max_datagram_size > 1500 (CryptoError)",
    lemma="s1: invariant 'forall d in _datagrams: len(d) <= g_mds' (+ _flush_current_datagram ensures, flush ensures.0); g_mds is the constructor argument and equals the capacity of the builder's Buffer, which no method changes. "
    "s3: ghost g_out += len(datagram) at the only append site; invariant _total_bytes == g_out (cut in _flush_current_datagram: the count charged equals the length handed over); start_packet clips _buffer_capacity to max_total_bytes - _total_bytes when a datagram is begun, invariant g_out + max(_buffer_capacity,0) <= max(max_total_bytes,0) while it is assembled, tell() <= _buffer_capacity, trailing padding goes to _flight_capacity <= _buffer_capacity; so after any call sequence g_out <= max_total_bytes; with the datagrams_to_send prefix (fresh builder, budget = 3*received - sent) the bytes of one datagrams_to_send call stay within the budget of the path. "
    "s2: ghost g_need is set at the only site where a packet is recorded as sent, from the property's words; cut in _end_packet: such a packet marks the datagram (_datagram_needs_padding); _flush_current_datagram then pads to the flight capacity (1-RTT: inside the packet)",
    not_decided="the unconditional 1200-byte floor (D1, refuted); the exact budget under sample padding (D2, refuted); the close branch of datagrams_to_send, which sets no max_total_bytes at all (D3, reproduced natively: 4027 bytes sent to an unvalidated address that sent 1200); the rest of datagrams_to_send (frame writers, packet registration, the bytes_sent += len(datagram) loop), receive_datagram's bytes_received accounting and path validation, _find_network_path / migration; that the frame writers respect the builder's call protocol (" + PB_CALLERS + "); key-phase values of CryptoContext (0/1) are an invariant assumed of CryptoPair",
    trusted_base=BASE + [CRYPTO_STUB, BUF_STUB, FRAMES, PB_CALLERS, PB_OVR],
    assumptions=[A2, PB_CALLERS, PB_OVR, CONN_PRE],
)
