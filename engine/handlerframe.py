"""Delivery-handler table: which callables can the recovery layer run, and do their contracts justify the summary
(R.consts["OPAQUE_CALL"]) that on_ack_received / _on_packets_lost / on_loss_detection_timeout are verified against?

qual: handlers::delivery        declaration: R.consts["HANDLER_FRAME"] (contracts/quic_handlers.py)
Back end: "syntactic-handler-table" - no SMT reasoning; every obligation's goal is the z3 constant of the verdict so that the
normal driver machinery counts, reports and replays it (as for engine/dominance.py, engine/logblocks.py).

What is read from the CURRENT source of every file under src/aioquic on every run:

  R  registration sites: every call `<x>.start_frame(...)` / `start_frame(...)` with a `handler` keyword or a third positional
     argument other than the constant None; every call `QuicPacketRecovery(..., send_probe=<e>)`
  W  every other way into the table: any occurrence of the attribute `delivery_handlers` that is not (a) the append of the
     tuple `(handler, handler_args)` inside QuicPacketBuilder.start_frame with `handler` the unassigned parameter, (b) the
     dataclass field declaration, (c) the iterable of a `for` loop (recovery runs the handlers) ; any store to an attribute
     `_send_probe` other than `self._send_probe = send_probe` in QuicPacketRecovery.__init__; any subclass of a class that
     defines a handler (an override would be run instead); any store to the attributes `sender` / `receiver` outside
     QuicStream.__init__ (the receiver expressions of the bound methods are resolved by these names)

Obligations (one per item, named by handler, not by line, so that harmless edits do not move them):

  handlers:closed-world.<k>          a W occurrence (goal False), or `handlers:closed-world` True when there is none
  handlers:resolved.<site>           the registered expression is `<receiver>.<method>` with a declared receiver and the
                                     method is defined in that class in the current source
  handlers:contract.<Cls.fn>         the handler has a contract that is verified (not trusted) with frame=True, i.e. its
                                     `modifies` list is proved complete by SMT frame obligations when the function is checked
  handlers:preserves.<Cls.fn>        no `modifies` entry of that contract names a field preserved by OPAQUE_CALL (by field
                                     name, whatever the class: conservative), and none is `<opaque>`
  handlers:noraise.<Cls.fn>          `raises` of that contract is empty, or lists only exceptions declared in
                                     HANDLER_FRAME.guarded_raises (then the guard is printed among the assumptions)

A construct the scan cannot classify is an error (function undecided), never a pass.  Vacuity guard: at least one
registration site and one probe site must be found, and every start_frame call in connection.py is accounted for."""
from __future__ import annotations

import ast
import hashlib
import os

import z3

from engine.pyvc.core import Obligation

MUT = {"append", "extend", "insert", "pop", "remove", "clear", "sort", "reverse", "__setitem__", "__delitem__", "__iadd__"}


def _src_root():
    return os.environ.get("AIOQUIC_SRC", "/repo/src/aioquic")


def _files(root):
    out = []
    for d, _dn, fn in os.walk(root):
        for f in sorted(fn):
            if f.endswith(".py"):
                p = os.path.join(d, f)
                out.append((os.path.relpath(p, root), p))
    return sorted(out)


class _Ctx(ast.NodeVisitor):
    """walk one module remembering the enclosing class / function and the parent of every node"""

    def __init__(self, rel, text):
        self.rel, self.text = rel, text
        self.stack = []
        self.items = []  # (kind, node, qualname-of-enclosing-def, parent chain)
        self.classes = {}  # name -> ClassDef
        self.parents = {}

    def run(self, tree):
        for n in ast.walk(tree):
            for c in ast.iter_child_nodes(n):
                self.parents[c] = n
        self.visit(tree)

    def where(self):
        return ".".join(self.stack)

    def visit_ClassDef(self, node):
        if not self.stack:
            self.classes[node.name] = node
        self.stack.append(node.name)
        self.generic_visit(node)
        self.stack.pop()

    def visit_FunctionDef(self, node):
        self.stack.append(node.name)
        self.generic_visit(node)
        self.stack.pop()

    visit_AsyncFunctionDef = visit_FunctionDef

    def visit_Call(self, node):
        self.items.append(("call", node, self.where()))
        self.generic_visit(node)

    def visit_Attribute(self, node):
        self.items.append(("attr", node, self.where()))
        self.generic_visit(node)

    def visit_AnnAssign(self, node):
        self.items.append(("annassign", node, self.where()))
        self.generic_visit(node)


def build(qual, reg):
    from engine.pyvc.verify import FunctionResult

    r = FunctionResult(qual)
    cfg = reg.consts.get("HANDLER_FRAME")
    opq = reg.consts.get("OPAQUE_CALL")
    if not cfg or not opq:
        r.errors.append("no HANDLER_FRAME / OPAQUE_CALL declaration in the sidecars")
        return r
    root = _src_root()
    registrar = cfg["registrar"]
    reg_rel, reg_fq = cfg["registrar_def"].split("::")
    hfield = cfg["handlers_field"]
    probe_cls, probe_kw = cfg["probe_kw"]
    receivers = cfg["receivers"]
    preserved = {loc.split(".")[1] for loc in opq["preserves"]}
    mods = {}
    for rel, path in _files(root):
        try:
            text = open(path).read()
            tree = ast.parse(text)
        except (OSError, SyntaxError) as e:
            r.errors.append("cannot read/parse %s: %s" % (rel, e))
            return r
        c = _Ctx(rel, text)
        c.run(tree)
        mods[rel] = c
    sha = hashlib.sha256()
    obs = []
    closed = []  # (description) violations of the closed world
    sites = []  # (rel, line, where, expr node, kind)
    handler_classes = {}  # class name -> rel (classes that define a resolved handler)

    def T(name, ok, line, note):
        obs.append(Obligation(name, "handler-table", [], z3.BoolVal(bool(ok)), site=line, note=note))

    # ---------------------------------------------------------------- R: registration sites
    n_conn_calls = 0
    for rel, c in mods.items():
        for kind, node, where in c.items:
            if kind != "call":
                continue
            f = node.func
            fname = f.attr if isinstance(f, ast.Attribute) else (f.id if isinstance(f, ast.Name) else None)
            if fname == registrar:
                if rel == "quic/connection.py":
                    n_conn_calls += 1
                if any(isinstance(a, ast.Starred) for a in node.args) or any(k.arg is None for k in node.keywords):
                    r.errors.append("%s:%d: %s called with * / ** arguments: the registered handler cannot be read" % (rel, node.lineno, registrar))
                    continue
                h = None
                for k in node.keywords:
                    if k.arg == "handler":
                        h = k.value
                if h is None and len(node.args) >= 3:
                    h = node.args[2]
                if h is None or (isinstance(h, ast.Constant) and h.value is None):
                    continue
                sites.append((rel, node.lineno, where, h, "delivery"))
                sha.update((ast.get_source_segment(c.text, node) or "").encode())
            elif fname == probe_cls:
                if any(k.arg is None for k in node.keywords):
                    r.errors.append("%s:%d: %s called with ** arguments" % (rel, node.lineno, probe_cls))
                    continue
                h = [k.value for k in node.keywords if k.arg == probe_kw]
                if not h:
                    r.errors.append("%s:%d: %s constructed without the keyword %s (positional probe callbacks are not read)" % (rel, node.lineno, probe_cls, probe_kw))
                    continue
                sites.append((rel, node.lineno, where, h[0], "probe"))
                sha.update((ast.get_source_segment(c.text, node) or "").encode())
    if not any(s[4] == "delivery" for s in sites) or not any(s[4] == "probe" for s in sites):
        r.errors.append("vacuity guard: no %s(handler=...) registration or no %s(%s=...) site found under %s" % (registrar, probe_cls, probe_kw, root))
    if n_conn_calls == 0:
        r.errors.append("vacuity guard: no %s call in quic/connection.py" % registrar)

    # ---------------------------------------------------------------- W: every other way into the table
    for rel, c in mods.items():
        for kind, node, where in c.items:
            if kind == "annassign":
                continue
            if kind == "attr" and node.attr == hfield:
                par = c.parents.get(node)
                # (c) iterable of a for loop
                if isinstance(par, ast.For) and par.iter is node and isinstance(node.ctx, ast.Load):
                    continue
                # (a) the append inside the registrar
                if (rel == reg_rel and where == reg_fq and isinstance(par, ast.Attribute) and par.attr == "append" and isinstance(c.parents.get(par), ast.Call)
                        and c.parents[par].func is par):
                    call = c.parents[par]
                    ok = (len(call.args) == 1 and isinstance(call.args[0], ast.Tuple) and len(call.args[0].elts) == 2
                          and isinstance(call.args[0].elts[0], ast.Name) and call.args[0].elts[0].id == "handler")
                    if ok:
                        continue
                closed.append((rel, node.lineno, "occurrence of .%s in %s that is neither start_frame's append((handler, handler_args)) nor the iterable of a for loop" % (hfield, where or "<module>")))
            if kind == "attr" and node.attr == "_send_probe" and isinstance(node.ctx, (ast.Store, ast.Del)):
                par = c.parents.get(node)
                ok = (rel == "quic/recovery.py" and where == probe_cls + ".__init__" and isinstance(par, ast.Assign) and isinstance(par.value, ast.Name) and par.value.id == probe_kw)
                if not ok:
                    closed.append((rel, node.lineno, "store to ._send_probe in %s other than `self._send_probe = %s` in %s.__init__" % (where or "<module>", probe_kw, probe_cls)))
            if kind == "attr" and node.attr in ("sender", "receiver") and isinstance(node.ctx, (ast.Store, ast.Del)):
                par = c.parents.get(node)
                want = {"sender": "QuicStreamSender", "receiver": "QuicStreamReceiver"}[node.attr]
                ok = (rel == "quic/stream.py" and where == "QuicStream.__init__" and isinstance(par, ast.Assign) and isinstance(par.value, ast.Call)
                      and isinstance(par.value.func, ast.Name) and par.value.func.id == want)
                if not ok:
                    closed.append((rel, node.lineno, "store to .%s in %s other than `self.%s = %s(...)` in QuicStream.__init__" % (node.attr, where or "<module>", node.attr, want)))
        # keyword construction QuicSentPacket(delivery_handlers=...)
        for kind, node, where in c.items:
            if kind == "call" and any(k.arg == hfield for k in node.keywords):
                closed.append((rel, node.lineno, "call with keyword %s= in %s" % (hfield, where or "<module>")))
    # the registrar's parameter `handler` must reach the append unassigned
    rc = mods.get(reg_rel)
    rdef = None
    if rc is not None:
        cn, _, fn = reg_fq.partition(".")
        cd = rc.classes.get(cn)
        for m in (cd.body if cd else []):
            if isinstance(m, ast.FunctionDef) and m.name == fn:
                rdef = m
    if rdef is None:
        r.errors.append("registrar %s not found" % cfg["registrar_def"])
    else:
        sha.update((ast.get_source_segment(rc.text, rdef) or "").encode())
        for n in ast.walk(rdef):
            if isinstance(n, ast.Name) and n.id == "handler" and isinstance(n.ctx, (ast.Store, ast.Del)):
                closed.append((reg_rel, n.lineno, "the parameter `handler` is assigned inside %s" % reg_fq))
        names = [a.arg for a in rdef.args.args]
        if names[:4] != ["self", "frame_type", "capacity", "handler"]:
            r.errors.append("%s: parameter list %s is not (self, frame_type, capacity, handler, ...): the positional reading of registration sites is off" % (reg_fq, names))

    # ---------------------------------------------------------------- resolve the registered expressions
    resolved = {}  # "Cls.fn" -> (rel, FunctionDef)
    for rel, line, where, h, kind in sorted(sites, key=lambda s: (s[0], s[1])):
        label = "%s@%s" % (ast.unparse(h), where)
        ok, note = False, ""
        if isinstance(h, ast.Attribute):
            recv = ast.unparse(h.value)
            tgt = receivers.get(recv)
            if tgt is None:
                note = "receiver expression `%s` is not declared in HANDLER_FRAME.receivers" % recv
            else:
                trel, tcls = tgt.split("::")
                tc = mods.get(trel)
                cd = tc.classes.get(tcls) if tc else None
                fd = None
                for m in (cd.body if cd else []):
                    if isinstance(m, (ast.FunctionDef, ast.AsyncFunctionDef)) and m.name == h.attr:
                        fd = m
                if fd is None:
                    note = "no method %s in %s (current source)" % (h.attr, tgt)
                elif isinstance(fd, ast.AsyncFunctionDef) or fd.decorator_list:
                    note = "%s.%s is async / decorated: not a plain bound method" % (tcls, h.attr)
                elif recv == "self" and not where.startswith(tcls + "."):
                    note = "`self` at this site is not a %s" % tcls
                else:
                    ok = True
                    note = "%s registered at %s:%d resolves to %s.%s" % (kind, rel, line, tcls, h.attr)
                    resolved["%s.%s" % (tcls, h.attr)] = (trel, fd)
                    handler_classes[tcls] = trel
        else:
            note = "registered callable `%s` is not a bound method expression (lambda, partial, local function ...): no contract can be looked up" % ast.unparse(h)
        T("handlers:resolved.%s" % label, ok, line, note)
    # subclasses of a handler class (an override would run instead of the resolved definition)
    for rel, c in mods.items():
        for cn, cd in c.classes.items():
            for b in cd.bases:
                bn = b.attr if isinstance(b, ast.Attribute) else (b.id if isinstance(b, ast.Name) else None)
                if bn in handler_classes:
                    closed.append((rel, cd.lineno, "class %s derives from %s, which defines delivery handlers" % (cn, bn)))
    if closed:
        for k, (rel, line, what) in enumerate(sorted(closed)):
            T("handlers:closed-world.%d" % k, False, line, "%s:%d: %s" % (rel, line, what))
    else:
        T("handlers:closed-world", True, None, "delivery_handlers is filled only by start_frame's append of its `handler` parameter; _send_probe only by the constructor; no subclass of %s; sender/receiver assigned only in QuicStream.__init__" % ", ".join(sorted(handler_classes)))

    # ---------------------------------------------------------------- the contracts of the resolved handlers
    guarded = cfg.get("guarded_raises", {})
    for key in sorted(resolved):
        trel, fd = resolved[key]
        sha.update((ast.get_source_segment(mods[trel].text, fd) or "").encode())
        k = reg.contracts.get(key)
        if k is None:
            T("handlers:contract.%s" % key, False, fd.lineno, "%s can be run by the recovery layer but has no contract" % key)
            continue
        T("handlers:contract.%s" % key, (not k.trusted) and k.frame and not k.inline, fd.lineno,
          "%s: contract %s (needs: verified, frame=True)" % (key, "trusted" if k.trusted else ("frame=%s" % k.frame)))
        bad = []
        for loc in k.modifies:
            if loc == "<opaque>":
                bad.append(loc)
                continue
            last = (loc[:-3] if loc.endswith("[*]") else loc).split(".")[-1]
            if last in preserved:
                bad.append(loc)
        T("handlers:preserves.%s" % key, not bad, fd.lineno,
          "%s: modifies %s" % (key, ("names preserved location(s) %s" % bad) if bad else "names none of the %d fields OPAQUE_CALL preserves" % len(preserved)))
        extra = sorted(e for e in k.raises if e not in (guarded.get(key) or ([], ""))[0])
        T("handlers:noraise.%s" % key, not extra, fd.lineno,
          "%s: raises %s" % (key, ("nothing" if not k.raises else ("%s - %s" % (sorted(k.raises), "guarded by caller discipline" if not extra else "NOT allowed for a delivery handler")))))
        if k.raises and not extra:
            r.assumptions.add("handler table: %s raises %s only outside its registered use: %s" % (key, sorted(k.raises), guarded[key][1]))
        if k.requires:
            r.assumptions.add("handler table: %s is run with the arguments its registration site recorded; its precondition (%s) is the registering frame writer's obligation / the recovery layer's once-per-frame discipline" % (key, "; ".join(k.requires)[:300]))
    r.assumptions.add("handler table: the handlers' contracts (frame=True, exact raises) are verified as functions of ./check C08 (and of the properties that own them); this table only connects them to OPAQUE_CALL")
    r.obligations = obs
    r.sha = sha.hexdigest()[:16]
    r.paths = 1
    r.outcomes = {"handlers": len(resolved), "sites": len(sites)}
    return r
