# Sidecar contracts for src/aioquic/quic/congestion/{base,reno,cubic}.py  (R is injected by the loader)
#
# C08.  Three layers:
#  (1) the INTERFACE contract of QuicCongestionControl (abstract base): what QuicPacketRecovery relies on when it calls
#      self._cc.<callback>() - the in-flight counter moves by exactly the size of the packets handed in, nothing else
#      of the recovery state is touched, the window stays positive;
#  (2) RenoCongestionControl and (3) CubicCongestionControl each satisfy the interface contract (same preconditions,
#      the interface postconditions plus their own) and keep the class invariant
#      congestion_window >= 2 * max_datagram_size  ("the congestion window never drops below two datagrams").
#
# Sums over a list of packets are stated through a GHOST PARAMETER ps (prefix sums):  ps[0] = 0,
# ps[k] = ps[k-1] + packets[k-1].sent_bytes (1 <= k <= len).  Any map satisfying the recurrence is the prefix-sum function (induction),
# so `bytes_in_flight == old - ps[len(packets)]` says "reduced by exactly the total size of the packets".

R.field_types("QuicSentPacket", sent_bytes="int", sent_time="Optional[float]", in_flight="bool")
R.field_types("QuicCongestionControl", bytes_in_flight="int", congestion_window="int", ssthresh="Optional[int]")
R.contract("QuicCongestionControl.__init__", inline=True)
R.contract("QuicRttMonitor.__init__", trusted=True, note="HyStart monitor state is not property-relevant; constructor assumed total")

# ---------------------------------------------------------------------------------------------- interface (base class)
R.invariant("QuicCongestionControl", ["self.congestion_window > 0"])  # inherited by both subclasses (proved there)

_PS_REQ = [
    "ps[0] == 0",
    "forall(lambda k: implies(1 <= k <= len(packets), ps[k] == ps[k - 1] + at(packets, k - 1).sent_bytes), pattern=ps[k])",
]
_SENT_TIMES = "forall(lambda k: implies(0 <= k < len(packets), packets[k].sent_time is not None))"
_IFACE_MOD = ["self.bytes_in_flight", "self.congestion_window", "self.ssthresh"]

IFACE = {
    "on_packet_acked": dict(
        requires=["packet.sent_bytes >= 0", "packet.sent_time is not None"],
        ensures=["self.bytes_in_flight == old(self.bytes_in_flight) - packet.sent_bytes"],
    ),
    "on_packet_sent": dict(
        requires=["packet.sent_time is not None"],
        ensures=["self.bytes_in_flight == old(self.bytes_in_flight) + packet.sent_bytes"],
    ),
    "on_packets_expired": dict(
        params={"packets": "list[QuicSentPacket]"},
        ghost_params={"ps": "map[int,int]"},
        ghost_native={"ps": "prefix_sums([p.sent_bytes for p in packets])"},
        requires=list(_PS_REQ),
        ensures=["self.bytes_in_flight == old(self.bytes_in_flight) - ps[len(packets)]", "self.congestion_window == old(self.congestion_window)"],
    ),
    "on_packets_lost": dict(
        params={"packets": "list[QuicSentPacket]"},
        ghost_params={"ps": "map[int,int]"},
        ghost_native={"ps": "prefix_sums([p.sent_bytes for p in packets])"},
        requires=list(_PS_REQ) + [_SENT_TIMES],
        ensures=["self.bytes_in_flight == old(self.bytes_in_flight) - ps[len(packets)]"],
    ),
    "on_rtt_measurement": dict(
        requires=[],
        ensures=["self.bytes_in_flight == old(self.bytes_in_flight)", "self.congestion_window == old(self.congestion_window)"],
    ),
}
for _m, _c in IFACE.items():
    # the abstract methods have no body: these contracts are only ever APPLIED (at self._cc.<m>() in recovery.py);
    # they are discharged by the subclass contracts below, which repeat them clause by clause
    R.contract("QuicCongestionControl." + _m, modifies=list(_IFACE_MOD), prop=["C08"], **{k: (list(v) if isinstance(v, list) else dict(v)) for k, v in _c.items()})


def _impl(cls, meth, extra_modifies=(), extra_ensures=(), **kw):
    """contract of an implementation = interface contract (identical preconditions, all interface postconditions)
    + its own postconditions; fields outside the interface may be modified (callers typed at the base cannot see them)"""
    c = IFACE[meth]
    R.contract(
        "%s.%s" % (cls, meth),
        params=dict(c.get("params", {})),
        ghost_params=dict(c.get("ghost_params", {})),
        ghost_native=dict(c.get("ghost_native", {})),
        requires=list(c["requires"]),
        modifies=list(_IFACE_MOD) + list(extra_modifies),
        ensures=list(c["ensures"]) + list(extra_ensures),
        check_frame=True,
        prop=["C08"],
        **kw,
    )


_LOOP_SUM = dict(
    invariant=[
        "0 <= _i0 <= len(packets)",
        "self.bytes_in_flight == old(self.bytes_in_flight) - ps[_i0]",
        "self.congestion_window == old(self.congestion_window)",
        "self._max_datagram_size == old(self._max_datagram_size)",
        "self.ssthresh == old(self.ssthresh)",
    ],
)

# ---------------------------------------------------------------------------------------------- Reno
R.field_types(
    "RenoCongestionControl",
    bytes_in_flight="int",
    congestion_window="int",
    ssthresh="Optional[int]",
    _max_datagram_size="int",
    _congestion_recovery_start_time="float",
    _congestion_stash="int",
    _rtt_monitor="QuicRttMonitor",
)
R.invariant(
    "RenoCongestionControl",
    ["self._max_datagram_size > 0", "self.congestion_window >= 2 * self._max_datagram_size", "self._congestion_stash >= 0"],
)
R.contract(
    "RenoCongestionControl.__init__",
    requires=["max_datagram_size > 0"],
    ensures=["self.congestion_window == 10 * max_datagram_size", "self._max_datagram_size == max_datagram_size"],
    check_frame=True,
    prop=["C08"],
)
_impl("RenoCongestionControl", "on_packet_acked", extra_modifies=["self._congestion_stash"], extra_ensures=["self.congestion_window >= old(self.congestion_window)"])
_impl("RenoCongestionControl", "on_packet_sent", extra_ensures=["self.congestion_window == old(self.congestion_window)"])
_impl("RenoCongestionControl", "on_packets_expired", loops={0: _LOOP_SUM})
_impl(
    "RenoCongestionControl",
    "on_packets_lost",
    extra_modifies=["self._congestion_recovery_start_time"],
    extra_ensures=[
        "self.congestion_window >= 2 * self._max_datagram_size",
        "self.congestion_window <= max(old(self.congestion_window), 2 * self._max_datagram_size)",
        "self._max_datagram_size == old(self._max_datagram_size)",
    ],
    locals={"lost_largest_time": "Optional[float]"},
    loops={0: dict(invariant=_LOOP_SUM["invariant"] + ["self._congestion_stash == old(self._congestion_stash)", "lost_largest_time is not None"])},
)
# HyStart RTT monitor (base.py): only "returns a bool, never raises, touches only its own sample state" matters for C08.
# Its constructor builds the sample buffer with a list comprehension (outside the subset): the constructor contract is
# ASSUMED (it states what the five assignments establish); add_rtt and is_rtt_increasing are verified against the
# class invariant below.
R.field_types("QuicRttMonitor", _samples="list[float]", _sample_idx="int", _size="int", _ready="bool", _increases="int",
              _filtered_min="Optional[float]", _sample_max="Optional[float]", _sample_min="Optional[float]", _sample_time="float")
R.invariant(
    "QuicRttMonitor",
    [
        "self._size > 0 and len(self._samples) == self._size",
        "0 <= self._sample_idx < self._size",
        "implies(self._ready, self._sample_max is not None and self._sample_min is not None)",
    ],
)
R.contracts["QuicRttMonitor.__init__"].ensures = ["self._size == 5 and len(self._samples) == 5 and self._sample_idx == 0 and not self._ready"]
_RTTM_MOD = ["self._samples", "self._sample_idx", "self._ready", "self._sample_max", "self._sample_min"]
R.contract(
    "QuicRttMonitor.add_rtt",
    modifies=list(_RTTM_MOD),
    ensures=["self._size == old(self._size)"],
    loops={0: dict(invariant=["0 <= _i0", "self._sample_max is not None and self._sample_min is not None", "len(self._samples) == self._size",
                              "self._ready and self._sample_idx == old(self._sample_idx + 1 if self._sample_idx + 1 < self._size else 0)"])},
    check_frame=True,
    prop=["C08"],
)
R.contract(
    "QuicRttMonitor.is_rtt_increasing",
    returns="bool",
    modifies=list(_RTTM_MOD) + ["self._increases", "self._filtered_min", "self._sample_time"],
    ensures=[],
    check_frame=True,
    prop=["C08"],
)
_RTTM_ALL = ["QuicRttMonitor.%s[*]" % f for f in ("_samples", "_sample_idx", "_ready", "_increases", "_filtered_min", "_sample_max", "_sample_min", "_sample_time")]
_impl("RenoCongestionControl", "on_rtt_measurement", extra_modifies=_RTTM_ALL)

# ---------------------------------------------------------------------------------------------- CUBIC
R.field_types(
    "CubicCongestionControl",
    bytes_in_flight="int",
    congestion_window="int",
    ssthresh="Optional[int]",
    additive_increase_factor="int",
    _max_datagram_size="int",
    _congestion_recovery_start_time="float",
    _rtt_monitor="QuicRttMonitor",
    rtt="float",
    last_ack="float",
    K="float",
    _W_max="int",  # only ever assigned ints (reset, on_packets_lost); the `is not None` test in on_packets_lost is then constant
    _W_est="int",
    _cwnd_epoch="int",
    _t_epoch="float",
    _first_slow_start="bool",
    _starting_congestion_avoidance="bool",
)
# window floor as an inductive class invariant.  The last clause is what the Reno-friendly branch of on_packet_acked
# needs: once congestion avoidance has been entered (_first_slow_start and _starting_congestion_avoidance both false)
# the Reno estimate _W_est has been initialised from a window that was itself >= 2 datagrams, and it only grows.
R.invariant(
    "CubicCongestionControl",
    [
        "self._max_datagram_size > 0",
        "self.additive_increase_factor == self._max_datagram_size",
        "self.congestion_window >= 2 * self._max_datagram_size",
        "self._first_slow_start or self._starting_congestion_avoidance or self._W_est >= 2 * self._max_datagram_size",
    ],
)
# float ** (1/3): outside exact real arithmetic.  K (its only consumer) enters the window only through W_cubic(), whose
# value is compared, clamped to [cwnd, 1.5 cwnd] and never used un-clamped, so NO fact about the cube root is needed:
# the result is an arbitrary real.  (Assumed: the float power does not raise.)
R.contract("better_cube_root", trusted=True, returns="float", note="float ** (1/3) modelled as an arbitrary real number (no facts assumed beyond 'returns a float without raising')")
R.contract("CubicCongestionControl.W_cubic", inline=True)
R.contract("CubicCongestionControl.is_reno_friendly", inline=True)
R.contract("CubicCongestionControl.is_concave", inline=True)

_CUBIC_RESET_MOD = ["self.congestion_window", "self.ssthresh", "self._first_slow_start", "self._starting_congestion_avoidance", "self.K", "self._W_est", "self._cwnd_epoch", "self._t_epoch", "self._W_max"]
# reset() must NOT touch the in-flight ledger: bytes_in_flight is neither in `modifies` (frame check) nor changed
R.contract(
    "CubicCongestionControl.reset",
    use_invariant=False,  # also called from __init__ before the invariant is established
    requires=["self._max_datagram_size > 0"],
    modifies=list(_CUBIC_RESET_MOD),
    ensures=[
        "self.bytes_in_flight == old(self.bytes_in_flight)",
        "self.congestion_window == 10 * self._max_datagram_size",
        "self.ssthresh is None",
        "self._first_slow_start and not self._starting_congestion_avoidance",
        "self._max_datagram_size == old(self._max_datagram_size) and self.additive_increase_factor == old(self.additive_increase_factor)",
    ],
    check_frame=True,
    prop=["C08"],
)
R.contract(
    "CubicCongestionControl.__init__",
    requires=["max_datagram_size > 0"],
    ensures=["self.congestion_window == 10 * max_datagram_size", "self._max_datagram_size == max_datagram_size"],
    check_frame=True,
    prop=["C08"],
)
_impl(
    "CubicCongestionControl",
    "on_packet_acked",
    extra_modifies=["self.last_ack", "self._first_slow_start", "self._starting_congestion_avoidance", "self._W_max", "self._t_epoch", "self._cwnd_epoch", "self._W_est", "self.K"],
    extra_ensures=["self._max_datagram_size == old(self._max_datagram_size)"],
)
_impl("CubicCongestionControl", "on_packet_sent", extra_modifies=list(_CUBIC_RESET_MOD))
_impl("CubicCongestionControl", "on_packets_expired", loops={0: _LOOP_SUM})
_impl(
    "CubicCongestionControl",
    "on_packets_lost",
    extra_modifies=["self._congestion_recovery_start_time", "self._W_max", "self._starting_congestion_avoidance"],
    extra_ensures=[
        "self.congestion_window >= 2 * self._max_datagram_size",
        "implies(self.ssthresh is not None and self.congestion_window != old(self.congestion_window), self.ssthresh >= 2 * self._max_datagram_size)",
    ],
    locals={"lost_largest_time": "Optional[float]"},
    loops={0: dict(invariant=_LOOP_SUM["invariant"] + ["lost_largest_time is not None"])},
)
_impl("CubicCongestionControl", "on_rtt_measurement", extra_modifies=["self.rtt"] + _RTTM_ALL)
