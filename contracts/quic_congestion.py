# Sidecar contracts for src/aioquic/quic/congestion/reno.py  (R is injected by the loader)

R.field_types(
    "RenoCongestionControl",
    bytes_in_flight="int",
    congestion_window="int",
    ssthresh="Optional[int]",
    _max_datagram_size="int",
    _congestion_recovery_start_time="float",
    _congestion_stash="int",
    _rtt_monitor="QuicRttMonitor",
)
R.field_types("QuicSentPacket", sent_bytes="int", sent_time="Optional[float]", in_flight="bool")

# C08: the congestion window never drops below two datagrams (class invariant: established by
# __init__, preserved by every window-changing callback).
R.invariant(
    "RenoCongestionControl",
    ["self._max_datagram_size > 0", "self.congestion_window >= 2 * self._max_datagram_size", "self._congestion_stash >= 0"],
)

R.contract(
    "RenoCongestionControl.__init__",
    requires=["max_datagram_size > 0"],
    ensures=["self.congestion_window == 10 * max_datagram_size", "self._max_datagram_size == max_datagram_size"],
    prop=["C08"],
)

R.field_types("QuicCongestionControl", bytes_in_flight="int", congestion_window="int", ssthresh="Optional[int]")
R.contract("QuicCongestionControl.__init__", inline=True)
R.contract("QuicRttMonitor.__init__", trusted=True, note="HyStart monitor state is not property-relevant; constructor assumed total")

R.contract(
    "RenoCongestionControl.on_packet_acked",
    requires=["packet.sent_bytes >= 0", "packet.sent_time is not None"],
    modifies=["self.bytes_in_flight", "self.congestion_window", "self._congestion_stash"],
    ensures=[
        "self.bytes_in_flight == old(self.bytes_in_flight) - packet.sent_bytes",
        "self.congestion_window >= old(self.congestion_window)",
    ],
    prop=["C08"],
)

R.contract(
    "RenoCongestionControl.on_packet_sent",
    modifies=["self.bytes_in_flight"],
    ensures=["self.bytes_in_flight == old(self.bytes_in_flight) + packet.sent_bytes", "self.congestion_window == old(self.congestion_window)"],
    prop=["C08"],
)

R.contract(
    "RenoCongestionControl.on_packets_lost",
    params={"packets": "list[QuicSentPacket]"},
    requires=["forall(lambda k: implies(0 <= k < len(packets), packets[k].sent_time is not None))"],
    modifies=["self.bytes_in_flight", "self.congestion_window", "self.ssthresh", "self._congestion_recovery_start_time"],
    ensures=[
        "self.congestion_window >= 2 * self._max_datagram_size",
        "self.congestion_window <= max(old(self.congestion_window), 2 * self._max_datagram_size)",
        "self._max_datagram_size == old(self._max_datagram_size)",
    ],
    loops={
        0: dict(
            invariant=[
                "0 <= _i0 <= len(packets)",
                "self.congestion_window == old(self.congestion_window)",
                "self._max_datagram_size == old(self._max_datagram_size)",
                "self._congestion_stash == old(self._congestion_stash)",
                "implies(len(packets) == 0, self.bytes_in_flight == old(self.bytes_in_flight))",
            ],
        )
    },
    prop=["C08"],
)

# CUBIC: only the loss callback (window floor) is under contract; on_packet_acked uses cube roots.
R.field_types(
    "CubicCongestionControl",
    bytes_in_flight="int",
    congestion_window="int",
    ssthresh="Optional[int]",
    _max_datagram_size="int",
    _congestion_recovery_start_time="float",
    _W_max="Optional[int]",
    _starting_congestion_avoidance="bool",
)
R.contract(
    "CubicCongestionControl.on_packets_lost",
    params={"packets": "list[QuicSentPacket]"},
    use_invariant=False,
    requires=[
        "self._max_datagram_size > 0",
        "self.congestion_window >= 2 * self._max_datagram_size",
        "forall(lambda k: implies(0 <= k < len(packets), packets[k].sent_time is not None))",
    ],
    modifies=["self.bytes_in_flight", "self.congestion_window", "self.ssthresh", "self._congestion_recovery_start_time", "self._W_max", "self._starting_congestion_avoidance"],
    ensures=[
        "self.congestion_window >= 2 * self._max_datagram_size",
        "implies(self.ssthresh is not None and self.congestion_window != old(self.congestion_window), self.ssthresh >= 2 * self._max_datagram_size)",
    ],
    loops={
        0: dict(
            invariant=[
                "0 <= _i0 <= len(packets)",
                "self.congestion_window == old(self.congestion_window)",
                "self._max_datagram_size == old(self._max_datagram_size)",
                "self.ssthresh == old(self.ssthresh)",
            ],
        )
    },
    prop=["C08"],
)
