# Sidecar contracts for the header-block validators of src/aioquic/h3/connection.py  (R is injected by the loader)
#
# C15: "Every header block handed to the application has lower-case names free of control, space and non-ASCII
# characters, values free of NUL, CR and LF and of leading or trailing whitespace, all pseudo-headers before regular
# headers with none repeated or unknown, a :method on requests, a :status on responses and none on trailers; and when a
# stream ends, a declared content-length equals the number of body bytes delivered.  A peer message breaking any of these
# rules closes the connection with the HTTP/3 message error instead of producing the event."
#
# Layout: (1) spec predicates written from the statement, (2) the trusted model of int(<bytes>), (3) validate_headers
# against the predicates with ABSTRACT allowed / required sets, (4) the four wrappers against the predicates with the
# pseudo-header names of the statement spelled out, (5) content-length bookkeeping and event emission.

R.type_aliases["Headers"] = "list[tuple[bytes,bytes]]"

# ---------------------------------------------------------------------------------------------------------------- (1)
R.spec(
    """
def h3_key(h, k):
    return elem(h, k)[0]

def h3_val(h, k):
    return elem(h, k)[1]

def h3_pseudo(x):
    return len(x) >= 1 and elem(x, 0) == 0x3A

def h3_fields_ok(h, n):
    "names lower-case and free of control / space / non-ASCII bytes, values free of NUL, CR, LF and of leading or trailing whitespace"
    return forall(lambda k: implies(0 <= k < n, not h3_name_bad(h3_key(h, k)) and not h3_value_bad(h3_val(h, k))))

def h3_order_ok(h, n):
    "all pseudo-headers before regular headers"
    return forall(lambda j, k: implies(0 <= j and j < k and k < n and h3_pseudo(h3_key(h, k)), h3_pseudo(h3_key(h, j))))

def h3_nodup_ok(h, n):
    "no pseudo-header repeated"
    return forall(lambda j, k: implies(0 <= j and j < k and k < n and h3_pseudo(h3_key(h, j)) and h3_pseudo(h3_key(h, k)), not bytes_eq(h3_key(h, j), h3_key(h, k))))

def h3_known_ok(h, n, allowed):
    "no unknown pseudo-header (allowed: the set of pseudo-header names of this kind of message)"
    return forall(lambda k: implies(0 <= k < n and h3_pseudo(h3_key(h, k)), h3_key(h, k) in allowed))

def h3_required_ok(h, n, required):
    "every required pseudo-header is present"
    return forall(lambda y: implies(y in required, exists(lambda k: 0 <= k < n and h3_pseudo(h3_key(h, k)) and bytes_eq(h3_key(h, k), y))), types={'y': 'bytes'}, pattern=bkey(y))

def h3_cl_ok(h, n):
    "extra rule of the implementation: every content-length is a non-negative integer in the spelling int() accepts"
    return forall(lambda k: implies(0 <= k < n and h3_key(h, k) == b"content-length", py_int_ok(h3_val(h, k)) and py_int_val(h3_val(h, k)) >= 0))

def h3_cl_same(h, n):
    "all content-length fields of the block declare the same number (RFC 9110 8.6: differing values make the message malformed)"
    return forall(lambda j, k: implies(0 <= j and j < k and k < n and h3_key(h, j) == b"content-length" and h3_key(h, k) == b"content-length", py_int_val(h3_val(h, j)) == py_int_val(h3_val(h, k))))

def h3_te_ok(h, n):
    "extra rule of the implementation: transfer-encoding may only be 'trailers'"
    return forall(lambda k: implies(0 <= k < n and h3_key(h, k) == b"transfer-encoding", h3_val(h, k) == b"trailers"))

def h3_has_nonempty(h, n, name):
    return exists(lambda j: 0 <= j < n and h3_key(h, j) == name and len(h3_val(h, j)) > 0)

def h3_ap_ok(h, n):
    "extra rule of the implementation: an http(s) :scheme needs a non-empty :authority and a non-empty :path"
    return forall(lambda k: implies(0 <= k < n and h3_key(h, k) == b":scheme" and (h3_val(h, k) == b"http" or h3_val(h, k) == b"https"), h3_has_nonempty(h, n, b":authority") and h3_has_nonempty(h, n, b":path")))

def h3_items_ok(h, n, allowed):
    "the rules that are checked header by header (n = length of the prefix considered)"
    return h3_fields_ok(h, n) and h3_order_ok(h, n) and h3_nodup_ok(h, n) and h3_known_ok(h, n, allowed) and h3_cl_ok(h, n) and h3_cl_same(h, n) and h3_te_ok(h, n)

def h3_block_ok(h, allowed, required):
    return h3_items_ok(h, len(h), allowed) and h3_required_ok(h, len(h), required) and h3_ap_ok(h, len(h))

def h3_no_cl(h, lo, hi):
    return forall(lambda j: implies(lo <= j < hi, not (h3_key(h, j) == b"content-length")))

def h3_declared_cl(h, n, before, after):
    "`after` is the value of the last content-length among the first n headers, `before` when there is none"
    return implies(h3_no_cl(h, 0, n), same(after, before)) and forall(lambda k: implies(0 <= k < n and h3_key(h, k) == b"content-length" and h3_no_cl(h, k + 1, n), after == py_int_val(h3_val(h, k))))
"""
)

# ---------------------------------------------------------------------------------------------------------------- (2)
# int(<bytes>) is CPython's PyLong_FromString(base 10).  It is modelled by two uninterpreted functions of the byte
# string: py_int_ok (the call returns) and py_int_val (what it returns).  The stub below is TRUSTED; what it assumes:
#   * int(b) either returns an int or raises ValueError, nothing else, and has no side effect;
#   * the outcome is a function of the byte string (same bytes -> same outcome);
#   * grammar facts G1..G4 (each cross-checked against CPython by tools/xcheck_pyint.py over all strings of length <= 4
#     over the boundary alphabet and random longer ones):
#       G1  the empty string is rejected;
#       G2  a string consisting only of ASCII digits (length 1..4300) is accepted with a non-negative value; a
#           one-digit string has the value of that digit;
#       G3  an accepted string contains at least one ASCII digit and no byte outside
#           {HT LF VT FF CR SP, '+', '-', '_', '0'..'9'}  (so b"+5", b" 5 ", b"1_0", b"\x0b7\x0c" ARE accepted: the
#           grammar is  ws* [+-]? digit+ ('_' digit+)* ws*  and the contract of validate_headers inherits it);
#       G4  a negative value needs a '-' byte.
R.ufunc("py_int_ok", ["bytes"], "bool")
R.ufunc("py_int_val", ["bytes"], "int")
R.spec(
    """
def py_digit(c):
    return 0x30 <= c <= 0x39

def py_int_alpha(c):
    return py_digit(c) or (0x09 <= c <= 0x0D) or c == 0x20 or c == 0x2B or c == 0x2D or c == 0x5F
"""
)
R.contract(
    "int",
    trusted=True,
    returns="int",
    raises={"ValueError": "not py_int_ok(a0)"},
    ensures=[
        "result == py_int_val(a0)",
        "len(a0) >= 1",  # G1
        "exists(lambda i: 0 <= i < len(a0) and py_digit(elem(a0, i))) and forall(lambda i: implies(0 <= i < len(a0), py_int_alpha(elem(a0, i))))",  # G3
        "implies(result < 0, exists(lambda i: 0 <= i < len(a0) and elem(a0, i) == 0x2D))",  # G4
    ],
    on_raise={
        # G2 (contrapositive: a rejected string is empty, longer than 4300 or has a non-digit)
        "ValueError": ["len(a0) == 0 or len(a0) > 4300 or exists(lambda i: 0 <= i < len(a0) and not py_digit(elem(a0, i)))"],
    },
    note="CPython int(bytes), base 10",
)

# ---------------------------------------------------------------------------------------------------------------- (3)
# validate_headers(headers, allowed, required, stream): MessageError exactly when the block breaks a rule (both
# directions).  allowed / required are arbitrary sets of byte strings here; the wrappers instantiate them.
# ---- FINDING (kept, not hidden): clauses that FAIL on the unchanged tree.  They are only added to the contract when the
# environment variable C15_STRICT is set, so that the rest of C15 still verifies:
#     C15_STRICT=1 python3-vt -m engine.pyvc.cli h3/connection.py::validate_headers
# F1  "a declared content-length equals the number of body bytes delivered" read as EVERY declared content-length: the
#     implementation accepts a block with several content-length fields of different values and compares only the last
#     one with the body (native reproduction: tools/repro_c15_findings.py case A).
import os as _os

C15_FINDING_CLAUSES = {
    "validate_headers": [
        "implies(stream is not None, forall(lambda k: implies(0 <= k < len(headers) and h3_key(headers, k) == b'content-length', stream.expected_content_length == py_int_val(h3_val(headers, k)))))",
    ],
}
_STRICT = bool(_os.environ.get("C15_STRICT"))

R.contract(
    "validate_headers",
    params={"headers": "Headers", "allowed_pseudo_headers": "set[bytes]", "required_pseudo_headers": "set[bytes]", "stream": "Optional[H3Stream]"},
    raises={"MessageError": "not h3_block_ok(headers, allowed_pseudo_headers, required_pseudo_headers)"},
    modifies=["stream.expected_content_length"],
    ensures=[
        # the declared content-length is recorded on the stream (the last one wins; none: left alone)
        "implies(stream is not None, h3_declared_cl(headers, len(headers), old(stream.expected_content_length), stream.expected_content_length))",
        # nothing else of any stream's bookkeeping is written
        "forall(lambda s: s.content_length == old(s.content_length) and (s == stream or same(s.expected_content_length, old(s.expected_content_length))), types={'s': 'H3Stream'})",
    ]
    + C15_FINDING_CLAUSES["validate_headers"],  # since /repo fix (content-length values differ -> MessageError) this clause holds
    loops={
        0: dict(
            invariant=[
                "0 <= _i0 <= len(headers)",
                "h3_fields_ok(headers, _i0)",
                "h3_order_ok(headers, _i0)",
                "h3_nodup_ok(headers, _i0)",
                # the same with set-element ids (what the seen-set test establishes)
                "forall(lambda j, k: implies(0 <= j and j < k and k < _i0 and h3_pseudo(h3_key(headers, j)) and h3_pseudo(h3_key(headers, k)), bkey(h3_key(headers, j)) != bkey(h3_key(headers, k))))",
                "h3_known_ok(headers, _i0, allowed_pseudo_headers)",
                "h3_cl_ok(headers, _i0)",
                "h3_cl_same(headers, _i0)",
                # declared_content_length = the number every content-length field seen so far declares (None: none seen)
                "implies(declared_content_length is None, h3_no_cl(headers, 0, _i0))",
                "implies(declared_content_length is not None, forall(lambda k: implies(0 <= k < _i0 and h3_key(headers, k) == b'content-length', py_int_val(h3_val(headers, k)) == some(declared_content_length))))",
                "implies(declared_content_length is not None, exists(lambda k: 0 <= k < _i0 and h3_key(headers, k) == b'content-length' and py_int_val(h3_val(headers, k)) == some(declared_content_length)))",
                "implies(stream is not None and declared_content_length is not None, stream.expected_content_length is not None and some(stream.expected_content_length) == some(declared_content_length))",
                "h3_te_ok(headers, _i0)",
                # after_pseudo_headers <=> a regular header has been seen
                "iff(after_pseudo_headers, exists(lambda k: 0 <= k < _i0 and not h3_pseudo(h3_key(headers, k))))",
                # seen_pseudo_headers = names of the pseudo-headers of the prefix
                "forall(lambda c: iff(has_key(seen_pseudo_headers, c), exists(lambda k: 0 <= k < _i0 and h3_pseudo(h3_key(headers, k)) and bkey(h3_key(headers, k)) == c)))",
                # authority / path / scheme hold the value of the pseudo-header of that name, None when there is none
                "implies(authority is None, forall(lambda k: implies(0 <= k < _i0, not (h3_key(headers, k) == b':authority'))))",
                "implies(authority is not None, exists(lambda k: 0 <= k < _i0 and h3_key(headers, k) == b':authority' and same(h3_val(headers, k), some(authority))))",
                "implies(path is None, forall(lambda k: implies(0 <= k < _i0, not (h3_key(headers, k) == b':path'))))",
                "implies(path is not None, exists(lambda k: 0 <= k < _i0 and h3_key(headers, k) == b':path' and same(h3_val(headers, k), some(path))))",
                "implies(scheme is None, forall(lambda k: implies(0 <= k < _i0, not (h3_key(headers, k) == b':scheme'))))",
                "implies(scheme is not None, exists(lambda k: 0 <= k < _i0 and h3_key(headers, k) == b':scheme' and same(h3_val(headers, k), some(scheme))))",
                "implies(stream is not None, h3_declared_cl(headers, _i0, old(stream.expected_content_length), stream.expected_content_length))",
            ],
        )
    },
    prop=["C15"],
)

# ---------------------------------------------------------------------------------------------------------------- (4)
# The four kinds of header block, with the pseudo-header names of the statement spelled out as byte-string
# comparisons (no sets): "a :method on requests, a :status on responses and none on trailers".  The implementation
# also requires :authority on requests and all four request pseudo-headers on push promises (stricter; accepted).
R.spec(
    """
def h3_has(h, name):
    return exists(lambda k: 0 <= k < len(h) and h3_key(h, k) == name)

def h3_common_ok(h):
    return h3_fields_ok(h, len(h)) and h3_order_ok(h, len(h)) and h3_nodup_ok(h, len(h)) and h3_cl_ok(h, len(h)) and h3_cl_same(h, len(h)) and h3_te_ok(h, len(h)) and h3_ap_ok(h, len(h))

def h3_request_name(x):
    return x == b":method" or x == b":scheme" or x == b":authority" or x == b":path" or x == b":protocol"

def h3_promise_name(x):
    return x == b":method" or x == b":scheme" or x == b":authority" or x == b":path"

def h3_request_ok(h):
    return h3_common_ok(h) and forall(lambda k: implies(0 <= k < len(h) and h3_pseudo(h3_key(h, k)), h3_request_name(h3_key(h, k)))) and h3_has(h, b":method") and h3_has(h, b":authority")

def h3_response_ok(h):
    return h3_common_ok(h) and forall(lambda k: implies(0 <= k < len(h) and h3_pseudo(h3_key(h, k)), h3_key(h, k) == b":status")) and h3_has(h, b":status")

def h3_trailers_ok(h):
    return h3_common_ok(h) and forall(lambda k: implies(0 <= k < len(h), not h3_pseudo(h3_key(h, k))))

def h3_promise_ok(h):
    return h3_common_ok(h) and forall(lambda k: implies(0 <= k < len(h) and h3_pseudo(h3_key(h, k)), h3_promise_name(h3_key(h, k)))) and h3_has(h, b":method") and h3_has(h, b":scheme") and h3_has(h, b":authority") and h3_has(h, b":path")

def h3_streams_untouched():
    "no stream's content-length bookkeeping is written"
    return forall(lambda s: s.expected_content_length == old(s.expected_content_length) and s.content_length == old(s.content_length), types={'s': 'H3Stream'})
"""
)

_CL_ENSURES = [
    "implies(stream is not None, h3_declared_cl(headers, len(headers), old(stream.expected_content_length), stream.expected_content_length))",
    "implies(stream is not None, stream.content_length == old(stream.content_length))",
]
R.contract(
    "validate_request_headers",
    params={"headers": "Headers", "stream": "Optional[H3Stream]"},
    raises={"MessageError": "not h3_request_ok(headers)"},
    modifies=["stream.expected_content_length"],
    ensures=_CL_ENSURES,
    prop=["C15"],
)
R.contract(
    "validate_response_headers",
    params={"headers": "Headers", "stream": "Optional[H3Stream]"},
    raises={"MessageError": "not h3_response_ok(headers)"},
    modifies=["stream.expected_content_length"],
    ensures=_CL_ENSURES,
    prop=["C15"],
)
R.contract(
    "validate_trailers",
    params={"headers": "Headers"},
    raises={"MessageError": "not h3_trailers_ok(headers)"},
    modifies=[],
    ensures=["h3_streams_untouched()"],
    on_raise={"MessageError": ["h3_streams_untouched()"]},
    prop=["C15"],
)
R.contract(
    "validate_push_promise_headers",
    params={"headers": "Headers"},
    raises={"MessageError": "not h3_promise_ok(headers)"},
    modifies=[],
    ensures=["h3_streams_untouched()"],
    on_raise={"MessageError": ["h3_streams_untouched()"]},
    prop=["C15"],
)

# ---------------------------------------------------------------------------------------------------------------- (5)
# Content-length bookkeeping and event emission.
R.field_types("H3Connection", _is_client="bool")

# qlog (logger-owned state only; rule: logging/qlog calls may be stubbed)
for _m in ("encode_http3_data_frame", "encode_http3_headers_frame", "encode_http3_push_promise_frame"):
    R.contract("QuicLoggerTrace." + _m, trusted=True, returns="Any", params={"headers": "Headers"}, note="qlog encoder: assumed total and side-effect free (not verified here)")
R.contract("QuicLoggerTrace.log_event", trusted=True, params={"data": "Any"}, note="qlog sink: appends to the logger's own list")

# QPACK decoding is outside (pylsqpack, C): all that is assumed is the TYPE of what comes back - a list of (bytes, bytes)
# pairs - or one of the two exceptions; H3Stream bookkeeping is not touched (the body only calls the decoder and
# QuicConnection.send_stream_data).  ASSUMED, not verified (listed in PROPS["C15"].assumptions).
R.contract(
    "H3Connection._decode_headers",
    params={"frame_data": "Optional[bytes]"},
    returns="Headers",
    raises={"QpackDecompressionFailed": None, "StreamBlocked": None},
    modifies=[],
    note="pylsqpack boundary",
)

# C15: "when a stream ends, a declared content-length equals the number of body bytes delivered" - otherwise MessageError.
R.contract(
    "H3Connection._check_content_length",
    raises={"MessageError": "stream.expected_content_length is not None and stream.content_length != stream.expected_content_length"},
    modifies=[],
    ensures=["h3_streams_untouched()"],
    on_raise={"MessageError": ["h3_streams_untouched()"]},
    prop=["C15"],
)

R.spec(
    """
def h3_kind_ok(initial, is_client, h):
    "the block is what this endpoint may receive at this point of the stream: response (client) / request (server), then trailers"
    return ite(initial, ite(is_client, h3_response_ok(h), h3_request_ok(h)), h3_trailers_ok(h))

def h3_cl_consistent(s):
    return s.expected_content_length is None or s.content_length == s.expected_content_length

def h3_cl_state_same(s):
    return same(s.expected_content_length, old(s.expected_content_length)) and s.content_length == old(s.content_length)
"""
)

# C15 at the point where events are produced.  A HeadersReceived / PushPromiseReceived event carries exactly the list
# that the validator for this kind of block accepted; DATA bytes are counted as they are delivered; an event that ends
# the stream is only produced when the declared content-length (if any) equals the count.  MessageError is only raised
# for a block that breaks a rule or for a content-length mismatch at the end of the stream ("never accused").
R.contract(
    "H3Connection._handle_request_or_push_frame",
    params={"frame_data": "Optional[bytes]"},
    returns="list[H3Event]",
    let={
        "is_data": "frame_type == FrameType.DATA",
        "is_headers": "frame_type == FrameType.HEADERS",
        "is_promise": "frame_type == FrameType.PUSH_PROMISE and stream.push_id is None",
        "initial": "stream.headers_recv_state == HeadersState.INITIAL",
        "nbytes": "0 if frame_data is None else len(frame_data)",
    },
    raises={"FrameUnexpected": None, "MessageError": None, "QpackDecompressionFailed": None, "StreamBlocked": None, "BufferReadError": None, "MemoryError": None},
    on_raise={
        "MessageError": [
            "is_data or is_headers or is_promise",
            "implies(is_data, stream_ended and not h3_cl_consistent(stream) and stream.content_length == old(stream.content_length) + nbytes and same(stream.expected_content_length, old(stream.expected_content_length)))",
            "implies(is_headers, not h3_kind_ok(initial, self._is_client, headers) or (stream_ended and not h3_cl_consistent(stream)))",
            "implies(is_promise, not h3_promise_ok(headers))",
        ]
    },
    modifies=["stream.content_length", "stream.expected_content_length", "stream.headers_recv_state"],
    ensures=[
        # DATA: the payload is counted, and delivered in at most one DataReceived event
        "implies(is_data, stream.content_length == old(stream.content_length) + nbytes and same(stream.expected_content_length, old(stream.expected_content_length)))",
        "implies(is_data and not (stream_ended or nbytes > 0), len(result) == 0)",
        "implies(is_data and (stream_ended or nbytes > 0), len(result) == 1 and is_instance(at(result, 0), 'DataReceived') and cast(at(result, 0), 'DataReceived').stream_ended == stream_ended and implies(frame_data is not None, same(cast(at(result, 0), 'DataReceived').data, some(frame_data))))",
        # end of stream (DATA or HEADERS carrying it): a declared content-length equals the bytes counted
        "implies((is_data or is_headers) and stream_ended, h3_cl_consistent(stream))",
        # HEADERS: exactly one HeadersReceived, with the validated list
        "implies(is_headers, len(result) == 1 and is_instance(at(result, 0), 'HeadersReceived') and same(cast(at(result, 0), 'HeadersReceived').headers, headers) and cast(at(result, 0), 'HeadersReceived').stream_ended == stream_ended)",
        "implies(is_headers, h3_kind_ok(initial, self._is_client, headers))",
        "implies(is_headers, stream.content_length == old(stream.content_length))",
        "implies(is_headers and initial, h3_declared_cl(headers, len(headers), old(stream.expected_content_length), stream.expected_content_length))",
        "implies(is_headers and not initial, same(stream.expected_content_length, old(stream.expected_content_length)))",
        "implies(is_headers, stream.headers_recv_state == (HeadersState.AFTER_HEADERS if initial else HeadersState.AFTER_TRAILERS))",
        # PUSH_PROMISE: exactly one PushPromiseReceived, with the validated list
        "implies(is_promise, len(result) == 1 and is_instance(at(result, 0), 'PushPromiseReceived') and same(cast(at(result, 0), 'PushPromiseReceived').headers, headers) and h3_promise_ok(headers) and h3_cl_state_same(stream))",
        # anything else: no event, no bookkeeping
        "implies(not is_data and not is_headers and not is_promise, len(result) == 0 and h3_cl_state_same(stream))",
        "implies(not is_headers, stream.headers_recv_state == old(stream.headers_recv_state))",
    ],
    prop=["C15"],
)
