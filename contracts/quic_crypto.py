# Sidecar contracts for src/aioquic/quic/crypto.py  (R is injected by the loader)        property C02
#
# Postconditions are transcribed from RFC 9001 §5 / RFC 9369 §3.3 (what an INDEPENDENT implementation computes):
#  * packet protection keys: HKDF-Expand-Label(secret, "quic key|iv|hp", "", len) - labels "quicv2 key|iv|hp" for
#    version 2 - key length 16 for AES-128-GCM, 32 for AES-256-GCM and ChaCha20-Poly1305, IV length 12;
#  * key update: next secret = HKDF-Expand-Label(secret, "quic ku" / "quicv2 ku", "", Hash.length);
#  * opening a packet: header protection is removed first, the truncated packet number is expanded to the candidate
#    closest to the next expected number, the AEAD is keyed by the CURRENT keys when the key-phase bit of a short
#    header equals the current phase and by the NEXT keys otherwise, its associated data is the whole unprotected
#    header and its input everything after that header;
#  * sealing: AEAD over the payload with the whole plain header as associated data, then header protection.
# The cryptographic primitives are uninterpreted functions (HKDF, AEAD seal, header-protection mask): what is proved
# is WHICH inputs reach them; their C implementations are verified by cwp (contracts/c_crypto.py) and compared with
# `cryptography` by the bounded stand-in ccrypto-boundary.

R.extern_module(
    "_crypto.py",
    """
class CryptoError(ValueError):
    pass

class AEAD:
    def __init__(self, cipher_name: bytes, key: bytes, iv: bytes) -> None: ...
    def decrypt(self, data: bytes, associated_data: bytes, packet_number: int) -> bytes: ...
    def encrypt(self, data: bytes, associated_data: bytes, packet_number: int) -> bytes: ...

class HeaderProtection:
    def __init__(self, cipher_name: bytes, key: bytes) -> None: ...
    def apply(self, plain_header: bytes, protected_payload: bytes) -> bytes: ...
    def remove(self, packet: bytes, encrypted_offset: int) -> Tuple[bytes, int]: ...
""",
)

R.extern_module(
    "cryptography_hashes.py",
    """
class HashAlgorithm:
    digest_size: int
""",
)
R.field_types("HashAlgorithm", digest_size="int")
R.field_types("AEAD", g_cipher="bytes", g_key="bytes", g_iv="bytes")
R.field_types("HeaderProtection", g_cipher="bytes", g_key="bytes")
R.field_types(
    "CryptoContext",
    aead="Optional[AEAD]", cipher_suite="Optional[CipherSuite]", hp="Optional[HeaderProtection]", key_phase="int",
    secret="Optional[bytes]", version="Optional[int]", _setup_cb="Callable", _teardown_cb="Callable",
)
R.field_types("CryptoPair", aead_tag_size="int", recv="CryptoContext", send="CryptoContext", _update_key_requested="bool")

# uninterpreted primitives
R.ufunc("hkdf_label", ["HashAlgorithm", "bytes", "bytes", "bytes", "int"], "bytes")          # HKDF-Expand-Label(hash, secret, label, context, length)
R.ufunc("hash_of_suite", ["int"], "HashAlgorithm")                                             # cipher_suite_hash
R.ufunc("aead_seal", ["bytes", "bytes", "bytes", "int", "bytes", "bytes"], "bytes")  # (cipher, key, iv, pn, aad, plaintext) -> ciphertext || tag
R.ufunc("hp_apply", ["bytes", "bytes", "bytes", "bytes"], "bytes")                   # (cipher, key, plain header, protected payload) -> packet

_T = dict(trusted=True)
R.contract("hkdf_expand_label", params={"algorithm": "HashAlgorithm", "secret": "bytes", "label": "bytes", "hash_value": "bytes", "length": "int"}, returns="bytes", requires=["secret is not None"],
           ensures=["same(result, hkdf_label(algorithm, secret, label, hash_value, length))", "len(result) == length"],
           note="tls.hkdf_expand_label over cryptography's HKDFExpand: uninterpreted", **_T)
R.contract("cipher_suite_hash", params={"cipher_suite": "int"}, returns="HashAlgorithm", requires=["cipher_suite is not None"], ensures=["result == hash_of_suite(cipher_suite)"], note="tls.cipher_suite_hash: table lookup, uninterpreted", **_T)

R.contract("AEAD.__init__", raises={"CryptoError": None}, modifies=["self.g_cipher", "self.g_key", "self.g_iv"],
           ensures=["same(self.g_cipher, cipher_name) and same(self.g_key, key) and same(self.g_iv, iv)"],
           note="restates cwp-proved AEAD_init (key and IV stored; CryptoError for unknown cipher / oversize key or IV)", **_T)
R.contract("AEAD.encrypt", returns="bytes", requires=["0 <= packet_number"], raises={"CryptoError": None},
           ensures=["same(result, aead_seal(self.g_cipher, self.g_key, self.g_iv, packet_number, associated_data, data))", "len(result) == len(data) + 16", "len(data) <= 1484"],
           note="restates cwp-proved AEAD_encrypt: nonce = IV xor pn, AAD = whole associated_data, tag appended, payloads above 1484 bytes rejected", **_T)
R.contract("AEAD.decrypt", returns="bytes", requires=["0 <= packet_number"], raises={"CryptoError": None},
           ensures=["same(data, aead_seal(self.g_cipher, self.g_key, self.g_iv, packet_number, associated_data, result))", "len(result) == len(data) - 16", "16 <= len(data) <= 1500"],
           note="restates cwp-proved AEAD_decrypt (all 16 tag bytes checked, AAD = whole associated_data) + the AEAD authenticity ASSUMPTION: opening succeeds only for the sealing of the result", **_T)
R.contract("HeaderProtection.__init__", raises={"CryptoError": None}, modifies=["self.g_cipher", "self.g_key"], ensures=["same(self.g_cipher, cipher_name) and same(self.g_key, key)"], **_T)
R.contract("HeaderProtection.apply", returns="bytes", raises={"CryptoError": None},
           ensures=["same(result, hp_apply(self.g_cipher, self.g_key, plain_header, protected_payload))", "len(result) == len(plain_header) + len(protected_payload)"], **_T)
R.contract(
    "HeaderProtection.remove", returns="tuple[bytes,int]", raises={"CryptoError": None},
    ensures=[
        "1 <= encrypted_offset and encrypted_offset + 20 <= len(packet)",
        "len(result[0]) == encrypted_offset + at(result[0], 0) % 4 + 1",
        "forall(lambda k: implies(1 <= k < encrypted_offset, at(result[0], k) == at(packet, k)))",
        "at(result[0], 0) // 32 == at(packet, 0) // 32",
        "0 <= result[1] < pow256(at(result[0], 0) % 4 + 1)",
    ],
    note="restates cwp-proved HeaderProtection_remove: only the low bits of byte 0 and the packet-number bytes change, header ends after the packet number, truncated number non-negative",
    **_T,
)
R.contract("CryptoContext._setup_cb", callback=True, trusted=True, note="key setup notification (qlog)")
R.contract("CryptoContext._teardown_cb", callback=True, trusted=True, note="key teardown notification (qlog)")
R.contract("is_long_header", inline=True)

R.spec(
    """
def pow256(n):
    return ite(n == 1, 256, ite(n == 2, 65536, ite(n == 3, 16777216, 4294967296)))

def half_win(n):
    return ite(n == 1, 128, ite(n == 2, 32768, ite(n == 3, 8388608, 2147483648)))

def v2(version):
    return version == 1798521807

def key_len(suite):
    return ite(suite == CipherSuite.AES_256_GCM_SHA384 or suite == CipherSuite.CHACHA20_POLY1305_SHA256, 32, 16)

def lbl(version, l1, l2):
    return ite(v2(version), l2, l1)
"""
)

# RFC 9001 §5.1 / RFC 9369 §3.3.2
R.contract(
    "derive_key_iv_hp",
    params={"cipher_suite": "CipherSuite", "secret": "bytes", "version": "int"},
    returns="tuple[bytes,bytes,bytes]",
    let={"alg": "hash_of_suite(cipher_suite)", "kl": "key_len(cipher_suite)"},
    ensures=[
        "same(result[0], hkdf_label(alg, secret, b'quicv2 key' if v2(version) else b'quic key', b'', kl))",
        "same(result[1], hkdf_label(alg, secret, b'quicv2 iv' if v2(version) else b'quic iv', b'', 12))",
        "same(result[2], hkdf_label(alg, secret, b'quicv2 hp' if v2(version) else b'quic hp', b'', kl))",
        "len(result[0]) == kl and len(result[1]) == 12 and len(result[2]) == kl",
    ],
    prop=["C02"],
)

R.spec(
    """
def ctx_keys_ok(c):
    return implies(c.aead is not None,
        c.hp is not None and c.cipher_suite is not None and c.secret is not None and c.version is not None
        and same(some(c.aead).g_key, hkdf_label(hash_of_suite(some(c.cipher_suite)), some(c.secret), b'quicv2 key' if v2(some(c.version)) else b'quic key', b'', key_len(some(c.cipher_suite))))
        and same(some(c.aead).g_iv, hkdf_label(hash_of_suite(some(c.cipher_suite)), some(c.secret), b'quicv2 iv' if v2(some(c.version)) else b'quic iv', b'', 12)))
"""
)

# keys installed by setup() are the RFC-derived keys of (cipher suite, secret, version); AEAD / HP cipher names follow the suite
R.contract(
    "CryptoContext.setup",
    params={"cipher_suite": "CipherSuite", "secret": "bytes", "version": "int"},
    requires=["cipher_suite == CipherSuite.AES_128_GCM_SHA256 or cipher_suite == CipherSuite.AES_256_GCM_SHA384 or cipher_suite == CipherSuite.CHACHA20_POLY1305_SHA256"],
    raises={"CryptoError": None},
    modifies=["self.aead", "self.cipher_suite", "self.hp", "self.secret", "self.version"],
    let={"alg": "hash_of_suite(cipher_suite)", "kl": "key_len(cipher_suite)"},
    ensures=[
        "self.aead is not None and self.hp is not None",
        "self.cipher_suite == cipher_suite and self.secret is not None and same(some(self.secret), secret) and self.version == version and self.key_phase == old(self.key_phase)",
        "same(some(self.aead).g_key, hkdf_label(alg, secret, b'quicv2 key' if v2(version) else b'quic key', b'', kl))",
        "same(some(self.aead).g_iv, hkdf_label(alg, secret, b'quicv2 iv' if v2(version) else b'quic iv', b'', 12))",
        "same(some(self.hp).g_key, hkdf_label(alg, secret, b'quicv2 hp' if v2(version) else b'quic hp', b'', kl))",
        "bytes_eq(some(self.aead).g_cipher, b'aes-128-gcm' if cipher_suite == CipherSuite.AES_128_GCM_SHA256 else (b'aes-256-gcm' if cipher_suite == CipherSuite.AES_256_GCM_SHA384 else b'chacha20-poly1305'))",
        "bytes_eq(some(self.hp).g_cipher, b'aes-128-ecb' if cipher_suite == CipherSuite.AES_128_GCM_SHA256 else (b'aes-256-ecb' if cipher_suite == CipherSuite.AES_256_GCM_SHA384 else b'chacha20'))",
    ],
    prop=["C02"],
)

R.contract("CryptoContext.__init__", params={"setup_cb": "Callable", "teardown_cb": "Callable"},
           ensures=["self.aead is None and self.hp is None and self.cipher_suite is None and self.secret is None and self.version is None and self.key_phase == key_phase"], prop=["C02"])
R.contract("CryptoContext.is_valid", inline=True)

# RFC 9001 §6 / RFC 9369 §3.3.2: the next generation's secret uses the "ku" label OF THE VERSION IN USE, the phase bit flips
R.contract(
    "next_key_phase",
    params={"self": "CryptoContext"},
    requires=["self.aead is not None and self.cipher_suite is not None and self.secret is not None and self.version is not None",
              "self.cipher_suite == CipherSuite.AES_128_GCM_SHA256 or self.cipher_suite == CipherSuite.AES_256_GCM_SHA384 or self.cipher_suite == CipherSuite.CHACHA20_POLY1305_SHA256",
              "self.key_phase == 0 or self.key_phase == 1"],
    returns="CryptoContext",
    raises={"CryptoError": None},
    let={"alg": "hash_of_suite(some(self.cipher_suite))"},
    ensures=[
        "result.key_phase == 1 - self.key_phase",
        "result.cipher_suite == self.cipher_suite and result.version == self.version and result.secret is not None and result.hp is not None",
        "same(some(result.secret), hkdf_label(alg, some(self.secret), b'quicv2 ku' if v2(some(self.version)) else b'quic ku', b'', alg.digest_size))",
        "result.aead is not None and same(some(result.aead).g_key, hkdf_label(alg, some(result.secret), b'quicv2 key' if v2(some(self.version)) else b'quic key', b'', key_len(some(self.cipher_suite))))",
        "same(some(result.aead).g_iv, hkdf_label(alg, some(result.secret), b'quicv2 iv' if v2(some(self.version)) else b'quic iv', b'', 12))",
        "self.key_phase == old(self.key_phase) and self.aead == old(self.aead) and self.secret == old(self.secret)",
    ],
    prop=["C02"],
)

# a key update installs the next generation completely: AEAD keys, phase bit AND the secret the following update starts from
R.contract(
    "apply_key_phase",
    params={"self": "CryptoContext", "crypto": "CryptoContext", "trigger": "str"},
    modifies=["self.aead", "self.key_phase", "self.secret"],
    ensures=["self.aead == crypto.aead", "self.key_phase == crypto.key_phase", "same(self.secret, crypto.secret)",
             "self.hp == old(self.hp) and self.cipher_suite == old(self.cipher_suite) and self.version == old(self.version)"],
    prop=["C02"],
)

# opening a packet (RFC 9001 §5.3-5.5, §6)
R.contract(
    "CryptoContext.decrypt_packet",
    requires=["0 <= expected_packet_number < 2 ** 62", "self.key_phase == 0 or self.key_phase == 1",
              "implies(self.aead is not None, self.hp is not None and self.cipher_suite is not None and self.secret is not None and self.version is not None)",
              "implies(self.aead is not None, self.cipher_suite == CipherSuite.AES_128_GCM_SHA256 or self.cipher_suite == CipherSuite.AES_256_GCM_SHA384 or self.cipher_suite == CipherSuite.CHACHA20_POLY1305_SHA256)"],
    returns="tuple[bytes,bytes,int,bool]",
    check_frame=True, check_frame_syntactic=True,  # writes NO field of any pre-existing object: a packet that fails to open changes nothing
    raises={"KeyUnavailableError": "self.aead is None", "CryptoError": None},
    let={"alg": "hash_of_suite(some(self.cipher_suite))"},
    ensures=[
        # header: only the protected fields differ from the wire bytes, it ends after the packet number
        "len(result[0]) == encrypted_offset + at(result[0], 0) % 4 + 1",
        "forall(lambda k: implies(1 <= k < encrypted_offset, at(result[0], k) == at(packet, k)))",
        # packet number: congruent to the truncated one and closest to the expected number (RFC 9000 A.3)
        "result[2] >= 0",
        "result[2] <= expected_packet_number + half_win(at(result[0], 0) % 4 + 1) or result[2] < pow256(at(result[0], 0) % 4 + 1)",
        "result[2] > expected_packet_number - half_win(at(result[0], 0) % 4 + 1) or result[2] + pow256(at(result[0], 0) % 4 + 1) >= 2 ** 62",
        # key phase: a short-header packet whose phase bit differs from the current phase is opened with the NEXT keys
        "result[3] == (at(result[0], 0) < 128 and (at(result[0], 0) // 4) % 2 != self.key_phase)",
        # authenticity: the bytes after the header are the AEAD sealing of the returned payload under (keys of the phase,
        # expanded packet number, associated data = the whole unprotected header)
        "implies(not result[3], same(packet[len(result[0]):], aead_seal(some(self.aead).g_cipher, some(self.aead).g_key, some(self.aead).g_iv, result[2], result[0], result[1])))",
        "implies(result[3], exists(lambda nk, ni, nc: same(packet[len(result[0]):], aead_seal(nc, nk, ni, result[2], result[0], result[1])) and same(nk, hkdf_label(alg, hkdf_label(alg, some(self.secret), b'quicv2 ku' if v2(some(self.version)) else b'quic ku', b'', alg.digest_size), b'quicv2 key' if v2(some(self.version)) else b'quic key', b'', key_len(some(self.cipher_suite)))), types={'nk': 'bytes', 'ni': 'bytes', 'nc': 'bytes'}))",
        # opening never changes the installed keys
        "self.aead == old(self.aead) and self.key_phase == old(self.key_phase) and self.secret == old(self.secret)",
    ],
    prop=["C02"],
)

# sealing (RFC 9001 §5.3, §5.4)
R.contract(
    "CryptoContext.encrypt_packet",
    requires=["0 <= packet_number"],
    returns="bytes",
    raises={"AssertionError": "self.aead is None", "CryptoError": None, "AttributeError": "self.aead is not None and self.hp is None"},
    ensures=[
        "same(result, hp_apply(some(self.hp).g_cipher, some(self.hp).g_key, plain_header, aead_seal(some(self.aead).g_cipher, some(self.aead).g_key, some(self.aead).g_iv, packet_number, plain_header, plain_payload)))",
        "len(result) == len(plain_header) + len(plain_payload) + 16",
    ],
    prop=["C02"],
)

# ---- CryptoPair: initial secrets (RFC 9001 §5.2, RFC 9369 §3.3.1) and key updates
R.ufunc("hkdf_ext", ["HashAlgorithm", "bytes", "bytes"], "bytes")  # HKDF-Extract(hash, salt, key material)
R.contract("hkdf_extract", params={"algorithm": "HashAlgorithm", "salt": "bytes", "key_material": "bytes"}, returns="bytes",
           ensures=["same(result, hkdf_ext(algorithm, salt, key_material))"], note="tls.hkdf_extract over cryptography's HMAC: uninterpreted", trusted=True)

R.contract(
    "CryptoPair.setup_initial",
    params={"cid": "bytes", "is_client": "bool", "version": "int"},
    raises={"CryptoError": None},
    modifies=["CryptoContext.aead[*]", "CryptoContext.cipher_suite[*]", "CryptoContext.hp[*]", "CryptoContext.secret[*]", "CryptoContext.version[*]"],
    assume_pre=["self.recv is not self.send"],  # established by CryptoPair.__init__ (two fresh contexts)
    let={
        "alg": "hash_of_suite(CipherSuite.AES_128_GCM_SHA256)",
        "salt": "b'\\x0d\\xed\\xe3\\xde\\xf7\\x00\\xa6\\xdb\\x81\\x93\\x81\\xbe\\x6e\\x26\\x9d\\xcb\\xf9\\xbd\\x2e\\xd9' if v2(version) else b'\\x38\\x76\\x2c\\xf7\\xf5\\x59\\x34\\xb3\\x4d\\x17\\x9a\\xe6\\xa4\\xc8\\x0c\\xad\\xcc\\xbb\\x7f\\x0a'",
    },
    ensures=[
        # both directions use AES-128-GCM / SHA-256 keyed from the client's destination connection ID and the version's salt
        "self.send.cipher_suite == CipherSuite.AES_128_GCM_SHA256 and self.recv.cipher_suite == CipherSuite.AES_128_GCM_SHA256",
        "self.send.version == version and self.recv.version == version",
        "same(some(self.send.secret), hkdf_label(alg, hkdf_ext(alg, salt, cid), b'client in' if is_client else b'server in', b'', alg.digest_size))",
        "same(some(self.recv.secret), hkdf_label(alg, hkdf_ext(alg, salt, cid), b'server in' if is_client else b'client in', b'', alg.digest_size))",
        "self.send.aead is not None and self.recv.aead is not None",
    ],
    prop=["C02"],
)

R.contract(
    "CryptoPair.decrypt_packet",
    requires=["0 <= expected_packet_number < 2 ** 62", "self.recv.key_phase == 0 or self.recv.key_phase == 1", "self.send.key_phase == 0 or self.send.key_phase == 1",
              "implies(self.recv.aead is not None, self.recv.hp is not None and self.recv.cipher_suite is not None and self.recv.secret is not None and self.recv.version is not None)",
              "implies(self.recv.aead is not None, self.recv.cipher_suite == CipherSuite.AES_128_GCM_SHA256 or self.recv.cipher_suite == CipherSuite.AES_256_GCM_SHA384 or self.recv.cipher_suite == CipherSuite.CHACHA20_POLY1305_SHA256)",
              # keys are installed per direction pair (CryptoPair.setup_initial / _update_traffic_key): when the receive keys of a
              # 1-RTT pair exist and a key update is possible, the send keys exist as well
              "implies(self.recv.aead is not None, self.send.aead is not None and self.send.cipher_suite is not None and self.send.secret is not None and self.send.version is not None)",
              "implies(self.recv.aead is not None, self.send.cipher_suite == CipherSuite.AES_128_GCM_SHA256 or self.send.cipher_suite == CipherSuite.AES_256_GCM_SHA384 or self.send.cipher_suite == CipherSuite.CHACHA20_POLY1305_SHA256)"],
    assume_pre=["self.recv is not self.send"],
    returns="tuple[bytes,bytes,int]",
    raises={"KeyUnavailableError": "self.recv.aead is None", "CryptoError": None},
    modifies=["CryptoContext.aead[*]", "CryptoContext.key_phase[*]", "CryptoContext.secret[*]", "self._update_key_requested"],
    on_raise={
        # (that a packet which fails to OPEN changes nothing is the checked frame of CryptoContext.decrypt_packet: it writes no
        # field at all; CryptoError can also come from building the next key generation after an authentic packet)
        "KeyUnavailableError": ["self.recv.key_phase == old(self.recv.key_phase) and self.send.aead == old(self.send.aead)"],
    },
    ensures=[
        "len(result[0]) == encrypted_offset + at(result[0], 0) % 4 + 1",
        "result[2] >= 0",
        "result[2] <= expected_packet_number + half_win(at(result[0], 0) % 4 + 1) or result[2] < pow256(at(result[0], 0) % 4 + 1)",
        "result[2] > expected_packet_number - half_win(at(result[0], 0) % 4 + 1) or result[2] + pow256(at(result[0], 0) % 4 + 1) >= 2 ** 62",
        # the key phase moves exactly when an authentic short-header packet carried the other phase bit
        "self.recv.key_phase == (1 - old(self.recv.key_phase) if (at(result[0], 0) < 128 and (at(result[0], 0) // 4) % 2 != old(self.recv.key_phase)) else old(self.recv.key_phase))",
    ],
    prop=["C02"],
)
R.contract("CryptoPair._update_key", params={"trigger": "str"},
           requires=["self.recv.aead is not None and self.recv.cipher_suite is not None and self.recv.secret is not None and self.recv.version is not None",
                     "self.send.aead is not None and self.send.cipher_suite is not None and self.send.secret is not None and self.send.version is not None",
                     "self.recv.cipher_suite == CipherSuite.AES_128_GCM_SHA256 or self.recv.cipher_suite == CipherSuite.AES_256_GCM_SHA384 or self.recv.cipher_suite == CipherSuite.CHACHA20_POLY1305_SHA256",
                     "self.send.cipher_suite == CipherSuite.AES_128_GCM_SHA256 or self.send.cipher_suite == CipherSuite.AES_256_GCM_SHA384 or self.send.cipher_suite == CipherSuite.CHACHA20_POLY1305_SHA256",
                     "(self.recv.key_phase == 0 or self.recv.key_phase == 1) and (self.send.key_phase == 0 or self.send.key_phase == 1)"],
           assume_pre=["self.recv is not self.send"],
           raises={"CryptoError": None},
           modifies=["CryptoContext.aead[*]", "CryptoContext.key_phase[*]", "CryptoContext.secret[*]", "self._update_key_requested"],
           ensures=[
               "self.recv.key_phase == 1 - old(self.recv.key_phase) and self.send.key_phase == 1 - old(self.send.key_phase)",
               "not self._update_key_requested",
               "same(some(self.recv.secret), hkdf_label(hash_of_suite(some(self.recv.cipher_suite)), some(old(self.recv.secret)), b'quicv2 ku' if v2(some(self.recv.version)) else b'quic ku', b'', hash_of_suite(some(self.recv.cipher_suite)).digest_size))",
               "same(some(self.send.secret), hkdf_label(hash_of_suite(some(self.send.cipher_suite)), some(old(self.send.secret)), b'quicv2 ku' if v2(some(self.send.version)) else b'quic ku', b'', hash_of_suite(some(self.send.cipher_suite)).digest_size))",
           ],
           prop=["C02"])

R.contract("CryptoContext.teardown", modifies=["self.aead", "self.cipher_suite", "self.hp", "self.secret"],
           ensures=["self.aead is None and self.hp is None and self.cipher_suite is None and self.secret is None", "self.key_phase == old(self.key_phase)"], prop=["C02"])
R.contract("CryptoPair.teardown", assume_pre=["self.recv is not self.send"], modifies=["self.recv.aead", "self.recv.cipher_suite", "self.recv.hp", "self.recv.secret", "self.send.aead", "self.send.cipher_suite", "self.send.hp", "self.send.secret"],
           ensures=["self.recv.aead is None and self.send.aead is None"], prop=["C02"])
