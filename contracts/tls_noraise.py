# Sidecar contracts for property C05, TLS part: "tls.Context.handle_message - the one call through which peer-controlled
# TLS handshake bytes enter aioquic - raises only subclasses of tls.Alert".                    (R is injected by the loader)
#
# Loaded after tls_auth.py and before tls_state.py (alphabetical order).  This file holds
#   1. EXCEPTION-EFFECT contracts of every TLS message parser reachable from handle_message (`raises` is the COMPLETE set
#      of exception types that may leave the function; every other explicit / implicit raise site is a `no-escape`
#      obligation): only BufferReadError (converted into AlertDecodeError by handle_message) and tls.Alert subclasses;
#   2. TRUSTED stubs of the `cryptography` calls made by the handlers, with the raise sets of the library documentation,
#      checked natively by tools/repro/tls_crypto_stub_probe.py;
#   3. the helpers between the two (decode_public_key, signature_algorithm_params).
# The handler contracts themselves (state machine C11, authentication C03) live in tls_state.py; their `raises` sets were
# "may raise anything" and are now exact.
#
# How the parsers are verified: pull_block is a generator context manager (inlined, contextlib semantics); pull_opaque is
# called by its C17 contract (exact BufferReadError condition); pull_list is EXECUTED at its call sites (inline) together
# with the item parser handed to it - a nested function (closure, `nonlocal` included), a functools.partial of a helper
# under contract, or a bound Buffer method - so every raise site of every item parser is explored in the parser that
# uses it.  The loop of pull_list gets its specification from the parser's contract (inline_loops): no invariant is
# needed for an exception-effect claim, the `modifies` list names what the item parser writes ("top:" = named in the
# parser's own frame: the message object under construction).

BRE, ADE, AIP = "BufferReadError", "AlertDecodeError", "AlertIllegalParameter"
_P = dict(prop=["C05"])

R.contracts["pull_list"].inline = True  # call sites execute the body; the C17 contract still verifies the function itself


def _type_byte(n):
    # pull_handshake_type ASSERTS the message type: tls.Context dispatches on that byte before it calls a parser (proved
    # at the call sites: handle_message -> _handle_reassembled_message -> handler -> parser), so it is a precondition
    return "implies(buf.g_pos < buf.g_cap, at(buf.g_mem, buf.g_pos) == %d)" % n


def _pl(*locs):
    return {"pull_list": {0: dict(invariant=[], modifies=["buf.g_pos"] + ["top:" + l for l in locs])}}


_KEEP = ["buf_mem_same(buf)"]
# every message parser consumes EXACTLY the message: type byte, uint24 length, and that many bytes (the outermost
# pull_block refuses anything else) - what makes the dispatcher's final `assert input_buf.eof()` unreachable
_WHOLE = ["buf.g_pos == old(buf.g_pos) + 4 + be3(buf.g_mem, old(buf.g_pos) + 1)"]

# ------------------------------------------------------------------------------------------------ item parsers
R.contract("pull_key_share", returns="tuple[int,bytes]", raises={BRE: None}, modifies=["buf.g_pos"], ensures=_KEEP + ["0 <= result[0] < 65536"], **_P)
R.contract("pull_psk_identity", returns="tuple[bytes,int]", raises={BRE: None}, modifies=["buf.g_pos"], ensures=_KEEP, **_P)
R.contract("pull_psk_binder", returns="bytes", raises={BRE: None}, modifies=["buf.g_pos"], ensures=_KEEP, **_P)
# a protocol name that is not ASCII is skipped (SkipItem is caught by pull_list), never an error
R.contract("pull_alpn_protocol", returns="str", raises={BRE: None, "SkipItem": None}, modifies=["buf.g_pos"], ensures=_KEEP, **_P)
# RFC 6066 3: a name that is not ASCII / of an unknown type is refused with an alert (not UnicodeDecodeError)
R.contract("pull_server_name", returns="str", raises={BRE: None, AIP: None, ADE: None}, modifies=["buf.g_pos"], ensures=_KEEP, **_P)
R.field_types("OfferedPsks", identities="list[tuple[bytes,int]]", binders="list[bytes]")
R.contract("pull_offered_psks", returns="OfferedPsks", raises={BRE: None, ADE: None}, modifies=["buf.g_pos"], ensures=_KEEP,
           inline_loops=_pl(), **_P)

# ------------------------------------------------------------------------------------------------ message parsers
R.field_types("ServerHello", random="bytes", legacy_session_id="bytes", cipher_suite="int", compression_method="int",
              key_share="Optional[tuple[int,bytes]]", pre_shared_key="Optional[int]", supported_version="Optional[int]", other_extensions="list[tuple[int,bytes]]")
R.contract(
    "pull_server_hello",
    returns="ServerHello",
    requires=[_type_byte(2)],
    raises={BRE: None, ADE: None},
    modifies=["buf.g_pos"],
    inline_loops=_pl("hello.supported_version", "hello.key_share", "hello.pre_shared_key", "hello.other_extensions"),
    ensures=_KEEP + _WHOLE,
    check_frame=True,
    **_P,
)

R.field_types("ClientHello", key_share="Optional[list[tuple[int,bytes]]]", pre_shared_key="Optional[OfferedPsks]")
R.contract(
    "pull_client_hello",
    returns="ClientHello",
    requires=[_type_byte(1)],
    # AlertIllegalParameter: pre_shared_key not last (RFC 8446 4.2.11), server_name of an unknown type / not ASCII
    raises={BRE: None, ADE: None, AIP: None},
    modifies=["buf.g_pos"],
    inline_loops=_pl("hello.key_share", "hello.supported_versions", "hello.signature_algorithms", "hello.supported_groups", "hello.psk_key_exchange_modes",
                     "hello.server_name", "hello.alpn_protocols", "hello.early_data", "hello.pre_shared_key", "hello.other_extensions"),
    ensures=_KEEP + _WHOLE,
    check_frame=True,
    **_P,
)

R.field_types("NewSessionTicket", ticket_lifetime="int", ticket_age_add="int", ticket_nonce="bytes", ticket="bytes", max_early_data_size="Optional[int]", other_extensions="list[tuple[int,bytes]]")
R.contract(
    "pull_new_session_ticket",
    returns="NewSessionTicket",
    requires=[_type_byte(4)],
    raises={BRE: None, ADE: None},
    modifies=["buf.g_pos"],
    inline_loops=_pl("new_session_ticket.max_early_data_size", "new_session_ticket.other_extensions"),
    ensures=_KEEP + _WHOLE + ["0 <= result.ticket_lifetime < 4294967296", "len(result.ticket_nonce) <= 255"],
    check_frame=True,
    **_P,
)

# EncryptedExtensions: an ALPN extension with an EMPTY protocol list (or only non-ASCII names) is refused with a decode
# error (RFC 7301 3.1: the list "MUST contain exactly one" name), never IndexError
R.contract(
    "pull_encrypted_extensions",
    returns="EncryptedExtensions",
    requires=[_type_byte(8)],
    raises={BRE: None, ADE: None},
    modifies=["buf.g_pos"],
    inline_loops=_pl("extensions.alpn_protocol", "extensions.early_data", "extensions.other_extensions"),
    ensures=_KEEP + _WHOLE,
    check_frame=True,
    **_P,
)

R.contract(
    "pull_certificate",
    returns="Certificate",
    requires=[_type_byte(11)],
    raises={BRE: None, ADE: None},
    modifies=["buf.g_pos"],
    inline_loops=_pl(),
    ensures=_KEEP + _WHOLE,
    check_frame=True,
    **_P,
)

R.contract(
    "pull_certificate_request",
    returns="CertificateRequest",
    requires=[_type_byte(13)],
    raises={BRE: None, ADE: None},
    modifies=["buf.g_pos"],
    inline_loops=_pl("certificate_request.signature_algorithms", "certificate_request.other_extensions"),
    ensures=_KEEP + _WHOLE,
    check_frame=True,
    **_P,
)

# the C17 variants (pull_certificate_verify#c17, pull_finished#c17: contracts/quic_codecs.py) state exactly WHEN these two
# fail and what they return; the plain contracts are what the handlers' call sites use
R.contract("pull_certificate_verify", returns="CertificateVerify", requires=[_type_byte(15)], raises={BRE: None, ADE: None}, modifies=["buf.g_pos"],
           ensures=_KEEP + _WHOLE + ["0 <= result.algorithm < 65536"], check_frame=True, **_P)
R.contract("pull_finished", returns="Finished", requires=[_type_byte(20)], raises={BRE: None}, modifies=["buf.g_pos"], ensures=_KEEP + _WHOLE, check_frame=True, **_P)

# ------------------------------------------------------------------------------------------------ server ClientHello handler: key exchange
# Context._server_handle_hello (228 lines) is not verified as a whole (its contract is assumed at the dispatcher).  BLOCK
# contract on its key-exchange statements - `shared_key = None`, the loop over the client's key shares, the
# `if shared_key is None: raise` that follows - extracted from the real function on every run.  CLAIM (C05): only alerts.
# REFUTED on the unchanged tree (known finding): a ClientHello WITHOUT the key_share extension leaves peer_hello.key_share
# None and `for key_share in None` is a TypeError - before any authentication; natively reproduced
# (tools/repro/c05_tls_hello_without_key_share.py), repaired by tools/fixes/c05_tls_nonalert2.patch.
# NOT in PROPS["C05"]: the block stays UNDECIDED as a whole - its elliptic-curve branch calls `GROUP_TO_CURVE[key_share[0]]()`,
# a module-level table of external curve CLASSES, which the engine cannot evaluate ("non-symbolic value in value position").
# Developer run:  python3-vt -m engine.pyvc.cli "tls.py::Context._server_handle_hello@key_exchange"  shows the refuted
# obligation no-escape.TypeError@1 on the unchanged tree and no refuted obligation with the repair applied.
R.module_names.update({"x25519", "x448", "ec"})
_GEN = dict(trusted=True, note="third-party (cryptography) key generation: total")
R.contract("x25519.X25519PrivateKey.generate", returns="X25519PrivateKey", allocates=True, **_GEN)
R.contract("x448.X448PrivateKey.generate", returns="X448PrivateKey", allocates=True, **_GEN)
R.contract("ec.generate_private_key", returns="EcPrivateKey", allocates=True, **_GEN)
R.contract("X25519PrivateKey.public_key", returns="Any", **_GEN)
R.contract("X448PrivateKey.public_key", returns="Any", **_GEN)
R.contract(
    "Context._server_handle_hello@key_exchange",
    region={"anchor": "shared_key: Optional[bytes] = None", "span": 3},
    params={"peer_hello": "ClientHello"},
    use_invariant=False,
    raises={"AlertIllegalParameter": None, "AlertHandshakeFailure": None},
    modifies=["self._x25519_private_key", "self._x448_private_key", "self._ec_private_keys"],
    loops={0: dict(invariant=["0 <= _i0"], modifies=["self._x25519_private_key", "self._x448_private_key", "self._ec_private_keys"])},
)


# ------------------------------------------------------------------------------------------------ server: the pre_shared_key block (C05)
# Block contract on the PSK part of _server_handle_hello (located by the statement that records a resumed session, widened to
# its enclosing `if`): for every ClientHello - whatever its pre_shared_key extension holds (no identity, several, binders that
# do not match the identities) - the block raises only alerts (and what the application's callbacks declare): in particular
# indexing identities[0] / binders is guarded.  The rest of _server_handle_hello is not under contract.
# the hash algorithm object of a key schedule (cryptography.hazmat.primitives.hashes.SHA256 / SHA384): only digest_size is read
R.extern_module(
    "cryptography_hash_model.py",
    """
class HashAlgorithmModel:
    digest_size: int
""",
)
R.field_types("HashAlgorithmModel", digest_size="int")
R.invariant("HashAlgorithmModel", ["self.digest_size == 32 or self.digest_size == 48"])
R.after_load(lambda reg: reg.field_types("KeySchedule", algorithm="HashAlgorithmModel"))  # contracts/tls_state.py (loaded later) declares it as Any
R.contract(
    "Context._server_handle_hello@psk",
    region={"anchor": "writes:_session_resumed"},
    params={"peer_hello": "ClientHello", "input_buf": "Buffer", "cipher_suite": "CipherSuite", "psk_key_exchange_mode": "Optional[PskKeyExchangeMode]", "pre_shared_key": "Optional[int]"},
    use_invariant=False,
    # the cipher suite was negotiated from the server's own list a few statements earlier (block @negotiate): one of the
    # three suites the key schedule knows
    assume_pre=["cipher_suite == CipherSuite.AES_128_GCM_SHA256 or cipher_suite == CipherSuite.AES_256_GCM_SHA384 or cipher_suite == CipherSuite.CHACHA20_POLY1305_SHA256"],
    # BufferReadError (a binder whose length does not fit the message: data_slice out of range) is converted into
    # AlertDecodeError by Context.handle_message, like every BufferReadError of the handlers
    raises={"AlertHandshakeFailure": None, "CallbackError": None, "MemoryError": None, "BufferReadError": None},
    modifies=["self.key_schedule", "self._session_resumed", "self.early_data_accepted", "self.g_key_log", "KeySchedule.g_hash[*]", "KeySchedule.generation[*]", "KeySchedule.secret[*]"],
)
