# Contracts for src/aioquic/_crypto.c (checked by engine/cwp on the clang AST of the real file).
#
# C04: for EVERY argument PyArg_ParseTuple can deliver, every access stays inside the argument objects, the
# object's own scratch arrays (buffer[1500], key[32], iv[12], nonce[12], mask[31], zero[5]) and what the
# OpenSSL manual lets EVP_* touch; unusable input is rejected with CryptoError; the object stays usable
# (context pointers unchanged).  C02 (C part): nonce = IV xor packet number (big-endian, right-aligned), the
# whole `associated` argument is the AEAD's associated data, the 16-byte tag is the last 16 bytes of the
# input, header protection masks exactly the low bits of byte 0 and the pn_length packet-number bytes.
import z3

from engine.cwp.chelp import B, FALSE, TRUE, be, kind_of, mv, res_bytes_equal
from engine.cwp.cexec import MObj, PV, SObj, bv

F = "_crypto.c::"
TAG = 16


def _ctx(m, name, keymax=32, ivlen=12):
    o = MObj(name, 0, opaque=True)
    m.ctx.assume(o.addr != 0)
    o.keylen = z3.BitVec("keylen_" + name, 64)
    m.ctx.assume(z3.And(z3.UGT(o.keylen, 0), z3.ULE(o.keylen, bv(keymax))))
    o.ivlen = bv(ivlen)
    m.objs.append(o)
    return o


def _arrays(m, so):
    for f, ct in so.types.items():
        if ct.kind == "array":
            so.fields[f] = m.new_obj(f, ct.size())


# ------------------------------------------------------------------ AEAD
def _setup_aead(m):
    so = SObj("AEADObject", m.cf.records["AEADObject"])
    _arrays(m, so)
    # Inv(AEAD) after a successful __init__: both contexts exist, key length <= 32, IV length 12
    so.fields["decrypt_ctx"] = PV(_ctx(m, "dctx"), bv(0))
    so.fields["encrypt_ctx"] = PV(_ctx(m, "ectx"), bv(0))
    # ASSUMPTION A4 (listed in evidence): AEAD objects are created only for GCM / ChaCha20-Poly1305
    # (stream-mode, block size 1) - the only names in crypto.py CIPHER_SUITES.
    m.ghost["evp_block_size"] = 1
    m.assumptions.add("A4: AEAD objects use stream-mode AEAD ciphers (EVP block size 1: aes-128-gcm, aes-256-gcm, chacha20-poly1305 - the names in quic/crypto.py CIPHER_SUITES); HeaderProtection ciphers have block size <= 16")
    st = {"so": so, "iv0": so.fields["iv"].mem, "key0": so.fields["key"].mem, "d": so.fields["decrypt_ctx"].obj, "e": so.fields["encrypt_ctx"].obj}
    st["args"] = [PV(so, bv(0)), m.opaque_ptr("args"), m.opaque_ptr("kwargs")]
    return st


def _aead_inv(m, st):
    so = st["so"]
    return [
        ("inv.ctx", B(so.fields["decrypt_ctx"].obj is st["d"] and so.fields["encrypt_ctx"].obj is st["e"]), "cipher contexts unchanged"),
        ("inv.key-iv", z3.And(*[z3.Select(so.fields["iv"].mem, bv(i)) == z3.Select(st["iv0"], bv(i)) for i in range(12)] + [z3.Select(so.fields["key"].mem, bv(i)) == z3.Select(st["key0"], bv(i)) for i in range(32)]), "key and IV unchanged"),
    ]


def _nonce_goal(m, st, pn):
    so = st["so"]
    nm, iv = so.fields["nonce"].mem, st["iv0"]
    cl = []
    for i in range(12):
        x = z3.Select(iv, bv(i))
        if i >= 4:
            x = x ^ z3.Extract(8 * (11 - i) + 7, 8 * (11 - i), pn)
        cl.append(z3.Select(nm, bv(i)) == x)
    return z3.And(*cl)


def _calls(m, kind, ctxobj=None):
    return [r for k, r in m.ghost.get("evp_calls", []) if k == kind and (ctxobj is None or r["ctx"] is ctxobj)]


def _post_aead(direction):
    def post(m, st, out):
        goals = _aead_inv(m, st)
        k = kind_of(out)
        goals.append(("null-iff-error", B((k == "null") == (m.err is not None)), "returns NULL exactly when a Python exception is set"))
        if m.err == "TypeError" or "parsed" not in m.ghost:
            return goals
        (_, dobj, dlen), (_, aobj, alen), (_, pn, _) = m.ghost["parsed"]
        ctx = st["d"] if direction == "decrypt" else st["e"]
        limit_bad = z3.Or(dlen < TAG, dlen > 1500) if direction == "decrypt" else (dlen > 1500 - TAG)
        if k == "null":
            goals.append(("error-kind", B(m.err in ("CryptoError", "MemoryError")), "failure is reported as CryptoError (or MemoryError for the result object)"))
        else:
            goals.append(("length-rejected", z3.Not(limit_bad), "a payload that cannot fit the 1500-byte scratch buffer (with its 16-byte tag) is rejected"))
            goals.append(("nonce", _nonce_goal(m, st, pn), "nonce == IV xor packet number (64-bit big-endian, right-aligned)"))
            inits = _calls(m, "init", ctx)
            goals.append(("init.key-nonce", B(len(inits) == 1 and inits[0].get("key", (None,))[0] is st["so"].fields["key"] and inits[0].get("iv", (None,))[0] is st["so"].fields["nonce"]), "the cipher is (re)initialised with the object's key and the nonce"))
            ups = _calls(m, "update", ctx)
            ok = len(ups) == 2 and ups[0]["out"].obj is None and ups[0]["in"].obj is aobj and ups[1]["in"].obj is dobj and ups[1]["out"].obj is st["so"].fields["buffer"]
            goals.append(("aad.whole-header", z3.And(B(ok), *( [ups[0]["in"].off == 0, z3.Implies(alen < (1 << 31), ups[0]["inl"] == alen)] if ok else [])), "the associated data passed to the AEAD is the whole `associated` argument"))
            want = dlen - TAG if direction == "decrypt" else dlen
            goals.append(("payload.whole", z3.And(B(ok), *([ups[1]["in"].off == 0, ups[1]["out"].off == 0, ups[1]["inl"] == want] if ok else [])), "the whole payload (without the tag when opening) is processed into the scratch buffer"))
            ctrls = _calls(m, "ctrl", ctx)
            if direction == "decrypt":
                okc = len(ctrls) == 1 and ctrls[0]["code"] == 0x11 and ctrls[0]["ptr"].obj is dobj
                goals.append(("tag.checked", z3.And(B(okc), *([ctrls[0]["arg"] == TAG, ctrls[0]["ptr"].off == dlen - TAG] if okc else [])), "the expected tag is the last 16 bytes of the input, all 16 of them"))
                if hasattr(k, "kind") and k.kind == "bytes":
                    goals.append(("result", z3.And(B(k.obj is st["so"].fields["buffer"]), k.off == 0, k.n == z3.SignExt(32, ups[1]["outl"]) if ok else FALSE), "result is the decrypted output"))
            else:
                okc = len(ctrls) == 1 and ctrls[0]["code"] == 0x10 and ctrls[0]["ptr"].obj is st["so"].fields["buffer"]
                goals.append(("tag.appended", z3.And(B(okc), *([ctrls[0]["arg"] == TAG, ctrls[0]["ptr"].off == z3.SignExt(32, ups[1]["outl"])] if okc and ok else [])), "the 16-byte tag is written right after the ciphertext"))
                if hasattr(k, "kind") and k.kind == "bytes":
                    goals.append(("result", z3.And(B(k.obj is st["so"].fields["buffer"]), k.off == 0, k.n == z3.SignExt(32, ups[1]["outl"]) + TAG if ok else FALSE), "result is ciphertext followed by the tag"))
        return goals

    return post


R.c_contract(F + "AEAD_decrypt", setup=_setup_aead, post=_post_aead("decrypt"), prop=["C04", "C02"])
R.c_contract(F + "AEAD_encrypt", setup=_setup_aead, post=_post_aead("encrypt"), prop=["C04", "C02"])


def _setup_aead_init(m):
    so = SObj("AEADObject", m.cf.records["AEADObject"])
    _arrays(m, so)
    so.fields["decrypt_ctx"] = PV(None, bv(0))
    so.fields["encrypt_ctx"] = PV(None, bv(0))
    m.ghost["evp_block_size"] = 1
    st = {"so": so}
    st["args"] = [PV(so, bv(0)), m.opaque_ptr("args"), m.opaque_ptr("kwargs")]
    return st


def _post_aead_init(m, st, out):
    rv = z3.simplify(out.t)
    ok = z3.is_bv_value(rv) and rv.as_long() == 0
    goals = [("status-iff-error", B(ok == (m.err is not None)) == FALSE if False else B(ok == (m.err is None)), "returns 0 exactly when no Python exception is set")]
    if ok:
        so = st["so"]
        d, e = so.fields["decrypt_ctx"], so.fields["encrypt_ctx"]
        goals.append(("inv.ctx", B(d.obj is not None and e.obj is not None and d.obj is not e.obj), "both cipher contexts exist"))
        (_, _, _), (_, kobj, klen), (_, iobj, ilen) = m.ghost["parsed"]
        goals.append(("key-len", z3.And(klen <= 32, ilen <= 12), "key and IV fit the object's arrays"))
        goals.append(("key-copied", z3.And(*[z3.Implies(z3.UGT(klen, i), z3.Select(so.fields["key"].mem, bv(i)) == z3.Select(kobj.mem, bv(i))) for i in range(32)]), "key bytes stored"))
        goals.append(("iv-copied", z3.And(*[z3.Implies(z3.UGT(ilen, i), z3.Select(so.fields["iv"].mem, bv(i)) == z3.Select(iobj.mem, bv(i))) for i in range(12)]), "IV bytes stored"))
    return goals


R.c_contract(F + "AEAD_init", setup=_setup_aead_init, post=_post_aead_init, prop=["C04"])


# ------------------------------------------------------------------ HeaderProtection
def _setup_hp(m):
    so = SObj("HeaderProtectionObject", m.cf.records["HeaderProtectionObject"])
    _arrays(m, so)
    so.fields["ctx"] = PV(_ctx(m, "hpctx", keymax=32, ivlen=16), bv(0))
    chacha = z3.BitVec("is_chacha20", 32)
    m.ctx.assume(z3.Or(chacha == 0, chacha == 1))
    from engine.cwp.cexec import CT, IV

    so.fields["is_chacha20"] = IV(chacha, CT("int", 32, True))
    m.ghost["evp_block_size"] = 16
    m.assumptions.add("A4: AEAD objects use stream-mode AEAD ciphers (EVP block size 1: aes-128-gcm, aes-256-gcm, chacha20-poly1305 - the names in quic/crypto.py CIPHER_SUITES); HeaderProtection ciphers have block size <= 16")
    # Inv(HP): zero[] is all zero (set by __init__)
    for i in range(5):
        m.ctx.assume(z3.Select(so.fields["zero"].mem, bv(i)) == 0)
    st = {"so": so, "c": so.fields["ctx"].obj}
    st["args"] = [PV(so, bv(0)), m.opaque_ptr("args"), m.opaque_ptr("kwargs")]
    return st


def _hp_common(m, st, out):
    so = st["so"]
    k = kind_of(out)
    goals = [("inv.ctx", B(so.fields["ctx"].obj is st["c"]), "cipher context unchanged"),
             ("inv.zero", z3.And(*[z3.Select(so.fields["zero"].mem, bv(i)) == 0 for i in range(5)]), "zero[] stays zero"),
             ("null-iff-error", B((k == "null") == (m.err is not None)), "returns NULL exactly when a Python exception is set")]
    return goals, k


def _mask_after(m, st):
    """the mask bytes the function used: content of self->mask after the (single) mask computation"""
    return st["so"].fields["mask"].mem


def _post_hp_apply(m, st, out):
    goals, k = _hp_common(m, st, out)
    if m.err == "TypeError" or "parsed" not in m.ghost:
        return goals
    (_, hobj, hlen), (_, pobj, plen) = m.ghost["parsed"]
    if k == "null":
        goals.append(("error-kind", B(m.err in ("CryptoError", "MemoryError")), "failure is CryptoError / MemoryError"))
        return goals
    mask = _mask_after(m, st)
    h0 = z3.Select(hobj.mem, bv(0))
    pnl = z3.ZeroExt(56, h0 & 3) + 1
    pno = hlen - pnl
    goals.append(("accepted-only-if-fits", z3.And(hlen >= 1, pno >= 1, hlen + plen <= 1500, plen >= 4 - pnl + 16), "accepted only when header+payload fit the scratch buffer and the 16-byte sample exists"))
    if hasattr(k, "kind") and k.kind == "bytes":
        res = lambda j: z3.Select(k.mem, k.off + j)  # noqa
        j = z3.BitVec("k!hp", 64)
        inp = z3.If(z3.ULT(j, hlen), z3.Select(hobj.mem, j), z3.Select(pobj.mem, j - hlen))
        m0 = z3.Select(mask, bv(0)) & z3.If((h0 & 0x80) != 0, z3.BitVecVal(0x0F, 8), z3.BitVecVal(0x1F, 8))
        expect = z3.If(j == 0, inp ^ m0, z3.If(z3.And(z3.UGE(j, pno), z3.ULT(j, hlen)), inp ^ z3.Select(mask, j - pno + 1), inp))
        goals.append(("result.len", k.n == hlen + plen, "result length == len(header) + len(payload)"))
        goals.append(("result.masked", z3.ForAll([j], z3.Implies(z3.ULT(j, hlen + plen), res(j) == expect)), "byte 0 low bits and the packet-number bytes are XORed with the mask, everything else is copied"))
    ups = _calls(m, "update", st["c"])
    inits = [r for r in _calls(m, "init", st["c"]) if "iv" in r]
    samp = None
    if ups and ups[-1]["in"].obj is pobj:
        samp = ups[-1]["in"].off
    elif inits and inits[-1]["iv"][0] is pobj:
        samp = inits[-1]["iv"][1]
    goals.append(("sample.offset", (samp == 4 - pnl) if samp is not None else FALSE, "the sample is taken 4 - pn_length bytes into the protected payload (RFC 9001 §5.4.2)"))
    return goals


def _post_hp_remove(m, st, out):
    goals, k = _hp_common(m, st, out)
    if m.err == "TypeError" or "parsed" not in m.ghost:
        return goals
    (_, pobj, plen), (_, off32, _) = m.ghost["parsed"]
    if k == "null":
        goals.append(("error-kind", B(m.err in ("CryptoError", "MemoryError")), "failure is CryptoError / MemoryError"))
        return goals
    off = z3.ZeroExt(32, off32)
    goals.append(("accepted-only-if-fits", z3.And(z3.UGE(off, 1), z3.ULE(off, 1500 - 4), z3.ULE(off + 4 + 16, plen)), "accepted only when offset+4 fits the scratch buffer and the 16-byte sample lies inside the packet"))
    mask = _mask_after(m, st)
    p0 = z3.Select(pobj.mem, bv(0))
    m0 = z3.Select(mask, bv(0)) & z3.If((p0 & 0x80) != 0, z3.BitVecVal(0x0F, 8), z3.BitVecVal(0x1F, 8))
    first = p0 ^ m0
    pnl = z3.ZeroExt(56, first & 3) + 1
    if hasattr(k, "kind") and k.kind == "tuple" and len(k.items) == 2 and k.items[0].kind == "bytes":
        hb, pn = k.items
        j = z3.BitVec("k!hr", 64)
        inp = z3.Select(pobj.mem, j)
        expect = z3.If(j == 0, first, z3.If(z3.UGE(j, off), inp ^ z3.Select(mask, j - off + 1), inp))
        goals.append(("header.len", hb.n == off + pnl, "plain header ends after the packet number"))
        goals.append(("header.unmasked", z3.ForAll([j], z3.Implies(z3.ULT(j, off + pnl), z3.Select(hb.mem, hb.off + j) == expect)), "byte 0 and the packet-number bytes are unmasked, the rest copied"))
        pnv = z3.If(pnl == 1, z3.ZeroExt(56, be(hb.mem, hb.off + off, 1)), z3.If(pnl == 2, z3.ZeroExt(48, be(hb.mem, hb.off + off, 2)), z3.If(pnl == 3, z3.ZeroExt(40, be(hb.mem, hb.off + off, 3)), z3.ZeroExt(32, be(hb.mem, hb.off + off, 4)))))
        goals.append(("pn.value", pn.value == pnv, "truncated packet number == big-endian value of the unmasked packet-number bytes, as a non-negative integer"))
    else:
        goals.append(("result.shape", FALSE, "result is (bytes, int)"))
    ups = _calls(m, "update", st["c"])
    inits = [r for r in _calls(m, "init", st["c"]) if "iv" in r]
    samp = None
    if ups and ups[-1]["in"].obj is pobj:
        samp = ups[-1]["in"].off
    elif inits and inits[-1]["iv"][0] is pobj:
        samp = inits[-1]["iv"][1]
    goals.append(("sample.offset", (samp == off + 4) if samp is not None else FALSE, "the sample starts 4 bytes after the packet-number offset"))
    return goals


R.c_contract(F + "HeaderProtection_apply", setup=_setup_hp, post=_post_hp_apply, prop=["C04", "C02"])
R.c_contract(F + "HeaderProtection_remove", setup=_setup_hp, post=_post_hp_remove, prop=["C04", "C02"])


def _setup_hp_init(m):
    so = SObj("HeaderProtectionObject", m.cf.records["HeaderProtectionObject"])
    _arrays(m, so)
    so.fields["ctx"] = PV(None, bv(0))
    m.ghost["evp_block_size"] = 16
    st = {"so": so}
    st["args"] = [PV(so, bv(0)), m.opaque_ptr("args"), m.opaque_ptr("kwargs")]
    return st


def _post_hp_init(m, st, out):
    rv = z3.simplify(out.t)
    ok = z3.is_bv_value(rv) and rv.as_long() == 0
    goals = [("status-iff-error", B(ok == (m.err is None)), "returns 0 exactly when no Python exception is set")]
    if ok:
        so = st["so"]
        goals.append(("inv.ctx", B(so.fields["ctx"].obj is not None), "cipher context exists"))
        goals.append(("inv.zero", z3.And(*[z3.Select(so.fields["zero"].mem, bv(i)) == 0 for i in range(5)]), "zero[] is zeroed"))
        goals.append(("flag", B("is_chacha20" in so.fields), "cipher family flag set"))
    return goals


R.c_contract(F + "HeaderProtection_init", setup=_setup_hp_init, post=_post_hp_init, prop=["C04"])
