# Sidecar contracts for the asyncio adapter (property C19; R is injected)
#
#   src/aioquic/quic/retry.py        QuicRetryTokenHandler (address-validation tokens)
#   src/aioquic/asyncio/server.py    QuicServer (connection-ID -> protocol routing table)
#   src/aioquic/asyncio/protocol.py  QuicConnectionProtocol (waiters, timer / transmit handles, stream readers)
#
# asyncio callbacks (and the synchronous stretches of coroutines between two `await`s) run to completion one at a
# time, so "every event-loop schedule" is "every finite sequence of calls of the adapter's entry points with
# arbitrary arguments and arbitrary behaviour of the layer below".  The adapter clauses of C19 are therefore stated
# as CLASS INVARIANTS (assumed at entry, proved at every exit of every method under contract) plus per-method
# postconditions.  What lies outside the repository (the event loop, futures, events, transports, stream readers,
# RSA-OAEP, ipaddress) is modelled by extern classes whose trusted contracts carry GHOST state (done flags, logs);
# the QuicConnection below the adapter is summarised by trusted contracts "arbitrary result of the declared type"
# (its behaviour is the subject of C01-C18).

# ======================================================================================================= retry.py
# NetworkAddress: asyncio hands (host, port) for IPv4 and (host, port, flowinfo, scope_id) for IPv6; retry.py reads
# components 0 and 1 only, the adapter passes the value through.  Modelled as the pair (host, port).
_ADDR = "tuple[str,int]"

R.module_names.update({"ipaddress", "padding", "hashes", "rsa", "asyncio", "os"})
R.extern_module(
    "c19_crypto_model.py",
    """
class RsaPrivateKey:
    def decrypt(self, ciphertext: bytes, padding) -> bytes: ...
    def public_key(self) -> RsaPublicKey: ...

class RsaPublicKey:
    def encrypt(self, plaintext: bytes, padding) -> bytes: ...

class IpAddress:
    pass
""",
)
R.field_types("RsaPublicKey", g_priv="RsaPrivateKey")
R.field_types("IpAddress", packed="bytes")
R.field_types("QuicRetryTokenHandler", _key="RsaPrivateKey")

# RSA-OAEP as two uninterpreted functions of (private key object, VALUE of the ciphertext - its bkey id):
#   rsa_ok(key, c)   the ciphertext c opens under key          rsa_dec(key, c)   the plaintext it opens to
# encrypt() under the matching public key returns SOME ciphertext (OAEP is randomised) that opens to the plaintext;
# decrypt() returns rsa_dec exactly when rsa_ok and raises ValueError otherwise ("Decryption failed" / wrong length).
R.ufunc("rsa_ok", ["RsaPrivateKey", "int"], "bool")
R.ufunc("rsa_dec", ["RsaPrivateKey", "int"], "bytes")
R.ufunc("ip_packed", ["str"], "bytes")

_CRY = dict(trusted=True, note="third-party (cryptography / ipaddress): trusted stub")
R.contract("rsa.generate_private_key", returns="RsaPrivateKey", allocates=True, **_CRY)
R.contract("RsaPrivateKey.public_key", returns="RsaPublicKey", ensures=["result.g_priv == self"], **_CRY)
R.contract(
    "RsaPublicKey.encrypt",
    params={"plaintext": "bytes", "padding": "Any"},
    returns="bytes",
    # OAEP-SHA256 with a 2048-bit key: at most 256 - 2*32 - 2 = 190 bytes of plaintext
    raises={"ValueError": "len(plaintext) > 190"},
    ensures=["rsa_ok(self.g_priv, bkey(result))", "bytes_eq(rsa_dec(self.g_priv, bkey(result)), plaintext)", "len(result) == 256"],
    **_CRY,
)
R.contract(
    "RsaPrivateKey.decrypt",
    params={"ciphertext": "bytes", "padding": "Any"},
    returns="bytes",
    raises={"ValueError": "not rsa_ok(self, bkey(ciphertext))"},
    ensures=["bytes_eq(result, rsa_dec(self, bkey(ciphertext)))", "len(result) == len(rsa_dec(self, bkey(ciphertext)))"],
    **_CRY,
)
R.contract("padding.OAEP", returns="Any", **_CRY)
R.contract("padding.MGF1", returns="Any", **_CRY)
R.contract("hashes.SHA256", returns="Any", **_CRY)


def _refine_ip_address(reg):
    # the stub "ipaddress.ip_address" is declared by contracts/tls_auth.py (loaded later; tls.py only asks WHETHER the
    # text parses: result typed Any, ValueError iff not ip_literal).  retry.py also reads `.packed`: same raise
    # condition, the result typed as an extern object whose `packed` is a fixed function of the text, 4 or 16 bytes.
    c = reg.contracts["ipaddress.ip_address"]
    assert c.trusted and c.raises == {"ValueError": "not ip_literal(a0)"}, "tls_auth.py stub changed: revisit"
    c.returns = "IpAddress"
    c.allocates = True
    c.ensures = list(c.ensures) + ["bytes_eq(result.packed, ip_packed(a0))", "len(result.packed) == len(ip_packed(a0))", "len(result.packed) == 4 or len(result.packed) == 16"]


R.after_load(_refine_ip_address)

R.spec(
    """
def ipl(addr):
    return len(ip_packed(addr[0]))

def enc_addr_is(r, addr):
    return len(r) == ipl(addr) + 2 and forall(lambda k: implies(0 <= k < ipl(addr), elem(r, k) == elem(ip_packed(addr[0]), k))) and elem(r, ipl(addr)) == addr[1] // 256 and elem(r, ipl(addr) + 1) == addr[1] % 256

def tok_l0(p):
    return elem(p, 0)

def tok_o1(p):
    return 1 + tok_l0(p)

def tok_l1(p):
    return elem(p, tok_o1(p))

def tok_o2(p):
    return tok_o1(p) + 1 + tok_l1(p)

def tok_l2(p):
    return elem(p, tok_o2(p))

def tok_wf(p):
    return 1 <= len(p) and tok_o1(p) + 1 <= len(p) and tok_o2(p) + 1 <= len(p) and tok_o2(p) + 1 + tok_l2(p) <= len(p)

def tok_addr_is(p, addr):
    return tok_l0(p) == ipl(addr) + 2 and forall(lambda k: implies(0 <= k < ipl(addr), elem(p, 1 + k) == elem(ip_packed(addr[0]), k))) and elem(p, 1 + ipl(addr)) == addr[1] // 256 and elem(p, 2 + ipl(addr)) == addr[1] % 256

def tok_f1_is(p, x):
    return len(x) == tok_l1(p) and forall(lambda k: implies(0 <= k < len(x), elem(x, k) == elem(p, tok_o1(p) + 1 + k)))

def tok_f2_is(p, x):
    return len(x) == tok_l2(p) and forall(lambda k: implies(0 <= k < len(x), elem(x, k) == elem(p, tok_o2(p) + 1 + k)))
"""
)

# encode_address: the packed IP address followed by the port, big-endian.  (Injective on (IP, port): the packed form
# determines the IP - trusted for ipaddress - and its length, 4 or 16, fixes where the two port bytes are.)
R.contract(
    "encode_address",
    params={"addr": _ADDR},
    returns="bytes",
    requires=["0 <= addr[1] < 65536"],  # a UDP port
    raises={"ValueError": "not ip_literal(addr[0])"},
    ensures=["enc_addr_is(result, addr)", "len(result) == 6 or len(result) == 18"],
    prop=["C19"],
)

R.contract("QuicRetryTokenHandler.__init__", modifies=["self._key"], ensures=["self._key is not None"], prop=["C19"])

# create_token: the token is a ciphertext that opens, under this handler's key, to the three length-prefixed fields
# (address of the requester, original destination connection ID, the Retry packet's source connection ID).
R.contract(
    "QuicRetryTokenHandler.create_token",
    params={"addr": _ADDR},
    returns="bytes",
    requires=["0 <= addr[1] < 65536", "len(original_destination_connection_id) <= 20", "len(retry_source_connection_id) <= 20"],
    raises={"ValueError": "not ip_literal(addr[0])", "MemoryError": None},
    ensures=[
        "rsa_ok(self._key, bkey(result))",
        "tok_wf(rsa_dec(self._key, bkey(result)))",
        "tok_addr_is(rsa_dec(self._key, bkey(result)), addr)",
        "tok_f1_is(rsa_dec(self._key, bkey(result)), original_destination_connection_id)",
        "tok_f2_is(rsa_dec(self._key, bkey(result)), retry_source_connection_id)",
    ],
    prop=["C19"],
)

# validate_token: returns the two connection IDs EXACTLY when the token opens under this handler's key to three
# well-formed fields whose first is the encoding of the address the datagram came from; every other token is refused
# with ValueError (BufferReadError is a ValueError) - in particular a token issued to another (IP, port).
R.contract(
    "QuicRetryTokenHandler.validate_token",
    params={"addr": _ADDR},
    returns="tuple[bytes,bytes]",
    requires=["0 <= addr[1] < 65536"],
    let={"k_": "bkey(token)", "p_": "rsa_dec(self._key, bkey(token))"},
    raises={"ValueError": "not rsa_ok(self._key, k_) or not tok_wf(p_) or not ip_literal(addr[0]) or not tok_addr_is(p_, addr)", "MemoryError": None},
    exit_cuts=["rsa_ok(self._key, k_)", "ip_literal(addr[0])", "tok_wf(p_)", "tok_addr_is(p_, addr)"],
    ensures=[
        "tok_f1_is(p_, result[0])",
        "tok_f2_is(p_, result[1])",
    ],
    prop=["C19"],
)

# ================================================================================================== asyncio model
# Extern classes for what the adapter uses of asyncio, with GHOST state (g_*) maintained by their trusted contracts:
#   Future.g_done / g_ok       completed / completed with a result (else with an exception)
#   Event.g_set                asyncio.Event flag
#   Handle.g_cancelled, g_when a call_soon / call_at handle (g_when: the deadline of a call_at handle)
#   EventLoop.g_soon           number of call_soon() calls made so far
#   DatagramTransport.g_n, g_data, g_addr   log of sendto() calls (count, payload and destination per position)
#   StreamReader.g_data, g_eof bytes fed so far, end-of-file fed
# QuicLayer is the API of QuicConnection as the adapter uses it ("the layer below"), with ghost flags
#   g_hs / g_term   a HandshakeCompleted / ConnectionTerminated event has been handed out by next_event()
#   g_pings         uids handed to send_ping() and not yet reported by a PingAcknowledged event
#   g_dirty         the connection's state may have changed since datagrams_to_send() was last called
#   g_timer         what get_timer() returns (changes whenever the state may change)
#   g_fin           stream ids for which a StreamDataReceived event with end_stream was handed out
#   g_tx, g_tx_fin  per stream id: the bytes handed to send_stream_data() so far, in order; ids whose end was requested
#   g_drained       the last next_event() returned None and the state has not changed since (no event is waiting)
#   g_n_iss / g_n_ret / g_n_term   number of ConnectionIdIssued / ConnectionIdRetired / ConnectionTerminated events handed
#                   out; g_last_cid: the connection ID carried by the last issued / retired event
R.extern_module(
    "c19_asyncio_model.py",
    """
class InvalidStateError(Exception):
    pass

class Future:
    def done(self) -> bool: ...
    def set_result(self, result) -> None: ...
    def set_exception(self, exception) -> None: ...

class Event:
    def set(self) -> None: ...
    def is_set(self) -> bool: ...

class Handle:
    def cancel(self) -> None: ...

class EventLoop:
    def time(self) -> float: ...
    def create_future(self) -> Future: ...
    def call_soon(self, callback) -> Handle: ...
    def call_at(self, when: float, callback) -> Handle: ...

class DatagramTransport:
    def sendto(self, data: bytes, addr) -> None: ...
    def close(self) -> None: ...

class StreamReader:
    def feed_data(self, data: bytes) -> None: ...
    def feed_eof(self) -> None: ...

class StreamWriter:
    pass

class StreamReaderProtocol:
    pass

class QuicLayer:
    def receive_datagram(self, data: bytes, addr, now: float) -> None: ...
    def handle_timer(self, now: float) -> None: ...
    def datagrams_to_send(self, now: float): ...
    def get_timer(self): ...
    def next_event(self): ...
    def connect(self, addr, now: float) -> None: ...
    def close(self, error_code: int = 0, frame_type=None, reason_phrase: str = "") -> None: ...
    def change_connection_id(self) -> None: ...
    def request_key_update(self) -> None: ...
    def send_ping(self, uid: int) -> None: ...
    def send_stream_data(self, stream_id: int, data: bytes, end_stream: bool = False) -> None: ...
    def get_next_available_stream_id(self, is_unidirectional: bool = False) -> int: ...
""",
)
R.field_types("Future", g_done="bool", g_ok="bool")
R.field_types("Event", g_set="bool")
R.field_types("Handle", g_cancelled="bool", g_when="Optional[float]")
R.field_types("EventLoop", g_soon="int")
R.field_types("DatagramTransport", g_n="int", g_data="map[int,bytes]", g_addr="map[int,tuple[str,int]]", g_closed="bool")
R.field_types("StreamReader", g_data="bytes", g_eof="bool")
R.field_types("QuicLayer", g_hs="bool", g_term="bool", g_pings="set[int]", g_dirty="bool", g_timer="Optional[float]",
              g_drained="bool", g_n_iss="int", g_n_ret="int", g_n_term="int", g_last_cid="bytes", g_fin="set[int]",
              g_tx="map[int,bytes]", g_tx_fin="set[int]",
              # real attributes of QuicConnection a changed adapter might read (declared so that such code is ANALYSED, not
              # merely reported as unsupported): arbitrary values of their types
              _host_cids="list[QuicConnectionId]", original_destination_connection_id="bytes", host_cid="bytes")

_AIO = dict(trusted=True, note="asyncio (stdlib): trusted stub with ghost state")
R.contract("asyncio.get_running_loop", returns="EventLoop", **_AIO)
R.contract("asyncio.Event", returns="Event", allocates=True, ensures=["not result.g_set"], **_AIO)
R.contract("asyncio.StreamReader", returns="StreamReader", allocates=True, ensures=["len(result.g_data) == 0", "not result.g_eof"], **_AIO)
R.contract("asyncio.streams.StreamReaderProtocol", returns="StreamReaderProtocol", allocates=True, **_AIO)
R.contract("asyncio.StreamWriter", returns="StreamWriter", allocates=True, **_AIO)
# asyncio.Future: set_result / set_exception raise InvalidStateError exactly when the future is already done
R.contract("Future.done", returns="bool", ensures=["result == self.g_done"], **_AIO)
R.contract("Future.set_result", params={"result": "Any"}, raises={"InvalidStateError": "self.g_done"}, modifies=["self.g_done", "self.g_ok"], ensures=["self.g_done and self.g_ok"], **_AIO)
R.contract("Future.set_exception", params={"exception": "Any"}, raises={"InvalidStateError": "self.g_done"}, modifies=["self.g_done", "self.g_ok"], ensures=["self.g_done and not self.g_ok"], **_AIO)
R.contract("Event.set", modifies=["self.g_set"], ensures=["self.g_set"], **_AIO)
R.contract("Event.is_set", returns="bool", ensures=["result == self.g_set"], **_AIO)
R.contract("Handle.cancel", modifies=["self.g_cancelled"], ensures=["self.g_cancelled"], **_AIO)
R.contract("EventLoop.time", returns="float", **_AIO)
R.contract("EventLoop.create_future", returns="Future", allocates=True, ensures=["not result.g_done"], **_AIO)
R.contract("EventLoop.call_soon", params={"callback": "Any"}, returns="Handle", allocates=True, modifies=["self.g_soon"],
           ensures=["self.g_soon == old(self.g_soon) + 1", "not result.g_cancelled", "result.g_when is None"], **_AIO)
R.contract("EventLoop.call_at", params={"callback": "Any"}, returns="Handle", allocates=True,
           ensures=["not result.g_cancelled", "result.g_when is not None and some(result.g_when) == when"], **_AIO)
R.contract(
    "DatagramTransport.sendto",
    params={"data": "bytes", "addr": _ADDR},
    modifies=["self.g_n", "self.g_data", "self.g_addr"],
    ensures=[
        "self.g_n == old(self.g_n) + 1",
        "bytes_eq(self.g_data[old(self.g_n)], data) and self.g_addr[old(self.g_n)] == addr",
        "forall(lambda k: implies(k != old(self.g_n), self.g_data[k] == old(self.g_data)[k] and self.g_addr[k] == old(self.g_addr)[k]))",
    ],
    **_AIO,
)
R.contract("DatagramTransport.close", modifies=["self.g_closed"], ensures=["self.g_closed"], **_AIO)
# StreamReader.feed_data: `assert not self._eof, 'feed_data after feed_eof'`, then the bytes are appended (nothing for b"")
R.contract("StreamReader.feed_data", params={"data": "bytes"}, raises={"AssertionError": "self.g_eof"}, modifies=["self.g_data"],
           ensures=["same(self.g_data, old(self.g_data) + data)"], **_AIO)
R.contract("StreamReader.feed_eof", modifies=["self.g_eof"], ensures=["self.g_eof"], **_AIO)

# ------------------------------------------------------------------------------------------------ the layer below
# QuicConnection as seen by the adapter: every call may change the connection arbitrarily (g_dirty, g_timer unknown
# afterwards); results are arbitrary values of the declared type.  None of them raises: for receive_datagram /
# handle_timer / datagrams_to_send / next_event that is property C05, for the API calls (close, send_ping, ...) it
# holds on a connection that was started; the adapter has no handler for an exception of the layer below anyway.
_QL = dict(trusted=True, note="QuicConnection API, the layer below the adapter (verified under C01-C18): trusted summary - arbitrary result of the declared type")
_QMOD = ["self.g_dirty", "self.g_timer", "self.g_drained"]
for _m, _p in (("receive_datagram", {"data": "bytes", "addr": _ADDR, "now": "float"}), ("handle_timer", {"now": "float"}), ("connect", {"addr": _ADDR, "now": "float"}),
               ("close", {"error_code": "int", "frame_type": "Optional[int]", "reason_phrase": "str"}), ("change_connection_id", {}), ("request_key_update", {}),
               ):
    R.contract("QuicLayer." + _m, params=_p, modifies=_QMOD, ensures=["self.g_dirty"], **_QL)
R.contract(
    "QuicLayer.send_stream_data",
    params={"stream_id": "int", "data": "bytes", "end_stream": "bool"},
    modifies=_QMOD + ["self.g_tx", "self.g_tx_fin"],
    ensures=[
        "self.g_dirty",
        "same(self.g_tx[stream_id], old(self.g_tx)[stream_id] + data)",
        "forall(lambda s: implies(s != stream_id, self.g_tx[s] == old(self.g_tx)[s]))",
        "forall(lambda s: (s in self.g_tx_fin) == ((s in old(self.g_tx_fin)) or (s == stream_id and end_stream)))",
    ],
    **_QL,
)
R.contract("QuicLayer.send_ping", params={"uid": "int"}, modifies=_QMOD + ["self.g_pings"], ensures=["self.g_dirty", "uid in self.g_pings", "forall(lambda u: implies(u != uid, (u in self.g_pings) == (u in old(self.g_pings))))"], **_QL)
R.contract("QuicLayer.get_next_available_stream_id", params={"is_unidirectional": "bool"}, returns="int", **_QL)
# (sending produces no events: g_drained is kept - model decision; an event produced while sending would be picked up by the next callback)
R.contract("QuicLayer.datagrams_to_send", params={"now": "float"}, returns="list[tuple[bytes,%s]]" % _ADDR, modifies=["self.g_dirty", "self.g_timer"], ensures=["not self.g_dirty"], **_QL)
R.contract("QuicLayer.get_timer", returns="Optional[float]", ensures=["result == self.g_timer"], **_QL)
R.contract(
    "QuicLayer.next_event",
    returns="Optional[QuicEvent]",
    modifies=["self.g_hs", "self.g_term", "self.g_pings", "self.g_drained", "self.g_n_iss", "self.g_n_ret", "self.g_n_term", "self.g_last_cid", "self.g_fin"],
    ensures=[
        # ASSUMPTION about the layer below (C01 / C10: the end marker is reported once and nothing follows it; C09: the end
        # states are absorbing): no data event for a stream after its end_stream event, none after ConnectionTerminated
        "implies(ev_is_sd(result), not old(self.g_term) and not (ev_sid(result) in old(self.g_fin)))",
        "forall(lambda s: (s in self.g_fin) == ((s in old(self.g_fin)) or (ev_is_sd(result) and ev_sid(result) == s and cast(some(result), 'StreamDataReceived').end_stream)))",
        "self.g_drained == (result is None)",
        "self.g_n_iss == old(self.g_n_iss) + ite(ev_is_iss(result), 1, 0) and self.g_n_ret == old(self.g_n_ret) + ite(ev_is_ret(result), 1, 0) and self.g_n_term == old(self.g_n_term) + ite(ev_is_term(result), 1, 0)",
        "implies(ev_is_iss(result), bytes_eq(self.g_last_cid, cast(some(result), 'ConnectionIdIssued').connection_id))",
        "implies(ev_is_ret(result), bytes_eq(self.g_last_cid, cast(some(result), 'ConnectionIdRetired').connection_id))",
        "implies(ev_is_sd(result), cast(some(result), 'StreamDataReceived').stream_id is not None)",
        "self.g_hs == (old(self.g_hs) or ev_is_hs(result))",
        "self.g_term == (old(self.g_term) or ev_is_term(result))",
        # an acknowledged ping is no longer outstanding; nothing else changes the set
        "forall(lambda u: (u in self.g_pings) == ((u in old(self.g_pings)) and not (ev_is_pack(result) and cast(some(result), 'PingAcknowledged').uid == u)))",
    ],
    **_QL,
)
R.field_types("ConnectionIdIssued", connection_id="bytes")
R.field_types("ConnectionIdRetired", connection_id="bytes")
R.field_types("PingAcknowledged", uid="int")
# (contracts/quic_stream.py types StreamDataReceived.stream_id Optional[int]: the crypto streams' receive halves build such
# events with stream_id None, but those are never queued; the events handed to the application carry an int, as the
# dataclass declares - stated as a postcondition of next_event and a precondition of quic_event_received)

R.spec(
    """
def ev_is_hs(e):
    return e is not None and is_instance(some(e), 'HandshakeCompleted')

def ev_is_term(e):
    return e is not None and is_instance(some(e), 'ConnectionTerminated')

def ev_is_iss(e):
    return e is not None and is_instance(some(e), 'ConnectionIdIssued')

def ev_is_ret(e):
    return e is not None and is_instance(some(e), 'ConnectionIdRetired')

def ev_is_sd(e):
    return e is not None and is_instance(some(e), 'StreamDataReceived')

def ev_sid(e):
    return some(cast(some(e), 'StreamDataReceived').stream_id)

def ev_is_pack(e):
    return e is not None and is_instance(some(e), 'PingAcknowledged')
"""
)

# ===================================================================================== protocol.py: QuicConnectionProtocol
R.field_types(
    "QuicConnectionProtocol",
    _closed="Event",
    _connected="bool",
    _connected_waiter="Optional[Future]",
    _loop="EventLoop",
    _ping_waiters="dict[int,Future]",
    _quic="QuicLayer",
    _stream_readers="dict[int,StreamReader]",
    _timer="Optional[Handle]",
    _timer_at="Optional[float]",
    _transmit_task="Optional[Handle]",
    _transport="Optional[DatagramTransport]",
    _connection_id_issued_handler="Callable",
    _connection_id_retired_handler="Callable",
    _connection_terminated_handler="Callable",
    _stream_handler="Callable",
)
# ghost: number of invocations of the three routing callbacks
R.field_types("QuicConnectionProtocol", g_cb_iss="int", g_cb_ret="int", g_cb_term="int")
R.field_types("QuicStreamAdapter", protocol="QuicConnectionProtocol", stream_id="int", _closing="bool")
R.consts.setdefault("ALLOC_FRESH", set()).update({"Future", "Handle", "StreamReader", "Event"})

R.ufunc("obj_id", ["Future"], "int")  # CPython id() (engine: calls.bi_id)
R.spec(
    """
def PW(p):
    return p._ping_waiters

def w_pending(p):
    return implies(p._connected_waiter is not None, not some(p._connected_waiter).g_done) and forall(lambda u: implies(u in PW(p), not PW(p)[u].g_done and obj_id(PW(p)[u]) == u))

def w_distinct(p):
    return forall(lambda u, v: implies(u in PW(p) and v in PW(p) and u != v, PW(p)[u] != PW(p)[v])) and forall(lambda u: implies(u in PW(p) and p._connected_waiter is not None, PW(p)[u] != some(p._connected_waiter)))

def w_live(p, hs, term):
    return implies(p._connected_waiter is not None, not hs and not term) and forall(lambda u: implies(u in PW(p), not term and u in p._quic.g_pings))

def t_ok(p):
    return (p._timer is None) == (p._timer_at is None) and implies(p._timer is not None, not some(p._timer).g_cancelled and some(p._timer).g_when == p._timer_at)

def r_ok(p):
    return forall(lambda s, t: implies(s in p._stream_readers and t in p._stream_readers and s != t, p._stream_readers[s] != p._stream_readers[t])) and forall(lambda t: implies(t in p._stream_readers and p._stream_readers[t].g_eof, p._quic.g_term or t in p._quic.g_fin))

def tx_ok(p):
    return implies(p._transmit_task is not None, not some(p._transmit_task).g_cancelled)
"""
)

# CLASS INVARIANT of QuicConnectionProtocol (holds whenever no callback of the protocol is running):
#  W-pending   (a ping waiter is filed under its own id())
#              every waiter the protocol still holds (connected waiter, ping table) is NOT done - so completing a held
#              waiter can never raise InvalidStateError, and a waiter is completed at most once because it is dropped
#              from the structure in the same callback that completes it
#  W-distinct  the held waiters are pairwise different objects
#  W-live      a held connected waiter still has its event to come (neither HandshakeCompleted nor ConnectionTerminated
#              was handed out yet); a held ping waiter is filed under a uid whose ping is outstanding in the layer below
#              and termination was not handed out yet - so every held waiter WILL be completed: by its own event or by
#              ConnectionTerminated, which the layer below reports for every connection (C09)
#  closed      wait_closed()'s event is set exactly when ConnectionTerminated was handed out
#  T           the timer handle exists iff a deadline is recorded, is not cancelled and is armed at that deadline
#  TX          a recorded deferred-transmit handle is not cancelled
#  R           the stream readers are pairwise different objects; a reader has end-of-file only if the end of its stream or
#              the termination of the connection was handed out (so asyncio's "feed_data after feed_eof" cannot occur)
#  CB          the routing callbacks were invoked once per ConnectionIdIssued / Retired / Terminated event handed out
PINV = [
    "w_pending(self)",
    "w_distinct(self)",
    "w_live(self, self._quic.g_hs, self._quic.g_term)",
    "self._closed.g_set == self._quic.g_term",
    "t_ok(self)",
    "tx_ok(self)",
    "r_ok(self)",
    # every ConnectionIdIssued / ConnectionIdRetired / ConnectionTerminated event handed out so far was passed on to
    # the corresponding routing callback, exactly once each
    "self.g_cb_iss == self._quic.g_n_iss and self.g_cb_ret == self._quic.g_n_ret and self.g_cb_term == self._quic.g_n_term",
]
R.invariant("QuicConnectionProtocol", PINV)

_CB = dict(callback=True, trusted=True, note="callback installed by the embedding code (QuicServer routing functions / the application's stream handler): runs to completion, does not re-enter or write the protocol object")
# the `requires` of the two connection-ID callbacks are obligations at the call sites in _process_events: the handler is
# given the connection ID of the event being processed; the ghost counters count the invocations
R.contract("QuicConnectionProtocol._connection_id_issued_handler", params={"a0": "bytes"}, requires=["bytes_eq(a0, self._quic.g_last_cid)"],
           modifies=["QuicServer._protocols[*]", "self.g_cb_iss"], ensures=["self.g_cb_iss == old(self.g_cb_iss) + 1"], **_CB)
R.contract("QuicConnectionProtocol._connection_id_retired_handler", params={"a0": "bytes"}, requires=["bytes_eq(a0, self._quic.g_last_cid)"],
           modifies=["QuicServer._protocols[*]", "self.g_cb_ret"], ensures=["self.g_cb_ret == old(self.g_cb_ret) + 1"], **_CB)
R.contract("QuicConnectionProtocol._connection_terminated_handler", modifies=["QuicServer._protocols[*]", "self.g_cb_term"], ensures=["self.g_cb_term == old(self.g_cb_term) + 1"], **_CB)
R.contract("QuicConnectionProtocol._stream_handler", **_CB)

R.contract(
    "QuicConnectionProtocol.__init__",
    params={"quic": "QuicLayer", "stream_handler": "Optional[Callable]"},
    # a connection object that has not handed out events yet (fresh from the client / server code); the ghost call
    # counters start at the connection's (ghost initialisation, ghost_exit)
    assume_pre=["not quic.g_hs and not quic.g_term"],
    ghost_exit={"self.g_cb_iss": "quic.g_n_iss", "self.g_cb_ret": "quic.g_n_ret", "self.g_cb_term": "quic.g_n_term"},
    modifies=["self.*"],
    ensures=["self._quic == quic", "not self._connected", "self._connected_waiter is None", "self._timer is None", "self._transmit_task is None", "self._transport is None"],
    prop=["C19"],
)
R.contract("QuicConnectionProtocol.connection_made", params={"transport": "DatagramTransport"}, modifies=["self._transport"],
           ensures=["self._transport is not None and some(self._transport) == transport"], check_frame=True, prop=["C19"])

# transmit(): everything the connection wants to send NOW is handed to the transport, in order, to the stated
# addresses; afterwards the timer is armed at exactly the connection's current deadline (a handle armed at another
# deadline was cancelled, no handle when there is no deadline) and no deferred transmit is recorded.
_TX_POST = ["not self._quic.g_dirty", "self._timer_at == self._quic.g_timer", "self._transmit_task is None"]
R.contract(
    "QuicConnectionProtocol.transmit",
    requires=["self._transport is not None"],
    check_frame=True,
    modifies=["self._transmit_task", "self._timer", "self._timer_at", "self._quic.g_dirty", "self._quic.g_timer", "Handle.g_cancelled[*]", "DatagramTransport.g_n[*]", "DatagramTransport.g_data[*]", "DatagramTransport.g_addr[*]"],
    let={"tr_": "some(self._transport)", "n0_": "some(self._transport).g_n"},
    loops={0: dict(
        invariant=[
            "0 <= _i0 <= len(_seq0)",
            "some(self._transport).g_n == n0_ + _i0",
            "forall(lambda k: implies(0 <= k < _i0, bytes_eq(some(self._transport).g_data[n0_ + k], elem(_seq0, k)[0]) and some(self._transport).g_addr[n0_ + k] == elem(_seq0, k)[1]))",
            "forall(lambda k: implies(k < n0_, some(self._transport).g_data[k] == old(some(self._transport).g_data)[k] and some(self._transport).g_addr[k] == old(some(self._transport).g_addr)[k]))",
        ],
        modifies=["DatagramTransport.g_n[*]", "DatagramTransport.g_data[*]", "DatagramTransport.g_addr[*]"],
    )},
    ensures=_TX_POST + [
        # exactly the datagrams the connection produced, in order, each to its address; the earlier log is untouched
        "tr_.g_n == n0_ + len(_seq0)",
        "forall(lambda k: implies(0 <= k < len(_seq0), bytes_eq(tr_.g_data[n0_ + k], elem(_seq0, k)[0]) and tr_.g_addr[n0_ + k] == elem(_seq0, k)[1]))",
        "forall(lambda k: implies(k < n0_, tr_.g_data[k] == old(tr_.g_data)[k] and tr_.g_addr[k] == old(tr_.g_addr)[k]))",
        # the replaced timer handle was cancelled; a kept one is the old one
        "implies(old(self._timer) is not None and self._timer != old(self._timer), some(old(self._timer)).g_cancelled)",
        "implies(old(self._timer) is not None and self._timer == old(self._timer), self._timer_at == old(self._timer_at))",
        # nothing but the timer handle is ever cancelled here (in particular no transmit handle)
        "forall(lambda h: implies(old(self._timer) is None or h != some(old(self._timer)), h.g_cancelled == old(h.g_cancelled)), types={'h': 'Handle'})",
        "self._transport == old(self._transport) and self._quic == old(self._quic) and self._closed == old(self._closed)",
        "self._connected_waiter == old(self._connected_waiter) and same(self._ping_waiters, old(self._ping_waiters)) and self._connected == old(self._connected)",
    ],
    prop=["C19"],
)
R.contract(
    "QuicConnectionProtocol._transmit_soon",
    modifies=["self._transmit_task", "self._loop.g_soon"],
    ensures=[
        "self._transmit_task is not None",
        # scheduled exactly once: a new call_soon only when none is recorded
        "implies(old(self._transmit_task) is not None, self._transmit_task == old(self._transmit_task) and self._loop.g_soon == old(self._loop.g_soon))",
        "implies(old(self._transmit_task) is None, self._loop.g_soon == old(self._loop.g_soon) + 1)",
    ],
    check_frame=True,
    prop=["C19"],
)

_TRANSPORT_SET = "self._transport is not None"  # asyncio calls connection_made() before any other callback of a protocol (QuicServer does so right after creating one); established by connection_made, never reset (no other function writes _transport)
_PROTO_MOD = ["self._transmit_task", "self._timer", "self._timer_at", "self._connected", "self._connected_waiter", "self._ping_waiters", "self._stream_readers",
              "QuicLayer.g_dirty[*]", "QuicLayer.g_timer[*]", "QuicLayer.g_drained[*]", "QuicLayer.g_n_iss[*]", "QuicLayer.g_n_ret[*]", "QuicLayer.g_n_term[*]", "QuicLayer.g_last_cid[*]", "QuicLayer.g_fin[*]",
              "self.g_cb_iss", "self.g_cb_ret", "self.g_cb_term", "QuicLayer.g_hs[*]", "QuicLayer.g_term[*]", "QuicLayer.g_pings[*]",
              "Handle.g_cancelled[*]", "DatagramTransport.g_n[*]", "DatagramTransport.g_data[*]", "DatagramTransport.g_addr[*]",
              "Future.g_done[*]", "Future.g_ok[*]", "Event.g_set[*]", "StreamReader.g_data[*]", "StreamReader.g_eof[*]", "QuicServer._protocols[*]"]

# the receive -> process events -> transmit -> re-arm cycle: after a datagram or a timer expiry every event of the
# connection has been processed (next_event() returned None), everything it wants to send has been sent and the timer is
# armed at its current deadline
R.contract(
    "QuicConnectionProtocol.datagram_received",
    params={"data": "bytes", "addr": _ADDR},
    assume_pre=[_TRANSPORT_SET],
    ghost_exit={"self.g_rx": "old(self.g_rx) + 1", "self.g_rx_last": "data"},
    check_frame=True,
    modifies=_PROTO_MOD + ["self.g_rx", "self.g_rx_last"],
    ensures=["self.g_rx == old(self.g_rx) + 1 and bytes_eq(self.g_rx_last, data)"] + _TX_POST + ["self._quic.g_drained", "self._transport == old(self._transport) and self._quic == old(self._quic)"],
    prop=["C19"],
)
# _handle_timer is the callback of the handle in self._timer: the loop runs a handle's callback only if the handle was not
# cancelled, and every handle this protocol replaced was cancelled first (transmit's postcondition), so the handle
# that fires is the recorded one: self._timer is not None (hence, by T, a deadline is recorded)
R.contract(
    "QuicConnectionProtocol._handle_timer",
    assume_pre=[_TRANSPORT_SET, "self._timer is not None"],
    check_frame=True,
    modifies=_PROTO_MOD,
    ensures=_TX_POST + ["self._quic.g_drained", "self._transport == old(self._transport) and self._quic == old(self._quic)"],
    prop=["C19"],
)
for _m, _p in (("close", {"error_code": "int", "reason_phrase": "str"}), ("change_connection_id", {}), ("request_key_update", {})):
    R.contract("QuicConnectionProtocol." + _m, params=_p, assume_pre=[_TRANSPORT_SET], modifies=_PROTO_MOD, check_frame=True, ensures=_TX_POST, prop=["C19"])
R.contract("QuicConnectionProtocol.connect", params={"addr": _ADDR, "transmit": "bool"}, assume_pre=[_TRANSPORT_SET], modifies=_PROTO_MOD, check_frame=True,
           ensures=["implies(transmit, %s)" % " and ".join(_TX_POST)], prop=["C19"])

# ------------------------------------------------------------------------------------------------ stream readers
R.contract("QuicStreamAdapter.__init__", inline=True)
R.spec(
    """
def SR(p):
    return p._stream_readers

def readers_same_but(p, s):
    return forall(lambda t: implies(t != s, (t in SR(p)) == (t in old(SR(p))) and implies(t in SR(p), SR(p)[t] == old(SR(p))[t])))

def reader_untouched(r):
    return same(r.g_data, old(r.g_data)) and r.g_eof == old(r.g_eof)
"""
)
# _create_stream: a NEW reader (nothing fed yet) is filed under the stream id; no other entry changes
R.contract(
    "QuicConnectionProtocol._create_stream",
    returns="tuple[StreamReader,StreamWriter]",
    modifies=["self._stream_readers"],
    check_frame=True,
    ensures=[
        "stream_id in SR(self) and SR(self)[stream_id] == result[0]",
        "len(result[0].g_data) == 0 and not result[0].g_eof",
        "forall(lambda t: implies(t in old(SR(self)), old(SR(self))[t] != result[0]))",
        "readers_same_but(self, stream_id)",
        "forall(lambda r: implies(r != result[0], reader_untouched(r)), types={'r': 'StreamReader'})",
    ],
    prop=["C19"],
)

# quic_event_received (the default implementation): the ROUTING clause of the byte-exact reader property.
#   StreamDataReceived(stream_id=s, data=d, end_stream=e): the reader filed under s (created, and announced to the
#     stream handler, if there was none) is fed exactly d, then end-of-file iff e; no other reader is touched, no other
#     entry of the table changes.  (asyncio refuses data after end-of-file with AssertionError; the precondition "the
#     reader has no end-of-file yet" is proved in _process_events from invariant R and the assumption on next_event.)
#   ConnectionTerminated: every reader gets end-of-file, no bytes.      any other event: nothing changes.
_SD = "cast(event, 'StreamDataReceived')"
R.contract(
    "QuicConnectionProtocol.quic_event_received",
    params={"event": "QuicEvent"},
    let={"sd_": "is_instance(event, 'StreamDataReceived')", "tm_": "is_instance(event, 'ConnectionTerminated')", "s_": "some(" + _SD + ".stream_id)", "had_": "some(" + _SD + ".stream_id) in self._stream_readers"},
    # called from _process_events with the event just handed out by next_event(): the ghost flags of the layer below
    # already count it, and no data follows the end of a stream (proved at the call site from next_event's postcondition)
    requires=["implies(is_instance(event, 'StreamDataReceived'), " + _SD + ".stream_id is not None)",
              "implies(is_instance(event, 'ConnectionTerminated'), self._quic.g_term)",
              "implies(is_instance(event, 'StreamDataReceived') and " + _SD + ".end_stream, some(" + _SD + ".stream_id) in self._quic.g_fin)",
              "implies(is_instance(event, 'StreamDataReceived') and some(" + _SD + ".stream_id) in self._stream_readers, not self._stream_readers[some(" + _SD + ".stream_id)].g_eof)"],
    raises={},
    modifies=["self._stream_readers", "StreamReader.g_data[*]", "StreamReader.g_eof[*]"],
    check_frame=True,
    loops={0: dict(
        invariant=[
            "0 <= _i0 <= len(_seq0)",
            "forall(lambda k: implies(0 <= k < _i0, elem(_seq0, k).g_eof))",
            "forall(lambda r: same(r.g_data, old(r.g_data)) and implies(old(r.g_eof), r.g_eof), types={'r': 'StreamReader'})",
            "forall(lambda r: implies(r.g_eof and not old(r.g_eof), exists(lambda k: 0 <= k < _i0 and elem(_seq0, k) == r)), types={'r': 'StreamReader'})",
        ],
        modifies=["StreamReader.g_eof[*]"],
    )},
    ensures=[
        "implies(not sd_, same(SR(self), old(SR(self))))",
        "implies(not sd_ and not tm_, forall(lambda r: reader_untouched(r), types={'r': 'StreamReader'}))",
        "implies(tm_, forall(lambda t: implies(t in SR(self), SR(self)[t].g_eof)) and forall(lambda r: same(r.g_data, old(r.g_data)), types={'r': 'StreamReader'}))",
        "implies(sd_, s_ in SR(self) and readers_same_but(self, s_))",
        "implies(sd_ and had_, SR(self)[s_] == old(SR(self))[s_] and same(SR(self)[s_].g_data, old(SR(self)[s_].g_data) + %s.data))" % _SD,
        "implies(sd_ and not had_, forall(lambda t: implies(t in old(SR(self)), old(SR(self))[t] != SR(self)[s_])) and bytes_eq(SR(self)[s_].g_data, %s.data))" % _SD,
        "implies(sd_, SR(self)[s_].g_eof == %s.end_stream)" % _SD,
        "implies(sd_, forall(lambda r: implies(r != SR(self)[s_], reader_untouched(r)), types={'r': 'StreamReader'}))",
    ],
    prop=["C19"],
)

# ------------------------------------------------------------------------------------------------ _process_events
# Loop invariant = the class invariant RELATIVE TO the event in hand: `event` has been handed out by next_event() (the
# ghost flags of the layer below already count it) but is not processed yet.
R.spec(
    """
def hs_before(p, event):
    return p._quic.g_hs and not ev_is_hs(event)

def term_before(p, event):
    return p._quic.g_term and not ev_is_term(event)

def w_live_ev(p, event):
    return implies(p._connected_waiter is not None, not hs_before(p, event) and not term_before(p, event)) and forall(lambda u: implies(u in PW(p), not term_before(p, event) and (u in p._quic.g_pings or (ev_is_pack(event) and cast(some(event), 'PingAcknowledged').uid == u))))

def closed_ev(p, event):
    return implies(p._closed.g_set, p._quic.g_term) and implies(term_before(p, event), p._closed.g_set)

def cb_ev(p, event):
    return p.g_cb_iss == p._quic.g_n_iss - ite(ev_is_iss(event), 1, 0) and p.g_cb_ret == p._quic.g_n_ret - ite(ev_is_ret(event), 1, 0) and p.g_cb_term == p._quic.g_n_term - ite(ev_is_term(event), 1, 0)

def r_ok_ev(p, event):
    return forall(lambda s, t: implies(s in p._stream_readers and t in p._stream_readers and s != t, p._stream_readers[s] != p._stream_readers[t])) and forall(lambda t: implies(t in p._stream_readers and p._stream_readers[t].g_eof, p._quic.g_term or (t in p._quic.g_fin and not (ev_is_sd(event) and ev_sid(event) == t)))) and implies(ev_is_sd(event), not p._quic.g_term and (ev_sid(event) in p._quic.g_fin) == cast(some(event), 'StreamDataReceived').end_stream)

def fut_once():
    return forall(lambda f: implies(old(f.g_done), f.g_done and f.g_ok == old(f.g_ok)), types={'f': 'Future'})

def w_hist(p):
    return forall(lambda u: implies(u in PW(p), u in old(PW(p)) and PW(p)[u] == old(PW(p))[u])) and forall(lambda u: implies(u in old(PW(p)) and not (u in PW(p)), old(PW(p))[u].g_done)) and (p._connected_waiter is None or p._connected_waiter == old(p._connected_waiter)) and implies(old(p._connected_waiter) is not None and p._connected_waiter is None, some(old(p._connected_waiter)).g_done)
"""
)
_PE_INV = ["w_pending(self)", "w_distinct(self)", "r_ok_ev(self, event)", "w_live_ev(self, event)", "closed_ev(self, event)", "cb_ev(self, event)", "fut_once()", "w_hist(self)",
           "implies(ev_is_iss(event), bytes_eq(self._quic.g_last_cid, cast(some(event), 'ConnectionIdIssued').connection_id))",
           "implies(ev_is_ret(event), bytes_eq(self._quic.g_last_cid, cast(some(event), 'ConnectionIdRetired').connection_id))",
           "implies(ev_is_sd(event), cast(some(event), 'StreamDataReceived').stream_id is not None)",
           "implies(ev_is_term(event), self._quic.g_term) and implies(ev_is_hs(event), self._quic.g_hs)",
           "self._quic.g_drained == (event is None)"]
_PE_MOD = ["self._connected", "self._connected_waiter", "self._ping_waiters", "self._stream_readers", "self.g_cb_iss", "self.g_cb_ret", "self.g_cb_term",
           "QuicLayer.g_hs[*]", "QuicLayer.g_term[*]", "QuicLayer.g_pings[*]", "QuicLayer.g_drained[*]", "QuicLayer.g_n_iss[*]", "QuicLayer.g_n_ret[*]", "QuicLayer.g_n_term[*]", "QuicLayer.g_last_cid[*]", "QuicLayer.g_fin[*]",
           "Future.g_done[*]", "Future.g_ok[*]", "Event.g_set[*]", "StreamReader.g_data[*]", "StreamReader.g_eof[*]", "QuicServer._protocols[*]"]
R.contract(
    "QuicConnectionProtocol._process_events",
    # NOTHING escapes: InvalidStateError (a waiter completed twice), AssertionError (feed_data after feed_eof), KeyError,
    # AttributeError ... - every such raise site is an obligation
    raises={},
    modifies=_PE_MOD,
    check_frame=True,
    locals={"event": "Optional[QuicEvent]"},
    loops={
        0: dict(invariant=_PE_INV, modifies=_PE_MOD + ["event", "waiter"]),
        1: dict(
            invariant=[
                "0 <= _i1 <= len(_seq1)",
                "forall(lambda k: implies(_i1 <= k < len(_seq1), not elem(_seq1, k).g_done))",
                "forall(lambda j, k: implies(0 <= j < k < len(_seq1), elem(_seq1, j) != elem(_seq1, k)))",
                "forall(lambda k: implies(0 <= k < _i1, elem(_seq1, k).g_done))",
                "fut_once()",
                "forall(lambda u: implies(u in old(PW(self)) and not (u in PW(self)), old(PW(self))[u].g_done))",
                "implies(old(self._connected_waiter) is not None and self._connected_waiter is None, some(old(self._connected_waiter)).g_done)",
            ],
            modifies=["Future.g_done[*]", "Future.g_ok[*]", "waiter"],
        ),
    },
    ensures=[
        # every event of the connection has been processed
        "self._quic.g_drained",
        # EXACTLY ONCE: a future that was done at entry is not touched (and no InvalidStateError can escape: see raises);
        # a waiter leaves the protocol's structures only completed; no waiter is added here
        "fut_once()",
        "w_hist(self)",
    ],
    prop=["C19"],
)

# ------------------------------------------------------------------------------------------------ coroutines
# `async def` bodies are not modelled as coroutines; their SYNCHRONOUS stretch up to the first `await` runs to
# completion like a callback and is put under a block contract (the statements are extracted from the real function).
# ping(): a new, pending future is filed under a fresh uid, that uid is handed to send_ping, and the cycle runs
# asyncio.shield(f): a NEW outer future; cancelling the task that awaits it cancels the outer future only, never f (asyncio
# documentation) - so a waiter the protocol holds stays in the protocol's hands ("only the protocol touches the futures it
# created" is an obligation at every await: what is handed to the event loop is never a held waiter itself)
R.contract("asyncio.shield", trusted=True, params={"a0": "Future"}, returns="Future", allocates=True, note="asyncio.shield: returns a new future wrapping its argument")
_PING = dict(
    region={"anchor": "sync-stretch"},
    returns="Future",
    modifies=_PROTO_MOD,
    ensures=PINV + _TX_POST + [
        "result != waiter",
        "uid in PW(self) and PW(self)[uid] == waiter and not waiter.g_done",
        "uid in self._quic.g_pings",
        "forall(lambda u: implies(u != uid, (u in PW(self)) == (u in old(PW(self))) and implies(u in PW(self), PW(self)[u] == old(PW(self))[u])))",
        "not (uid in old(PW(self)))",
    ],
    prop=["C19"],
)
# (1) on a connection whose termination has not been reported: proved
R.contract("QuicConnectionProtocol.ping@sync", assume_pre=PINV + [_TRANSPORT_SET, "not self._quic.g_term"], **_PING)

# wait_connected(): `assert` no second waiter; an established connection returns at once; otherwise a new pending waiter
# is recorded.  (H) "not connected => neither HandshakeCompleted nor ConnectionTerminated was handed out" is ASSUMED
# here: it is what the #liveness variants below would establish, and it is REFUTED on the unchanged tree (finding).
_H_CONNECTED = "implies(not self._connected, not self._quic.g_hs and not self._quic.g_term)"
R.contract(
    "QuicConnectionProtocol.wait_connected@sync",
    region={"anchor": "sync-stretch"},
    assume_pre=PINV + [_H_CONNECTED],
    raises={"AssertionError": "self._connected_waiter is not None"},
    returns="Optional[Future]",
    modifies=["self._connected_waiter"],
    ensures=PINV + [
        # what is awaited is a shield around the waiter, never the waiter itself
        "implies(self._connected_waiter is not None, result is not None and some(result) != some(self._connected_waiter))",
        "implies(old(self._connected), self._connected_waiter is None)",
        "implies(not old(self._connected), self._connected_waiter is not None and not some(self._connected_waiter).g_done)",
        "same(PW(self), old(PW(self))) and self._connected == old(self._connected)",
    ],
    prop=["C19"],
)
R.contract(
    "QuicConnectionProtocol.create_stream@sync",
    region={"anchor": "sync-stretch"},
    params={"is_unidirectional": "bool"},
    returns="tuple[StreamReader,StreamWriter]",
    assume_pre=PINV,
    modifies=["self._stream_readers"],
    ensures=PINV + ["len(result[0].g_data) == 0 and not result[0].g_eof", "exists(lambda s: s in SR(self) and SR(self)[s] == result[0] and readers_same_but(self, s))"],
    prop=["C19"],
)

# ---------------------------------------------------------------------------------------- FINDING variants (#liveness)
# "every connect, ping and close waiter finishes": a waiter may only be filed while the event that completes it can still
# come.  The three contracts below state that for the calls made AFTER HandshakeCompleted / ConnectionTerminated was
# processed.  They are REFUTED on the unchanged tree (natively: tools/repro/c19_waiters_never_complete.py, recorded in
# known_findings.json) and hold with tools/fixes/c19_waiters_never_complete.patch.  Their hypotheses are quantifier-free
# on purpose, so that the refutation is a validated counter-model.
#  (a) processing HandshakeCompleted records the handshake even when nobody waits yet
R.contract(
    "QuicConnectionProtocol._process_events@dispatch#liveness",
    region={"anchor": "writes:_connected"},
    use_invariant=False,
    params={"event": "HandshakeCompleted"},
    assume_pre=["implies(self._connected_waiter is not None, not some(self._connected_waiter).g_done)"],
    modifies=["self._connected", "self._connected_waiter", "Future.g_done[*]", "Future.g_ok[*]"],
    ensures=["self._connected", "self._connected_waiter is None"],
    prop=["C19"],
)
#  (b) wait_connected() on a connection that terminated before the handshake completed fails with ConnectionError instead
#      of filing a waiter nobody completes; (c) the same for ping()
R.contract(
    "QuicConnectionProtocol.wait_connected@sync#liveness",
    region={"anchor": "sync-stretch"},
    use_invariant=False,
    assume_pre=["self._closed.g_set == self._quic.g_term", "implies(self._quic.g_hs, self._connected)"],
    raises={"AssertionError": "self._connected_waiter is not None", "ConnectionError": "self._connected_waiter is None and not self._connected and self._quic.g_term"},
    modifies=["self._connected_waiter"],
    ensures=["implies(self._connected_waiter is not None, not self._quic.g_hs and not self._quic.g_term)"],
    prop=["C19"],
)
R.contract(
    "QuicConnectionProtocol.ping@sync#liveness",
    region={"anchor": "sync-stretch"},
    use_invariant=False,
    assume_pre=["self._closed.g_set == self._quic.g_term"],
    raises={"ConnectionError": "self._quic.g_term"},
    # the obligation sits at the statement that creates the waiter (prefix verification: the rest of ping() is covered by ping@sync)
    cuts={"waiter = self._loop.create_future()": ["not self._quic.g_term"]},
    stop_at=["waiter = self._loop.create_future()"],
    prop=["C19"],
)

# ------------------------------------------------------------------------------------------------ QuicStreamAdapter
# the transport behind a StreamWriter: bytes written are appended, unchanged and in call order, to what the connection is
# asked to send on THIS stream (nothing on any other stream), and a transmit is pending afterwards (deferred with
# call_soon, scheduled once); write_eof() requests the end of the stream exactly once (later calls change nothing)
_SA_MOD = ["self._closing", "QuicLayer.g_dirty[*]", "QuicLayer.g_timer[*]", "QuicLayer.g_drained[*]", "QuicLayer.g_tx[*]", "QuicLayer.g_tx_fin[*]", "QuicConnectionProtocol._transmit_task[*]", "EventLoop.g_soon[*]"]
_SA_Q = "self.protocol._quic"
R.contract(
    "QuicStreamAdapter.write",
    params={"data": "bytes"},
    modifies=_SA_MOD,
    ensures=[
        "same(%s.g_tx[self.stream_id], old(%s.g_tx)[self.stream_id] + data)" % (_SA_Q, _SA_Q),
        "forall(lambda s: implies(s != self.stream_id, %s.g_tx[s] == old(%s.g_tx)[s]))" % (_SA_Q, _SA_Q),
        "same(%s.g_tx_fin, old(%s.g_tx_fin))" % (_SA_Q, _SA_Q),
        "self.protocol._transmit_task is not None and not some(self.protocol._transmit_task).g_cancelled",
        "self.stream_id == old(self.stream_id) and self.protocol == old(self.protocol) and self._closing == old(self._closing)",
    ],
    prop=["C19"],
)
R.contract(
    "QuicStreamAdapter.write_eof",
    modifies=_SA_MOD,
    ensures=[
        "self._closing",
        "implies(old(self._closing), same(%s.g_tx_fin, old(%s.g_tx_fin)) and %s.g_tx[self.stream_id] == old(%s.g_tx)[self.stream_id] and self.protocol._transmit_task == old(self.protocol._transmit_task))" % (_SA_Q, _SA_Q, _SA_Q, _SA_Q),
        "implies(not old(self._closing), self.stream_id in %s.g_tx_fin and bytes_eq(%s.g_tx[self.stream_id], old(%s.g_tx)[self.stream_id]) and self.protocol._transmit_task is not None)" % (_SA_Q, _SA_Q, _SA_Q),
        "forall(lambda s: implies(s != self.stream_id, %s.g_tx[s] == old(%s.g_tx)[s] and (s in %s.g_tx_fin) == (s in old(%s.g_tx_fin))))" % (_SA_Q, _SA_Q, _SA_Q, _SA_Q),
    ],
    prop=["C19"],
)
R.contract("QuicStreamAdapter.close", modifies=_SA_MOD, ensures=["self._closing", "implies(not old(self._closing), self.stream_id in %s.g_tx_fin)" % _SA_Q], prop=["C19"])

# ===================================================================================================== server.py
# QuicServer._protocols: dict[bytes, QuicConnectionProtocol] - the routing table (keys identified by VALUE: bkey ids).
# Clauses quantify over key ids c with has_key(table, c) / val_at(table, c).
R.field_types(
    "QuicServer",
    _protocols="dict[bytes,QuicConnectionProtocol]",
    _configuration="QuicConfiguration",
    _create_protocol="Callable",
    _retry="Optional[QuicRetryTokenHandler]",
    _transport="Optional[DatagramTransport]",
    _loop="EventLoop",
    _stream_handler="Optional[Callable]",
    _session_ticket_fetcher="Any",
    _session_ticket_handler="Any",
)
R.spec(
    """
def RT(s):
    return s._protocols

def rt_same_but(s, c0):
    return forall(lambda c: implies(c != c0, has_key(RT(s), c) == has_key(old(RT(s)), c) and implies(has_key(RT(s), c), val_at(RT(s), c) == val_at(old(RT(s)), c))))
"""
)
_SRV = dict(params={"cid": "bytes", "protocol": "QuicConnectionProtocol"}, modifies=["self._protocols"], check_frame=True, prop=["C19"])
# issued: exactly the entry cid -> protocol is added (replacing what was filed under cid); every other entry is unchanged
R.contract("QuicServer._connection_id_issued", ensures=["cid in RT(self) and RT(self)[cid] == protocol", "rt_same_but(self, bkey(cid))"], **_SRV)
# retired: exactly the entry cid is removed - and it must have pointed at this protocol (AssertionError otherwise, KeyError
# when there is no such entry: neither happens for events of a connection created by this server, see PROPS lemma)
R.contract(
    "QuicServer._connection_id_retired",
    raises={"KeyError": "cid not in self._protocols", "AssertionError": "cid in self._protocols and self._protocols[cid] != protocol"},
    on_raise={"KeyError": ["same(RT(self), old(RT(self)))"], "AssertionError": ["same(RT(self), old(RT(self)))"]},
    ensures=["cid not in RT(self)", "rt_same_but(self, bkey(cid))"],
    **_SRV,
)
# terminated: NO key is mapped to the protocol afterwards; every entry of another protocol is unchanged; nothing is added
R.contract(
    "QuicServer._connection_terminated",
    params={"protocol": "QuicConnectionProtocol"},
    modifies=["self._protocols"],
    check_frame=True,
    # the loop runs over a COPY of the items (list(...): snapshot enumeration of the table at entry, ghost maps
    # _seq0_kid: position -> key id, _seq0_pos: key id -> position) and deletes from the table itself
    loops={0: dict(
        invariant=[
            "0 <= _i0 <= len(_seq0)",
            "forall(lambda c: implies(has_key(RT(self), c), has_key(old(RT(self)), c) and val_at(RT(self), c) == val_at(old(RT(self)), c)))",
            "forall(lambda c: implies(has_key(old(RT(self)), c) and val_at(old(RT(self)), c) != protocol, has_key(RT(self), c)))",
            "forall(lambda c: implies(has_key(old(RT(self)), c) and val_at(old(RT(self)), c) == protocol, has_key(RT(self), c) == (_seq0_pos[c] >= _i0)))",
        ],
        modifies=["self._protocols"],
    )},
    ensures=[
        "forall(lambda c: implies(has_key(RT(self), c), val_at(RT(self), c) != protocol))",
        "forall(lambda c: implies(has_key(old(RT(self)), c) and val_at(old(RT(self)), c) != protocol, has_key(RT(self), c) and val_at(RT(self), c) == val_at(old(RT(self)), c)))",
        "forall(lambda c: implies(has_key(RT(self), c), has_key(old(RT(self)), c)))",
    ],
    prop=["C19"],
)
R.contract("QuicServer.connection_made", params={"transport": "DatagramTransport"}, modifies=["self._transport"], check_frame=True,
           ensures=["self._transport is not None and some(self._transport) == transport"], prop=["C19"])

# ------------------------------------------------------------------------------------------------ QuicServer.datagram_received
R.field_types("QuicConfiguration", supported_versions="list[int]", connection_id_length="int")
R.field_types("QuicConnection", host_cid="bytes", _original_destination_connection_id="bytes", _retry_source_connection_id="Optional[bytes]")
# ghost: datagrams handed to this protocol so far, and the last one
R.field_types("QuicConnectionProtocol", g_rx="int", g_rx_last="bytes")
R.consts.setdefault("ALLOC_FRESH", set()).update({"QuicConnectionProtocol", "QuicConnection"})
# the QuicConnection constructor (layer below): for a server it asserts that an original destination connection ID is
# given (an obligation at the call site); the remaining assertions concern the configuration object (server role,
# certificate and key present, max_datagram_size >= 1200), which is serve()'s precondition
R.contract(
    "QuicConnection.__init__",
    params={"configuration": "QuicConfiguration", "original_destination_connection_id": "Optional[bytes]", "retry_source_connection_id": "Optional[bytes]",
            "session_ticket_fetcher": "Any", "session_ticket_handler": "Any", "token_handler": "Any"},
    requires=["original_destination_connection_id is not None"],
    ensures=["bytes_eq(self._original_destination_connection_id, some(original_destination_connection_id))",
             "(self._retry_source_connection_id is None) == (retry_source_connection_id is None)",
             "implies(retry_source_connection_id is not None, bytes_eq(some(self._retry_source_connection_id), some(retry_source_connection_id)))"],
    trusted=True,
    note="QuicConnection constructor, the layer below the adapter: trusted summary (stores the two connection IDs it is given; host_cid is a fresh random ID)",
)
# the protocol factory (QuicConnectionProtocol itself or the application's subclass / factory): returns a NEW protocol
# object for the given connection, in its initial state
R.contract(
    "QuicServer._create_protocol",
    callback=True, trusted=True, allocates=True,
    params={"a0": "QuicConnection", "stream_handler": "Any"},
    returns="QuicConnectionProtocol",
    ensures=["result._transport is None", "result._timer is None and result._transmit_task is None and result._connected_waiter is None"],
    note="create_protocol callable given to serve(): QuicConnectionProtocol or a subclass / factory with the same behaviour; returns a new protocol object",
)

R.spec(
    """
def tok_valid(s, addr, token):
    return rsa_ok(some(s._retry)._key, bkey(token)) and tok_wf(rsa_dec(some(s._retry)._key, bkey(token))) and tok_addr_is(rsa_dec(some(s._retry)._key, bkey(token)), addr)

def rt_unchanged(s):
    return forall(lambda c: has_key(RT(s), c) == has_key(old(RT(s)), c) and implies(has_key(RT(s), c), val_at(RT(s), c) == val_at(old(RT(s)), c)))
"""
)
_DG_CUT = [
    # (1) KNOWN destination connection ID: the datagram goes to exactly the protocol filed under it; nothing is created,
    #     the table is unchanged
    "implies(header.destination_cid in old(RT(self)), protocol is not None and some(protocol) == old(RT(self))[header.destination_cid] and rt_unchanged(self))",
    # (2) unknown ID and nothing created: dropped, table unchanged
    "implies(not (header.destination_cid in old(RT(self))) and protocol is None, rt_unchanged(self))",
    # (3) a protocol is CREATED only for an Initial-sized Initial packet of a supported version and, with address
    #     validation on, only when the token opens under this server's key to the encoding of THIS source address
    "implies(not (header.destination_cid in old(RT(self))) and protocol is not None, len(data) >= 1200 and header.packet_type == QuicPacketType.INITIAL and header.version is not None and some(header.version) in self._configuration.supported_versions)",
    "implies(not (header.destination_cid in old(RT(self))) and protocol is not None and self._retry is not None, len(header.token) > 0 and tok_valid(self, addr, header.token))",
    # (4) what creation adds: the new protocol (filed nowhere before) under the datagram's destination ID and under the
    #     new connection's own ID; every other entry unchanged
    "implies(not (header.destination_cid in old(RT(self))) and protocol is not None, forall(lambda c: implies(has_key(old(RT(self)), c), val_at(old(RT(self)), c) != some(protocol))))",
    "implies(not (header.destination_cid in old(RT(self))) and protocol is not None, header.destination_cid in RT(self) and RT(self)[header.destination_cid] == some(protocol) and connection.host_cid in RT(self) and RT(self)[connection.host_cid] == some(protocol))",
    "implies(not (header.destination_cid in old(RT(self))) and protocol is not None, forall(lambda c: implies(c != bkey(header.destination_cid) and c != bkey(connection.host_cid), has_key(RT(self), c) == has_key(old(RT(self)), c) and implies(has_key(RT(self), c), val_at(RT(self), c) == val_at(old(RT(self)), c)))))",
    # (5) the new protocol is wired to this server: transport, and the three routing callbacks bound to it
    "implies(not (header.destination_cid in old(RT(self))) and protocol is not None, some(protocol)._transport == self._transport and some(protocol)._connection_id_issued_handler == partial_of('QuicServer._connection_id_issued', self, some(protocol)) and some(protocol)._connection_id_retired_handler == partial_of('QuicServer._connection_id_retired', self, some(protocol)) and some(protocol)._connection_terminated_handler == partial_of('QuicServer._connection_terminated', self, some(protocol)))",
    # (6) the IDs the new connection authenticates in its transport parameters: without address validation the
    #     datagram's destination ID; with it the two IDs sealed in the token
    "implies(not (header.destination_cid in old(RT(self))) and protocol is not None and self._retry is None, bytes_eq(connection._original_destination_connection_id, header.destination_cid) and connection._retry_source_connection_id is None)",
    "implies(not (header.destination_cid in old(RT(self))) and protocol is not None and self._retry is not None, tok_f1_is(rsa_dec(some(self._retry)._key, bkey(header.token)), connection._original_destination_connection_id) and connection._retry_source_connection_id is not None and tok_f2_is(rsa_dec(some(self._retry)._key, bkey(header.token)), some(connection._retry_source_connection_id)))",
    # the server itself has sent nothing on the paths that reach the hand-off
    "some(self._transport).g_n == old(some(self._transport).g_n)",
]
R.contract(
    "QuicServer.datagram_received",
    params={"data": "bytes", "addr": _ADDR},
    # asyncio calls connection_made() first; addr is what the OS reports for a UDP datagram: a numeric host and a port
    assume_pre=["self._transport is not None", "0 <= addr[1] < 65536", "ip_literal(addr[0])",
                # the versions of a QuicConfiguration are 32-bit numbers (QuicProtocolVersion constants)
                "forall(lambda k: implies(0 <= k < len(self._configuration.supported_versions), 0 <= elem(self._configuration.supported_versions, k) < 4294967296))",
                "0 <= self._configuration.connection_id_length <= 20"],
    raises={"MemoryError": None},
    modifies=_PROTO_MOD + ["self._protocols", "QuicConnectionProtocol.g_rx[*]", "QuicConnectionProtocol.g_rx_last[*]", "QuicConnectionProtocol._transport[*]",
                           "QuicConnectionProtocol._connection_id_issued_handler[*]", "QuicConnectionProtocol._connection_id_retired_handler[*]", "QuicConnectionProtocol._connection_terminated_handler[*]"],
    locals={"g_handed": "bool", "protocol": "Optional[QuicConnectionProtocol]"},
    ghost_at={"buf = Buffer(data=data)": {"g_handed": "False"}, "protocol.datagram_received(data, addr)": {"g_handed": "True"}},
    cuts={"if protocol is not None:": _DG_CUT},
    ensures=[
        # not handed to a protocol (unparseable, version negotiation, Retry sent, token refused, unknown ID): no routing
        # entry changes and no protocol receives anything
        "implies(not g_handed, rt_unchanged(self) and forall(lambda p: p.g_rx == old(p.g_rx), types={'p': 'QuicConnectionProtocol'}))",
        # handed to exactly one protocol (the one established at the cut), with the datagram unchanged
        "implies(g_handed, protocol is not None and some(protocol).g_rx == old(some(protocol).g_rx) + 1 and bytes_eq(some(protocol).g_rx_last, data) and forall(lambda p: implies(p != some(protocol), p.g_rx == old(p.g_rx)), types={'p': 'QuicConnectionProtocol'}))",
    ],
    prop=["C19"],
)

# QuicServer.close() (`for protocol in set(self._protocols.values())`: a set of objects built from a dict view) is outside
# the engine's subset and is NOT under contract.
