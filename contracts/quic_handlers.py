"""Delivery handlers and the probe callback: what the recovery layer's OPAQUE_CALL assumption says about them, as contracts.

contracts/quic_recovery.py verifies on_ack_received / _on_packets_lost / on_loss_detection_timeout against an ASSUMED
summary of the callables they run (R.consts["OPAQUE_CALL"]): they do not raise and do not write the loss-recovery state.
This file turns that summary into obligations on the real callables:

  * every handler gets (or, for the five that already had one, keeps) a contract with `frame=True` (SMT frame
    obligations: no field of a pre-existing object outside `modifies` is written) and an exact `raises`;
  * `handlers::delivery` (engine/handlerframe.py) enumerates, from the CURRENT source, every callable that can end up in
    QuicSentPacket.delivery_handlers (the `handler=` arguments of QuicPacketBuilder.start_frame calls; start_frame is the
    only writer of that list) and the `send_probe=` argument of the QuicPacketRecovery constructor, resolves each to its
    definition and contract, and checks that the contract's `modifies` names no preserved location and its `raises` is
    empty or guarded by a stated caller precondition.
"""
R.field_types("Limit", sent="int")
R.field_types("QuicStream", max_stream_data_local_sent="int")
R.field_types("QuicConnection", _handshake_done_pending="bool", _probe_pending="bool", _ping_pending="list[int]")

# MAX_DATA / MAX_STREAMS lost: the limit is announced again (sent := 0); acknowledged: nothing happens
R.contract(
    "QuicConnection._on_connection_limit_delivery",
    modifies=["limit.sent"],
    raises={},
    ensures=[
        "implies(delivery != QuicDeliveryState.ACKED, limit.sent == 0)",
        "implies(delivery == QuicDeliveryState.ACKED, limit.sent == old(limit.sent))",
        "limit.value == old(limit.value) and limit.used == old(limit.used)",
    ],
    frame=True,
    prop=["C08", "C07"],
)

# HANDSHAKE_DONE lost: sent again
R.contract(
    "QuicConnection._on_handshake_done_delivery",
    modifies=["self._handshake_done_pending"],
    raises={},
    ensures=[
        "implies(delivery != QuicDeliveryState.ACKED, self._handshake_done_pending)",
        "implies(delivery == QuicDeliveryState.ACKED, self._handshake_done_pending == old(self._handshake_done_pending))",
    ],
    frame=True,
    prop=["C08"],
)

# MAX_STREAM_DATA lost: the stream's limit is announced again
R.contract(
    "QuicConnection._on_max_stream_data_delivery",
    modifies=["stream.max_stream_data_local_sent"],
    raises={},
    ensures=[
        "implies(delivery != QuicDeliveryState.ACKED, stream.max_stream_data_local_sent == 0)",
        "implies(delivery == QuicDeliveryState.ACKED, stream.max_stream_data_local_sent == old(stream.max_stream_data_local_sent))",
        "stream.max_stream_data_local == old(stream.max_stream_data_local)",
    ],
    frame=True,
    prop=["C08", "C07"],
)

# STOP_SENDING lost: sent again
R.contract(
    "QuicStreamReceiver.on_stop_sending_delivery",
    modifies=["self.stop_pending"],
    raises={},
    ensures=[
        "implies(delivery != QuicDeliveryState.ACKED, self.stop_pending)",
        "implies(delivery == QuicDeliveryState.ACKED, self.stop_pending == old(self.stop_pending))",
    ],
    frame=True,
    prop=["C08", "C10"],
)

# loss-detection timer fired with nothing to retransmit: a PING probe is scheduled
R.contract(
    "QuicConnection._send_probe",
    modifies=["self._probe_pending"],
    raises={},
    ensures=["self._probe_pending"],
    frame=True,
    prop=["C08", "C09"],
)

# PING acknowledged: one PingAcknowledged event per uid, in order; lost: the uids are queued again (a probe PING has none)
R.contract(
    "QuicConnection._on_ping_delivery",
    params={"uids": "list[int]"},
    modifies=["self._events", "self._ping_pending"],
    raises={},
    loops={0: dict(
        invariant=["0 <= _i0 <= len(uids)", "len(self._events) == old(len(self._events)) + _i0",
                   "forall(lambda k: implies(0 <= k < old(len(self._events)), at(self._events, k) == old(at(self._events, k))))",
                   "same(self._ping_pending, old(self._ping_pending))"],
        modifies=["self._events"],
    )},
    ensures=[
        "implies(delivery == QuicDeliveryState.ACKED, len(self._events) == old(len(self._events)) + len(uids) and same(self._ping_pending, old(self._ping_pending)))",
        "implies(delivery != QuicDeliveryState.ACKED, same(self._events, old(self._events)) and len(self._ping_pending) == old(len(self._ping_pending)) + len(uids))",
        "forall(lambda k: implies(0 <= k < old(len(self._events)), at(self._events, k) == old(at(self._events, k))))",
    ],
    frame=True,
    prop=["C08", "C19"],
)

R.consts["HANDLER_FRAME"] = dict(
    # calls whose `handler` argument (keyword, or 3rd positional) registers a delivery handler, and the only function
    # allowed to write QuicSentPacket.delivery_handlers
    registrar="start_frame",
    registrar_def="quic/packet_builder.py::QuicPacketBuilder.start_frame",
    handlers_field="delivery_handlers",
    # constructor keyword that hands the probe callback to the recovery layer
    probe_kw=("QuicPacketRecovery", "send_probe"),
    # receiver expression of the bound method -> class that defines it
    receivers={
        "self": "quic/connection.py::QuicConnection",
        "stream.sender": "quic/stream.py::QuicStreamSender",
        "stream.receiver": "quic/stream.py::QuicStreamReceiver",
    },
    # handlers that may raise only when a stated precondition on the REGISTERED arguments is broken (caller discipline of
    # the frame writer that registers them; listed among the assumptions of the evidence)
    guarded_raises={
        "QuicStreamSender.on_data_delivery": (["AssertionError"], "AssertionError only when fin is registered with a stop that is not the stream's final offset (the STREAM frame writer registers (frame.offset, frame.offset + len(frame.data), frame.fin) of the frame get_frame returned)"),
    },
)


# ---------------------------------------------------------------------------------------------- initial state of a packet space
# REC_INIT, packet-space half (was assumed): a new QuicPacketSpace tracks nothing, so its ledger terms are zero and space_ok
# holds - the base case of the induction over the call history for C08 (c)/(f).  (QuicPacketRecovery.__init__ itself stays
# outside: create_congestion_control goes through a module-level factory dict.)
# (a contract VARIANT: the plain key is declared `inline` in quic_noraise.py - callers execute the constructor body)
R.contract(
    "QuicPacketSpace.__init__#init_state",
    ensures=[
        "forall(lambda pn: pn not in self.sent_packets)",
        "self.ack_eliciting_in_flight == 0 and self.g_flight == 0 and self.g_ae == 0",
        "space_ok(self)",
        "self.loss_time is None and self.largest_acked_packet == 0 and not self.discarded",
    ],
    prop=["C08"],
)
