# Sidecar contracts for src/aioquic/quic/recovery.py  (R is injected by the loader)
#
# C08: the in-flight ledger of QuicPacketRecovery.
#
# Ghost state
#   QuicPacketSpace.g_flight  = SUM over the packets p tracked in space.sent_packets of (p.sent_bytes if p.in_flight else 0)
#   QuicPacketSpace.g_ae      = number of tracked packets that are ack-eliciting
#       both are ENGINE-maintained (R.dict_sum): pyvc updates them at every store / del / pop / clear of the dict, so they
#       equal the mathematical sums by construction; they are not written by this file.
#   QuicPacketRecovery.g_total = sum of g_flight over the spaces; updated (ghost_at) next to each map mutation, and every
#       contract states `g_total - space.g_flight` unchanged, i.e. g_total moves exactly with the one space that is touched.
#   QuicSentPacket.g_acked / g_lost = how many times the packet's delivery handlers were run with ACKED / LOST.
#
# Ledger invariant (class invariant of QuicPacketRecovery, proved at the exit of every method below):
#       self._cc.bytes_in_flight == self.g_total
# Per-space invariant space_ok(space) (required and re-established by every operation on a space):
#   every tracked packet is stored under its own packet number, has sent_bytes >= 0, a send time, has not been
#   reported (g_acked == g_lost == 0) and is owned by this space;  g_flight >= 0;  ack_eliciting_in_flight == g_ae.

R.type_aliases["QuicDeliveryHandler"] = "Callable"
R.field_types(
    "QuicSentPacket",
    packet_number="int",
    is_ack_eliciting="bool",
    is_crypto_packet="bool",
    delivery_handlers="list[tuple[Callable, Any]]",
)
R.ghost_field("QuicSentPacket", "g_acked", "int")
R.ghost_field("QuicSentPacket", "g_lost", "int")
# the packet space whose sent_packets map the packet was registered in (None: never registered).  Set once by
# on_packet_sent, which requires None: a packet object is registered at most once, in one space, under one number.
R.ghost_field("QuicSentPacket", "g_owner", "Optional[QuicPacketSpace]")
R.field_types(
    "QuicPacketSpace",
    ack_at="Optional[float]",
    ack_eliciting_in_flight="int",
    largest_acked_packet="int",
    loss_time="Optional[float]",
    sent_packets="dict[int,QuicSentPacket]",
)
R.field_types(
    "QuicPacketRecovery",
    _cc="QuicCongestionControl",
    _pacer="QuicPacketPacer",
    spaces="list[QuicPacketSpace]",
    max_ack_delay="float",
    _rtt_initial="float",
    _rtt_initialized="bool",
    _rtt_latest="float",
    _rtt_min="float",
    _rtt_smoothed="float",
    _rtt_variance="float",
    _pto_count="int",
    _time_of_last_sent_ack_eliciting_packet="float",
    _send_probe="Callable",
    _quic_logger="Optional[QuicLoggerTrace]",
    _logger="Optional[Any]",
    peer_completed_address_validation="bool",
)
R.ghost_field("QuicPacketRecovery", "g_total", "int")
R.field_types("QuicPacketPacer", _max_datagram_size="int", bucket_max="float", bucket_time="float", evaluation_time="float", packet_time="Optional[float]")

R.spec(
    """
def fsize(p):
    return p.sent_bytes if p.in_flight else 0

def ae1(p):
    return 1 if p.is_ack_eliciting else 0

def tracked(space, p):
    return p.packet_number in space.sent_packets and space.sent_packets[p.packet_number] == p

def tracked_ok(space):
    return forall(lambda pn: implies(pn in space.sent_packets,
        space.sent_packets[pn].packet_number == pn and space.sent_packets[pn].sent_bytes >= 0
        and space.sent_packets[pn].sent_time is not None
        and space.sent_packets[pn].g_acked == 0 and space.sent_packets[pn].g_lost == 0
        and space.sent_packets[pn].g_owner == space))

def all_spaces_ok(rec):
    return forall(lambda k: implies(0 <= k < len(rec.spaces), space_ok(at(rec.spaces, k))))

def space_ok(space):
    return tracked_ok(space) and space.g_flight >= 0 and space.ack_eliciting_in_flight == space.g_ae
"""
)
R.dict_sum("QuicPacketSpace", "sent_packets", "g_flight", "fsize", "QuicSentPacket")
R.dict_sum("QuicPacketSpace", "sent_packets", "g_ae", "ae1", "QuicSentPacket")

R.invariant("QuicPacketRecovery", ["self._cc.bytes_in_flight == self.g_total"])

# Delivery handlers and the probe callback are opaque callables.  SUMMARY used at their call sites - since the handler
# table (contracts/quic_handlers.py, engine/handlerframe.py, qual handlers::delivery) no longer an assumption but a
# consequence of the verified contracts of every callable the current source can register: they neither raise nor touch the loss-recovery state listed here - the sent-packet maps and counters
# of the packet spaces, the QuicSentPacket records, the congestion controller, the pacer and the recovery object's own
# fields.  (The handlers registered by connection.py / stream.py update stream send buffers, ack queues, flow-control
# and connection-id bookkeeping; none of them references QuicPacketRecovery, a congestion controller or sent_packets.)
R.consts["OPAQUE_CALL"] = dict(
    note="(summary justified by handlers::delivery + the handlers' frame contracts in C08, see there for the residual precondition of on_data_delivery) delivery handlers / send_probe do not raise and do not modify QuicPacketSpace.{sent_packets, ack_eliciting_in_flight, loss_time, largest_acked_packet}, any QuicSentPacket field, the congestion controller, the pacer or QuicPacketRecovery's fields; everything else is havocked",
    preserves=[
        "QuicPacketSpace.sent_packets", "QuicPacketSpace.ack_eliciting_in_flight", "QuicPacketSpace.loss_time", "QuicPacketSpace.largest_acked_packet",
        "QuicPacketSpace.g_flight", "QuicPacketSpace.g_ae",
        "QuicSentPacket.in_flight", "QuicSentPacket.is_ack_eliciting", "QuicSentPacket.is_crypto_packet", "QuicSentPacket.packet_number",
        "QuicSentPacket.packet_type", "QuicSentPacket.sent_time", "QuicSentPacket.sent_bytes", "QuicSentPacket.delivery_handlers",
        "QuicSentPacket.g_acked", "QuicSentPacket.g_lost", "QuicSentPacket.g_owner",
        "QuicCongestionControl.bytes_in_flight", "QuicCongestionControl.congestion_window", "QuicCongestionControl.ssthresh",
        "QuicPacketRecovery._cc", "QuicPacketRecovery._pacer", "QuicPacketRecovery.spaces", "QuicPacketRecovery.g_total",
        "QuicPacketRecovery.max_ack_delay", "QuicPacketRecovery._rtt_initial", "QuicPacketRecovery._rtt_initialized", "QuicPacketRecovery._rtt_latest",
        "QuicPacketRecovery._rtt_min", "QuicPacketRecovery._rtt_smoothed", "QuicPacketRecovery._rtt_variance", "QuicPacketRecovery._pto_count",
        "QuicPacketRecovery._time_of_last_sent_ack_eliciting_packet", "QuicPacketRecovery._send_probe", "QuicPacketRecovery._quic_logger", "QuicPacketRecovery._logger",
        "QuicPacketRecovery.peer_completed_address_validation",
        "QuicPacketPacer._max_datagram_size", "QuicPacketPacer.bucket_max", "QuicPacketPacer.bucket_time", "QuicPacketPacer.evaluation_time", "QuicPacketPacer.packet_time",
    ],
)

# qlog / logging: trusted stubs (outside the property; they receive copies of numbers and strings)
for _m, _ret in (("log_event", None), ("packet_type", "str"), ("encode_time", "float")):
    R.contract("QuicLoggerTrace." + _m, trusted=True, returns=_ret, note="qlog call: assumed total and without effect on protocol state")
R.contract(
    "QuicPacketRecovery._log_metrics_updated",
    trusted=True,
    use_invariant=False,  # called in the middle of _on_packets_lost, where the ledger is being updated
    modifies=[],
    note="qlog only: reads cwnd / bytes_in_flight / RTT values into a dict and hands it to the logger",
)

# ---------------------------------------------------------------------------------------------- pacer
R.contract(
    "QuicPacketPacer.update_rate",
    requires=["congestion_window > 0"],
    modifies=["self.packet_time", "self.bucket_max", "self.bucket_time"],
    # never divides by zero (no escape) and leaves a usable pacing state
    ensures=["self.packet_time is not None and 0.000001 <= self.packet_time <= 1.0", "self.bucket_time <= self.bucket_max"],
    check_frame=True,
    prop=["C08"],
)

_CC = ["self._cc.bytes_in_flight", "self._cc.congestion_window", "self._cc.ssthresh"]

# ---------------------------------------------------------------------------------------------- on_packet_sent
# requires: the number is new in this space (the builder numbers packets strictly increasingly - C13) and the packet
# has never been reported.
R.contract(
    "QuicPacketRecovery.on_packet_sent",
    requires=[
        "space_ok(space)",
        "packet.packet_number not in space.sent_packets",
        "packet.sent_bytes >= 0",
        "packet.sent_time is not None",
        "packet.g_acked == 0 and packet.g_lost == 0",
        "packet.g_owner is None",
    ],
    ghost_at={"space.sent_packets[packet.packet_number] = packet": {"self.g_total": "self.g_total + fsize(packet)", "packet.g_owner": "space"}},
    modifies=["packet.g_owner", "space.sent_packets", "space.g_flight", "space.g_ae", "space.ack_eliciting_in_flight", "self.g_total", "self._time_of_last_sent_ack_eliciting_packet"] + _CC,
    ensures=[
        "space_ok(space)",
        "forall(lambda pn: (pn in space.sent_packets) == (pn in old(space.sent_packets) or pn == packet.packet_number))",
        "space.sent_packets[packet.packet_number] == packet",
        "forall(lambda pn: implies(pn in old(space.sent_packets), space.sent_packets[pn] == old(space.sent_packets)[pn]))",
        "space.g_flight == old(space.g_flight) + fsize(packet)",
        "self.g_total - space.g_flight == old(self.g_total - space.g_flight)",
        "space.ack_eliciting_in_flight == old(space.ack_eliciting_in_flight) + ae1(packet)",
        "self._cc.bytes_in_flight == old(self._cc.bytes_in_flight) + fsize(packet)",
    ],
    check_frame=True,
    prop=["C08"],
)

# ---------------------------------------------------------------------------------------------- _on_packets_lost
# requires: every packet handed in is tracked in `space` under its own number, numbers pairwise distinct.
# ensures: EVERY one of them is removed from the map (in flight or not), nothing else is removed or changed, each is
# reported LOST exactly once (and no other packet is reported), the ledger and the ack-eliciting count follow.
_LOST_INV = [
    "tracked_ok(space)",
    "space.g_flight >= 0 and space.ack_eliciting_in_flight == space.g_ae",
    "forall(lambda pn: implies(pn in space.sent_packets, pn in old(space.sent_packets) and space.sent_packets[pn] == old(space.sent_packets)[pn]))",
    "forall(lambda p: p.g_acked == old(p.g_acked), types={'p': 'QuicSentPacket'})",
    "forall(lambda p: implies(not (p.packet_number in old(space.sent_packets) and old(space.sent_packets)[p.packet_number] == p and p.packet_number not in space.sent_packets), p.g_lost == old(p.g_lost)), types={'p': 'QuicSentPacket'})",
    "self.g_total - space.g_flight == old(self.g_total - space.g_flight)",
]
R.contract(
    "QuicPacketRecovery._on_packets_lost",
    params={"packets": "list[QuicSentPacket]"},
    locals={"lost_packets_cc": "list[QuicSentPacket]"},
    requires=[
        "space_ok(space)",
        "forall(lambda k: implies(0 <= k < len(packets), tracked(space, packets[k])))",
        "forall(lambda j, k: implies(0 <= j < k < len(packets), packets[j].packet_number != packets[k].packet_number))",
    ],
    ghost_at={
        "lost_packets_cc = []": {"g_ps": "amap(lambda k: 0)", "g_gone": "amap(lambda k: False)", "g_wit": "amap(lambda k: 0)"},
        "del space.sent_packets[packet.packet_number]": {
            "self.g_total": "self.g_total - fsize(packet)",
            "g_gone[packet.packet_number]": "True",
            "g_wit[packet.packet_number]": "_i0 - 1",
        },
        "lost_packets_cc.append(packet)": {"g_ps[len(lost_packets_cc) + 1]": "g_ps[len(lost_packets_cc)] + packet.sent_bytes"},
        "for handler, args in packet.delivery_handlers:": {"packet.g_lost": "packet.g_lost + 1"},
    },
    ghost_args={"QuicCongestionControl.on_packets_lost": {"ps": "g_ps"}},
    modifies=["space.sent_packets", "space.g_flight", "space.g_ae", "space.ack_eliciting_in_flight", "self.g_total", "QuicSentPacket.g_lost[*]",
              "self._pacer.packet_time", "self._pacer.bucket_max", "self._pacer.bucket_time", "<opaque>"] + _CC,
    loops={
        0: dict(
            modifies=["g_ps", "g_gone", "g_wit", "self.g_total", "space.g_flight", "space.g_ae", "QuicSentPacket.g_lost[*]", "<opaque>"],
            invariant=[
                "0 <= _i0 <= len(packets)",
                "self._cc.bytes_in_flight == old(self._cc.bytes_in_flight)",
            ] + _LOST_INV + [
                "forall(lambda pn: (pn in space.sent_packets) == (pn in old(space.sent_packets) and not g_gone[pn]))",
                "forall(lambda k: implies(0 <= k < _i0, g_gone[packets[k].packet_number]))",
                "forall(lambda pn: implies(g_gone[pn], 0 <= g_wit[pn] < _i0 and at(packets, g_wit[pn]).packet_number == pn))",
                "forall(lambda k: implies(0 <= k < _i0, packets[k].g_lost == 1 and packets[k].g_acked == 0))",
                "g_ps[0] == 0",
                "forall(lambda k: implies(1 <= k <= len(lost_packets_cc), g_ps[k] == g_ps[k - 1] + at(lost_packets_cc, k - 1).sent_bytes), pattern=g_ps[k])",
                "forall(lambda k: implies(0 <= k < len(lost_packets_cc), lost_packets_cc[k].sent_time is not None))",
                "old(self.g_total) - self.g_total == g_ps[len(lost_packets_cc)]",
            ],
        ),
        1: dict(modifies=["<opaque>"], invariant=["0 <= _i1 <= len(packet.delivery_handlers)"]),
    },
    ensures=[
        "space.g_flight >= 0 and space.ack_eliciting_in_flight == space.g_ae and tracked_ok(space)",
        "forall(lambda k: implies(0 <= k < len(packets), packets[k].packet_number not in space.sent_packets))",
        "forall(lambda pn: implies(pn in old(space.sent_packets) and pn not in space.sent_packets, exists(lambda k: 0 <= k < len(packets) and at(packets, k).packet_number == pn)))",
        "forall(lambda k: implies(0 <= k < len(packets), packets[k].g_lost == 1 and packets[k].g_acked == 0))",
    ] + _LOST_INV[2:],
    check_frame=True,
    prop=["C08"],
)

_LOST_MOD = ["space.sent_packets", "space.g_flight", "space.g_ae", "space.ack_eliciting_in_flight", "self.g_total", "QuicSentPacket.g_lost[*]",
             "self._pacer.packet_time", "self._pacer.bucket_max", "self._pacer.bucket_time", "<opaque>"] + _CC
# what every loss-declaring operation guarantees about one space (besides the class invariant bytes_in_flight == g_total):
_LOSS_POST = [
    "space_ok(space)",
    # packets are only removed, never added or replaced
    "forall(lambda pn: implies(pn in space.sent_packets, pn in old(space.sent_packets) and space.sent_packets[pn] == old(space.sent_packets)[pn]))",
    # every removed packet has been reported LOST exactly once and never ACKED
    "forall(lambda pn: implies(pn in old(space.sent_packets) and pn not in space.sent_packets, old(space.sent_packets)[pn].g_lost == 1 and old(space.sent_packets)[pn].g_acked == 0))",
    # no other packet has been reported
    "forall(lambda p: p.g_acked == old(p.g_acked), types={'p': 'QuicSentPacket'})",
    "forall(lambda p: implies(not (p.packet_number in old(space.sent_packets) and old(space.sent_packets)[p.packet_number] == p and p.packet_number not in space.sent_packets), p.g_lost == old(p.g_lost)), types={'p': 'QuicSentPacket'})",
    # the ghost total moves with this space only
    "self.g_total - space.g_flight == old(self.g_total - space.g_flight)",
]

# ---------------------------------------------------------------------------------------------- _detect_loss
# The enumeration order of sent_packets.items() is left arbitrary (dictiter.py), so the `break` proves nothing about
# WHICH packets are examined; what is decided is that whatever is declared lost is tracked, distinct, not newer than
# the largest acknowledged number, and goes through _on_packets_lost exactly once.
R.contract(
    "QuicPacketRecovery._detect_loss",
    locals={"lost_packets": "list[QuicSentPacket]"},
    requires=["space_ok(space)"],
    ghost_at={
        "lost_packets = []": {"g_src": "amap(lambda k: 0)"},
        "lost_packets.append(packet)": {"g_src[len(lost_packets)]": "_i0 - 1"},
    },
    modifies=["space.loss_time"] + _LOST_MOD,
    loops={
        0: dict(
            modifies=["g_src"],
            invariant=[
                "0 <= _i0 <= len(_seq0)",
                "forall(lambda k: implies(0 <= k < len(lost_packets), 0 <= g_src[k] < _i0 and at(lost_packets, k).packet_number == at(_seq0_keys, g_src[k]) and tracked(space, at(lost_packets, k)) and at(lost_packets, k).packet_number <= space.largest_acked_packet))",
                "forall(lambda j, k: implies(0 <= j < k < len(lost_packets), g_src[j] < g_src[k]))",
            ],
        )
    },
    ensures=_LOSS_POST + [
        "forall(lambda pn: implies(pn in old(space.sent_packets) and pn > space.largest_acked_packet, pn in space.sent_packets))",
        "space.largest_acked_packet == old(space.largest_acked_packet)",
    ],
    check_frame=True,
    prop=["C08"],
)

# ---------------------------------------------------------------------------------------------- RangeSet.__contains__
R.contract(
    "RangeSet.__contains__",
    params={"val": "int"},
    returns="bool",
    ensures=["result == self.gview[val]", "same(RL(self), old(RL(self)))"],
    loops={0: dict(invariant=["0 <= _i0 <= len(RL(self))", "forall(lambda k: implies(0 <= k < _i0, not (RL(self)[k].start <= val < RL(self)[k].stop)))"])},
    check_frame=True,
    prop=["C08"],
)

# ---------------------------------------------------------------------------------------------- on_ack_received
# For ANY acknowledged range set (numbers never sent, numbers acknowledged before, numbers beyond anything sent):
# exactly the tracked packets whose number is in the set are removed and reported ACKED once; loss detection may then
# remove further packets, each reported LOST once; nothing else is reported; the ledger follows.
# ack_rangeset is a fresh object built by the frame parser for this call: the delivery handlers cannot reach it
# (opaque_keeps, recorded as an assumption).
_ACK_INV = [
    "tracked_ok(space)",
    "space.g_flight >= 0",
    "space.ack_eliciting_in_flight == space.g_ae",
    "self._cc.bytes_in_flight == self.g_total",
    "self.g_total - space.g_flight == old(self.g_total - space.g_flight)",
    "forall(lambda pn: implies(pn in space.sent_packets, pn in old(space.sent_packets) and space.sent_packets[pn] == old(space.sent_packets)[pn]))",
    "forall(lambda p: p.g_lost == old(p.g_lost), types={'p': 'QuicSentPacket'})",
    "forall(lambda p: implies(not (p.packet_number in old(space.sent_packets) and old(space.sent_packets)[p.packet_number] == p and p.packet_number not in space.sent_packets), p.g_acked == old(p.g_acked)), types={'p': 'QuicSentPacket'})",
    "forall(lambda pn: implies(pn in old(space.sent_packets) and pn not in space.sent_packets, old(space.sent_packets)[pn].g_acked == 1 and old(space.sent_packets)[pn].g_lost == 0))",
]
R.contract(
    "QuicPacketRecovery.on_ack_received",
    locals={"largest_newly_acked": "Optional[int]", "largest_sent_time": "Optional[float]"},
    opaque_keeps=["ack_rangeset"],
    requires=["space_ok(space)", "len(RL(ack_rangeset)) > 0"],
    ghost_at={
        "for packet_number in sorted(space.sent_packets.keys()):": {"g_gone": "amap(lambda k: False)"},
        "packet = space.sent_packets.pop(packet_number)": {
            "self.g_total": "self.g_total - fsize(space.sent_packets[packet_number])",
            "g_gone[packet_number]": "True",
        },
        "for handler, args in packet.delivery_handlers:": {"packet.g_acked": "packet.g_acked + 1"},
    },
    modifies=["space.largest_acked_packet", "space.loss_time", "self._rtt_initialized", "self._rtt_latest", "self._rtt_min", "self._rtt_smoothed", "self._rtt_variance",
              "self._pto_count", "QuicSentPacket.g_acked[*]"] + _LOST_MOD,
    loops={
        0: dict(
            modifies=["g_gone", "self.g_total", "space.g_flight", "space.g_ae", "QuicSentPacket.g_acked[*]", "<opaque>"] + _CC,
            invariant=[
                "0 <= _i0 <= len(_seq0)",
                "same(RL(ack_rangeset), old(RL(ack_rangeset))) and same(ack_rangeset.gview, old(ack_rangeset.gview)) and same(ack_rangeset.gidx, old(ack_rangeset.gidx))",
            ] + _ACK_INV + [
                "forall(lambda pn: (pn in space.sent_packets) == (pn in old(space.sent_packets) and not g_gone[pn]))",
                "forall(lambda pn: g_gone[pn] == (pn in old(space.sent_packets) and _seq0_pos[pn] < _i0 and ack_rangeset.gview[pn]))",
                "largest_newly_acked is None or largest_sent_time is not None",
            ],
        ),
        1: dict(modifies=["<opaque>"], invariant=["0 <= _i1 <= len(packet.delivery_handlers)"]),
    },
    ensures=[
        "space_ok(space)",
        "forall(lambda pn: implies(pn in space.sent_packets, pn in old(space.sent_packets) and space.sent_packets[pn] == old(space.sent_packets)[pn] and not ack_rangeset.gview[pn]))",
        # every packet removed by this call was reported exactly once: ACKED iff its number is in the acknowledged set, LOST otherwise
        "forall(lambda pn: implies(pn in old(space.sent_packets) and pn not in space.sent_packets, old(space.sent_packets)[pn].g_acked + old(space.sent_packets)[pn].g_lost == 1 and (old(space.sent_packets)[pn].g_acked == 1) == ack_rangeset.gview[pn]))",
        # and no other packet was reported
        "forall(lambda p: implies(not (p.packet_number in old(space.sent_packets) and old(space.sent_packets)[p.packet_number] == p and p.packet_number not in space.sent_packets), p.g_acked == old(p.g_acked) and p.g_lost == old(p.g_lost)), types={'p': 'QuicSentPacket'})",
        "self.g_total - space.g_flight == old(self.g_total - space.g_flight)",
        "space.largest_acked_packet >= old(space.largest_acked_packet)",
    ],
    check_frame=True,
    prop=["C08"],
)

# ---------------------------------------------------------------------------------------------- _get_loss_space
R.contract(
    "QuicPacketRecovery._get_loss_space",
    locals={"loss_space": "Optional[QuicPacketSpace]"},
    returns="Optional[QuicPacketSpace]",
    use_invariant=False,
    ghost_at={"loss_space = None": {"g_k": "0"}, "loss_space = space": {"g_k": "_i0 - 1"}},
    modifies=[],
    loops={0: dict(modifies=["g_k"], invariant=["0 <= _i0 <= len(self.spaces)", "loss_space is None or (0 <= g_k < _i0 and at(self.spaces, g_k) == loss_space and loss_space.loss_time is not None)"])},
    ensures=["result is None or exists(lambda k: 0 <= k < len(self.spaces) and at(self.spaces, k) == result)"],
    check_frame=True,
    prop=["C08"],
)

# ---------------------------------------------------------------------------------------------- multi-space operations
_ALL_MOD = ["QuicPacketSpace.sent_packets[*]", "QuicPacketSpace.g_flight[*]", "QuicPacketSpace.g_ae[*]", "QuicPacketSpace.ack_eliciting_in_flight[*]",
            "self.g_total", "QuicSentPacket.g_lost[*]", "self._pacer.packet_time", "self._pacer.bucket_max", "self._pacer.bucket_time", "<opaque>"] + _CC
_ALL_POST = [
    "all_spaces_ok(self)",
    "forall(lambda p: p.g_acked == old(p.g_acked), types={'p': 'QuicSentPacket'})",
    # a packet is reported LOST at most once, and only if it had not been reported before
    "forall(lambda p: implies(p.g_lost != old(p.g_lost), old(p.g_lost) == 0 and p.g_lost == 1 and p.g_acked == 0), types={'p': 'QuicSentPacket'})",
]
# PTO: every outstanding CRYPTO packet of every space is declared lost (re-queued), then one probe is requested.
R.contract(
    "QuicPacketRecovery.reschedule_data",
    requires=["all_spaces_ok(self)"],
    ghost_args={"QuicPacketRecovery._on_packets_lost": {}},
    modifies=list(_ALL_MOD),
    loops={0: dict(modifies=["QuicPacketSpace.sent_packets[*]", "QuicPacketSpace.g_flight[*]", "QuicPacketSpace.g_ae[*]", "QuicPacketSpace.ack_eliciting_in_flight[*]",
                             "self.g_total", "QuicSentPacket.g_lost[*]", "self._pacer.packet_time", "self._pacer.bucket_max", "self._pacer.bucket_time", "<opaque>"] + _CC,
                   invariant=["0 <= _i0 <= len(self.spaces)", "self._cc.bytes_in_flight == self.g_total"] + _ALL_POST)},
    ensures=list(_ALL_POST),
    check_frame=True,
    prop=["C08"],
)
R.contract(
    "QuicPacketRecovery.on_loss_detection_timeout",
    requires=["all_spaces_ok(self)"],
    modifies=["self._pto_count", "QuicPacketSpace.loss_time[*]"] + _ALL_MOD,
    ensures=list(_ALL_POST),
    check_frame=True,
    prop=["C08"],
)

# ---------------------------------------------------------------------------------------------- discard_space
# Dropping a packet number space with packets still in flight: ALL of its in-flight bytes leave the ledger (the sum
# g_flight over the map, tied by the engine to the filtered enumeration handed to on_packets_expired), the map is
# emptied, no delivery handler runs.
R.contract(
    "QuicPacketRecovery.discard_space",
    requires=["space_ok(space)"],
    raises={"AssertionError": "not (space in self.spaces)"},
    ghost_at={"space.sent_packets.clear()": {"self.g_total": "self.g_total - space.g_flight"}},
    ghost_args={"QuicCongestionControl.on_packets_expired": {"ps": "_flt0_fps_g_flight"}},
    modifies=["space.sent_packets", "space.g_flight", "space.g_ae", "space.ack_eliciting_in_flight", "space.ack_at", "space.loss_time", "self.g_total", "self._pto_count"] + _CC,
    ensures=[
        "space_ok(space)",
        "forall(lambda pn: pn not in space.sent_packets)",
        "space.g_flight == 0 and space.ack_eliciting_in_flight == 0 and space.loss_time is None and space.ack_at is None",
        "self._cc.bytes_in_flight == old(self._cc.bytes_in_flight) - old(space.g_flight)",
        "self.g_total - space.g_flight == old(self.g_total - space.g_flight)",
        "self._cc.congestion_window == old(self._cc.congestion_window)",
    ],
    check_frame=True,
    prop=["C08"],
)
