# Sidecar contracts for src/aioquic/quic/packet_builder.py (+ the C13 parts of connection.py)   (R is injected)
#
# PROPERTY C13 - datagram emission respects size, padding and anti-amplification rules.
#
# Ghost state of QuicPacketBuilder (history variables; none is read by the code):
#   g_mds    the max_datagram_size the builder was constructed with
#   g_out    total length of all datagrams ever appended to _datagrams
#   g_need   the datagram under assembly contains an emitted Initial packet that the property requires padding for
#            (client: any Initial; server: an ack-eliciting Initial)
#   g_pn0, g_emitted   first packet number, number of packets emitted so far
#   g_ovr    an emitted packet was longer than its datagram budget (_buffer_capacity) - see CANDIDATE D2 below; once this
#            flag is set the budget clauses are no longer claimed (they are all stated under `not self.g_ovr`)

R.type_aliases["QuicDeliveryHandler"] = "Callable"

R.field_types(
    "QuicSentPacket",
    delivery_handlers="list[tuple[Callable, Any]]",  # (handler, argument sequence): same declaration as contracts/quic_recovery.py
    quic_logger_frames="list[Any]",
    sent_time="Optional[float]",
)
R.field_types(
    "QuicPacketBuilder",
    quic_logger_frames="Optional[list[Any]]",
    _datagrams="list[bytes]",
    _packets="list[QuicSentPacket]",
    _packet="Optional[QuicSentPacket]",
    _packet_crypto="Optional[CryptoPair]",
    _packet_type="Optional[QuicPacketType]",
    _quic_logger="Optional[QuicLoggerTrace]",
    _buffer="Buffer",
)
for _g, _t in (("g_mds", "int"), ("g_out", "int"), ("g_need", "bool"), ("g_pn0", "int"), ("g_emitted", "int"), ("g_ovr", "bool")):
    R.ghost_field("QuicPacketBuilder", _g, _t)
R.field_types("CryptoPair", aead_tag_size="int")


R.spec(
    """
def ack_eliciting_frame(ft):
    # RFC 9000 section 13.2.1 / 1.2: every frame other than ACK (0x02, 0x03), PADDING (0x00) and CONNECTION_CLOSE (0x1c, 0x1d)
    return not (ft == 0 or ft == 2 or ft == 3 or ft == 28 or ft == 29)

def in_flight_frame(ft):
    # RFC 9002 section 2: packets are in flight when they are ack-eliciting or contain a PADDING frame
    return not (ft == 2 or ft == 3 or ft == 28 or ft == 29)

def dg_last(b):
    return at(b._datagrams, len(b._datagrams) - 1)

def pb_payload(b):
    return b._buffer.g_pos - b._packet_start - b._header_size

def pb_long_header_size(b):
    return 11 + len(b._peer_cid) + len(b._host_cid)

def pb_needs_padding(b, p):
    # C13 sentence 2: a client datagram containing an Initial packet, a server datagram containing an ack-eliciting Initial
    return p.packet_type == QuicPacketType.INITIAL and (b._is_client or p.is_ack_eliciting)
"""
)

# ---- class invariant, part 1: never broken (not even by the overrun D2)
PB_HARD = [
    "self._buffer.g_cap == self.g_mds and self.g_mds <= 1500",
    "self._buffer_capacity <= self.g_mds",
    "self._flight_capacity <= self._buffer_capacity",
    # C08 'builder flight budget': once a datagram is under assembly its in-flight capacity is what is left of the congestion
    # budget handed to the builder (max_flight_bytes, possibly already exceeded: then nothing that counts as in flight fits)
    "implies(not self._datagram_init and self.max_flight_bytes is not None, self._flight_capacity <= some(self.max_flight_bytes) - self._flight_bytes)",
    # accounting: _total_bytes is the number of bytes of all datagrams produced so far
    "self._total_bytes == self.g_out and self.g_out >= 0",
    "implies(self._datagram_init, self._buffer.g_pos == 0 and not self.g_need)",
    "implies(self.g_need, self._buffer.g_pos > 0 and implies(self._packet is not None, self._packet_start > 0))",
    # C13 sentence 1 for the datagrams assembled so far
    "forall(lambda k: implies(0 <= k < len(self._datagrams), len(at(self._datagrams, k)) <= self.g_mds))",
    # header fields fit their encodings (established by __init__'s preconditions)
    "0 <= self._version < 4294967296 and len(self._peer_cid) < 256 and len(self._host_cid) < 256 and len(self._peer_token) < 4611686018427387904",
    "0 <= self._packet_number",
    "implies(self._packet is not None, self._packet_crypto is not None and self._packet_type is not None)",
    "implies(self._packet is not None, some(self._packet).packet_number == self._packet_number and some(self._packet).packet_type == some(self._packet_type))",
    "implies(self._packet is not None, some(self._packet_type) == QuicPacketType.INITIAL or some(self._packet_type) == QuicPacketType.HANDSHAKE or some(self._packet_type) == QuicPacketType.ZERO_RTT or some(self._packet_type) == QuicPacketType.ONE_RTT)",
    "implies(self._packet is not None, 0 <= self._packet_start and 3 <= self._header_size and self._packet_start + self._header_size < self._buffer_capacity)",
    "implies(self._packet is not None, self._header_size == ite(some(self._packet_type) == QuicPacketType.ONE_RTT, 3 + len(self._peer_cid), pb_long_header_size(self) + ite(some(self._packet_type) == QuicPacketType.INITIAL, varint_size(len(self._peer_token)) + len(self._peer_token), 0)))",
    # CryptoPair.aead_tag_size is assigned once, in CryptoPair.__init__ (= 16); start_packet requires it of its argument
    "implies(self._packet_crypto is not None, some(self._packet_crypto).aead_tag_size == 16)",
]
# packet numbers: consecutive, one per emitted packet (not part of the helper contract of _flush_current_datagram, which
# is called from inside _end_packet between recording the packet and advancing the number, and touches neither)
PB_PN = [
    "self._packet_number == self.g_pn0 + self.g_emitted and self.g_emitted >= 0",
    "forall(lambda k: implies(0 <= k < len(self._packets), at(self._packets, k).packet_number == self._packet_number - len(self._packets) + k))",
]
# the datagram under assembly is marked for padding whenever the property demands padding for it
# (soft: an exception escaping _end_packet after an overrun can leave a 1-RTT datagram unmarked)
PB_NEED = "self.g_ovr or implies(self.g_need, self._datagram_needs_padding)"
# ... the form that also holds inside _end_packet between the in-packet padding of a 1-RTT packet and the flush
PB_NEED_WEAK = "self.g_ovr or implies(self.g_need, self._datagram_needs_padding or self._buffer.g_pos >= self._flight_capacity)"

# ---- class invariant, part 2: budgets; claimed as long as no overrun (D2) has happened
PB_SOFT_DGRAM = [
    "self.g_ovr or self._buffer.g_pos <= max(self._buffer_capacity, 0)",
    # C13 sentence 3 at builder level: with max_total_bytes set, all datagrams produced stay within it ...
    "self.g_ovr or implies(self.max_total_bytes is not None, self.g_out <= max(some(self.max_total_bytes), 0))",
    # ... including the datagram under assembly, whose capacity was clipped to the remaining budget
    "self.g_ovr or implies(self.max_total_bytes is not None and not self._datagram_init, self.g_out + max(self._buffer_capacity, 0) <= max(some(self.max_total_bytes), 0))",
]
PB_SOFT_PACKET = [
    "implies(self._packet is not None, not self._datagram_init)",
    "self.g_ovr or implies(self._packet is not None, self._packet_start <= self._buffer.g_pos)",
    # discipline of start_frame and the frame writers: a non-empty packet leaves room for the AEAD tag
    "self.g_ovr or implies(self._packet is not None and pb_payload(self) > 0, self._buffer.g_pos + 16 <= self._buffer_capacity)",
]
R.invariant("QuicPacketBuilder", PB_HARD + PB_PN + [PB_NEED] + PB_SOFT_DGRAM + PB_SOFT_PACKET)
# key phases are 0/1: CryptoContext.__init__ default 0, next_key_phase passes int(not key_phase), apply_key_phase copies
# (those three are not under contract here - see props not_decided)
R.invariant("CryptoPair", ["self.recv.key_phase == 0 or self.recv.key_phase == 1"])

# ---- callees outside the class
# first byte of a long header: header form and fixed bit set, two type bits, the low two bits = packet-number length - 1
R.contract(
    "encode_long_header_first_byte",
    returns="int",
    requires=["0 <= bits < 4"],
    raises={"KeyError": "packet_type != QuicPacketType.INITIAL and packet_type != QuicPacketType.ZERO_RTT and packet_type != QuicPacketType.HANDSHAKE and packet_type != QuicPacketType.RETRY"},
    ensures=["192 <= result < 256", "result % 4 == bits", "(result // 4) % 4 == 0"],
    check_frame=True, check_frame_syntactic=True,
)
R.contract(
    "CryptoPair.key_phase",
    returns="int",
    ensures=["result == 0 or result == 1"],
)
# TRUSTED boundary to _crypto.c (AEAD.encrypt + HeaderProtection.apply), restating what engine/cwp proves on the C code
# (contracts/c_crypto.py) after the fixes fe0e03b: CryptoError exactly when the plaintext exceeds 1500 - 16 bytes, the
# header is empty / longer than 1500 / leaves no room, the packet-number offset is < 1, or the protected payload is
# shorter than 4 - pn_length + 16 (header-protection sample); otherwise header + payload + 16-byte tag.
# Not modelled: "OpenSSL call failed" CryptoErrors and the AssertionError when no send key is installed (the connection
# only builds packets for epochs whose send keys exist - not proved here).
R.contract(
    "CryptoPair.encrypt_packet",
    trusted=True,
    note="restates the cwp-proved C contracts of AEAD_encrypt and HeaderProtection_apply; assumes send keys are installed and OpenSSL does not fail",
    returns="bytes",
    let={"pnl": "at(plain_header, 0) % 4 + 1"},
    raises={
        "CryptoError": "len(plain_payload) > 1484 or len(plain_header) < 1 or len(plain_header) + len(plain_payload) + 16 > 1500 or len(plain_header) - pnl < 1 or len(plain_payload) < 4 - pnl"
    },
    modifies=["CryptoPair._update_key_requested[*]", "CryptoContext.key_phase[*]"],
    ensures=["len(result) == len(plain_header) + len(plain_payload) + 16"],
)

_BUF = ["self._buffer.g_pos", "self._buffer.g_mem"]

# ---------------------------------------------------------------------------------------------------- __init__
R.contract(
    "QuicPacketBuilder.__init__",
    requires=[
        # the crypto layer (_crypto.c PACKET_LENGTH_MAX) rejects packets above 1500 bytes with CryptoError, and the long-header
        # Length field is written as a 2-byte varint: the builder is verified for datagram sizes up to 1500 (connection.py
        # only checks max_datagram_size >= 1200 - see D4 in the report)
        "0 <= max_datagram_size <= 1500",
        # preconditions from the call sites in connection.py (QUIC versions are 32-bit, connection IDs at most 20 bytes)
        "0 <= version < 4294967296 and len(peer_cid) < 256 and len(host_cid) < 256 and len(peer_token) < 4611686018427387904",
        "0 <= packet_number",
    ],
    raises={"MemoryError": None},
    ghost_exit={"self.g_mds": "max_datagram_size", "self.g_out": "0", "self.g_need": "False", "self.g_pn0": "packet_number", "self.g_emitted": "0", "self.g_ovr": "False"},
    ensures=[
        "self.g_mds == max_datagram_size and self._buffer.g_cap == max_datagram_size",
        "self.max_total_bytes is None and self.max_flight_bytes is None",
        "self._packet_number == packet_number and len(self._datagrams) == 0 and len(self._packets) == 0",
        "self._datagram_init and self._packet is None and self.g_out == 0 and not self.g_ovr",
        "self._is_client == is_client",
    ],
)

# ---------------------------------------------------------------------------------------------------- properties
R.contract("QuicPacketBuilder.packet_number", returns="int", ensures=["result == self._packet_number"], check_frame=True, check_frame_syntactic=True)
R.contract(
    "QuicPacketBuilder.packet_is_empty",
    returns="bool",
    raises={"AssertionError": "self._packet is None"},
    ensures=["result == (pb_payload(self) <= 0)"],
    check_frame=True, check_frame_syntactic=True,
)
R.contract(
    "QuicPacketBuilder.remaining_buffer_space",
    returns="int",
    requires=["self._packet_crypto is not None"],
    ensures=["result == self._buffer_capacity - self._buffer.g_pos - 16"],
    check_frame=True, check_frame_syntactic=True,
)
R.contract(
    "QuicPacketBuilder.remaining_flight_space",
    returns="int",
    requires=["self._packet_crypto is not None"],
    ensures=["result == self._flight_capacity - self._buffer.g_pos - 16"],
    check_frame=True, check_frame_syntactic=True,
)

# ---------------------------------------------------------------------------------------------------- _flush_current_datagram
# Private helper, called with a packet closed (start_packet, flush) and from inside _end_packet (1-RTT), where the open-packet
# parts of the class invariant do not hold: it gets the datagram-level part of the invariant as explicit pre/postcondition.
_FLUSH_PRE = PB_HARD + [PB_NEED_WEAK] + PB_SOFT_DGRAM
_FLUSH_LET = {
    "emit": "self._buffer.g_pos > 0",
    "n0": "len(self._datagrams)",
}
_FLUSH_COMMON = dict(
    use_invariant=False,
    check_frame=True, check_frame_syntactic=True,
    let=_FLUSH_LET,
    requires=_FLUSH_PRE,
    ghost_at={
        # history variables, updated where the datagram is handed over
        "self._datagrams.append(self._buffer.data)": {"self.g_out": "self.g_out + self._buffer.g_pos"},
        "self._datagram_init = True": {"self.g_need": "False"},
    },
    cuts={
        # accounting (C13 sentence 3): the byte count about to be charged to _total_bytes is the length of the datagram
        # about to be handed over - trailing Initial padding included
        "self._datagrams.append(self._buffer.data)": ["datagram_bytes == self._buffer.g_pos"],
    },
    modifies=_BUF + ["self._datagrams", "self._flight_bytes", "self._total_bytes", "self._datagram_init", "self._datagram_flight_bytes", "self.g_out", "self.g_need"],
)
_FLUSH_POST = PB_HARD + PB_SOFT_DGRAM + [
    # exactly one datagram is handed over iff the buffer holds bytes; earlier datagrams are untouched
    "implies(old(emit), len(self._datagrams) == old(n0) + 1 and self.g_out == old(self.g_out) + len(dg_last(self)))",
    "implies(not old(emit), len(self._datagrams) == old(n0) and self.g_out == old(self.g_out) and self.g_need == old(self.g_need) and self._datagram_init == old(self._datagram_init))",
    "forall(lambda k: implies(0 <= k < old(n0), at(self._datagrams, k) == at(old(self._datagrams), k)))",
    # C13 sentence 1
    "implies(old(emit), len(dg_last(self)) <= self.g_mds)",
    "implies(old(emit), self._datagram_init and not self.g_need)",
    "self._buffer.g_pos == 0",
    "implies(old(emit), len(dg_last(self)) >= old(self._buffer.g_pos))",
    "self.g_ovr == old(self.g_ovr) and self._buffer_capacity == old(self._buffer_capacity) and self._flight_capacity == old(self._flight_capacity)",
]
R.contract(
    "QuicPacketBuilder._flush_current_datagram",
    ensures=_FLUSH_POST + [
        # C13 sentence 2 AS THE CODE ACHIEVES IT: a datagram that needs padding is at least 1200 bytes long OR fills the flight
        # capacity of the datagram (the congestion / amplification budget).  The unconditional clause of the property is
        # kept in the #rfc_padding variant below (CANDIDATE D1).
        "self.g_ovr or implies(old(emit) and old(self.g_need), len(dg_last(self)) >= min(1200, old(self._flight_capacity)))",
    ],
    **_FLUSH_COMMON,
)
# KNOWN CANDIDATE D1 (expected REFUTED on the unchanged tree): C13 sentence 2 as stated
R.contract(
    "QuicPacketBuilder._flush_current_datagram#rfc_padding",
    ensures=["self.g_ovr or implies(old(emit) and old(self.g_need), len(dg_last(self)) >= 1200)"],
    **_FLUSH_COMMON,
)

# ---------------------------------------------------------------------------------------------------- _end_packet
_END_LET = {
    "emitted": "pb_payload(self) > 0",
    "np0": "len(self._packets)",
    "nd0": "len(self._datagrams)",
    "pkt": "some(self._packet)",
    "is_1rtt": "some(self._packet_type) == QuicPacketType.ONE_RTT",
}
_END_COMMON = dict(
    check_frame=True, check_frame_syntactic=True,
    let=_END_LET,
    # the contracts cover the builder up to the first overrun (D2): afterwards nothing but the size bound is claimed
    requires=["self._packet is not None", "not self.g_ovr"],
    ghost_at={
        # D2 bookkeeping: the packet (plaintext + padding + 16-byte tag) does not fit the datagram budget
        "buf.push_bytes(bytes(padding_size))": {"self.g_ovr": "self.g_ovr or buf.g_pos + padding_size + 16 > self._buffer_capacity"},
        # history variables, updated where the packet is recorded as sent
        "self._packets.append(self._packet)": {
            "self.g_need": "self.g_need or pb_needs_padding(self, some(self._packet))",
        },
        "self._packet_number += 1": {"self.g_emitted": "self.g_emitted + 1"},
    },
    cuts={
        # C13 sentence 2: a packet for which the property demands a padded datagram (client: any Initial; server: an
        # ack-eliciting Initial) marks the datagram under assembly as needing padding
        "if self._datagram_needs_padding and self._packet_type == QuicPacketType.ONE_RTT:": [
            "implies(pb_needs_padding(self, some(self._packet)), self._datagram_needs_padding)"
        ],
    },
    modifies=_BUF
    + ["self._datagrams", "self._flight_bytes", "self._total_bytes", "self._datagram_init", "self._datagram_flight_bytes", "self.g_out", "self.g_need"]
    + ["self._datagram_needs_padding", "self._packets", "self._packet_number", "self._packet", "self.quic_logger_frames", "self.g_emitted", "self.g_ovr"]
    + ["QuicSentPacket.in_flight[*]", "QuicSentPacket.sent_bytes[*]", "QuicSentPacket.quic_logger_frames[*]", "CryptoPair._update_key_requested[*]", "CryptoContext.key_phase[*]"],
)
R.contract(
    "QuicPacketBuilder._end_packet",
    raises={"BufferWriteError": None, "CryptoError": None},
    on_raise={
        # an exception escapes only after an overrun (D2): BufferWriteError when the datagram budget is the whole buffer,
        # CryptoError when that is 1500 bytes
        "BufferWriteError": ["self.g_ovr"],
        "CryptoError": ["self.g_ovr"],
    },
    ensures=[
        "self._packet is None",
        # packet numbers: one per emitted packet, consecutive
        "implies(old(emitted), self._packet_number == old(self._packet_number) + 1 and len(self._packets) == old(np0) + 1 and at(self._packets, old(np0)) == old(pkt) and old(pkt).packet_number == old(self._packet_number))",
        "implies(not old(emitted), self._packet_number == old(self._packet_number) and len(self._packets) == old(np0) and len(self._datagrams) == old(nd0) and self._buffer.g_pos == old(self._packet_start))",
        # the list of sent packets only grows
        "forall(lambda k: implies(0 <= k < old(np0), at(self._packets, k) == at(old(self._packets), k)))",
        # the emitted packet with its 16-byte tag fits the datagram budget unless the overrun D2 happened
        "implies(old(emitted) and not self.g_ovr and not old(is_1rtt), self._buffer.g_pos <= self._buffer_capacity and old(pkt).sent_bytes == self._buffer.g_pos - old(self._packet_start))",
        # datagrams: at most one is handed over (exactly one for a 1-RTT packet), earlier ones untouched
        "len(self._datagrams) == old(nd0) + ite(old(emitted) and old(is_1rtt), 1, 0)",
        "forall(lambda k: implies(0 <= k < old(nd0), at(self._datagrams, k) == at(old(self._datagrams), k)))",
        # C13 sentence 2 (as the code achieves it, see _flush_current_datagram): an Initial packet marks its datagram
        "implies(old(emitted) and not old(is_1rtt), self.g_need == (old(self.g_need) or pb_needs_padding(self, old(pkt))))",
        "implies(old(emitted) and old(is_1rtt) and old(self.g_need), len(dg_last(self)) >= min(1200, self._flight_capacity))",
        "implies(not old(emitted), self.g_need == old(self.g_need))",
        "implies(old(self.g_ovr), self.g_ovr)",
        "self._buffer_capacity == old(self._buffer_capacity) and self._flight_capacity == old(self._flight_capacity)",
    ],
    **_END_COMMON,
)
# KNOWN CANDIDATE D2 (expected REFUTED on the unchanged tree): a packet never exceeds its datagram budget, so no
# BufferWriteError escapes and the amplification budget is respected to the byte
R.contract(
    "QuicPacketBuilder._end_packet#no_overrun",
    raises={"CryptoError": None},
    ensures=["self.g_ovr == old(self.g_ovr)"],
    # prefix verification: the clause sits at the padding statement; what follows it is covered by the main contract
    stop_at=["buf.push_bytes(bytes(padding_size))"],
    **dict(
        _END_COMMON,
        cuts=dict(
            _END_COMMON["cuts"],
            **{
                # the padded packet plus its 16-byte tag still fits the datagram budget (stated where the padding is
                # written, before any buffer content enters the path condition, so that the solver can produce a model)
                "buf.push_bytes(bytes(padding_size))": ["buf.g_pos + padding_size + 16 <= self._buffer_capacity"]
            }
        ),
    ),
)

# ---------------------------------------------------------------------------------------------------- start_frame
R.contract(
    "QuicPacketBuilder.start_frame",
    params={"handler": "Optional[Callable]", "handler_args": "Any"},
    returns="Buffer",
    check_frame=True, check_frame_syntactic=True,
    # from the call sites (connection.py _write_*_frame): a packet is open, the announced capacity covers the frame type
    requires=["self._packet is not None", "capacity >= 1", "0 <= frame_type <= 4611686018427387903 and varint_size(frame_type) <= capacity"],
    let={
        "rb": "self._buffer_capacity - self._buffer.g_pos - 16",
        "rf": "self._flight_capacity - self._buffer.g_pos - 16",
        "pkt": "some(self._packet)",
    },
    # refused exactly when the announced size (plus the AEAD tag) does not fit the datagram budget, or - for frames that
    # count as in flight - the congestion budget
    raises={"QuicPacketBuilderStop": "rb < capacity or (in_flight_frame(frame_type) and rf < capacity)"},
    on_raise={"QuicPacketBuilderStop": ["self._buffer.g_pos == old(self._buffer.g_pos)", "pkt.is_ack_eliciting == old(pkt.is_ack_eliciting) and pkt.in_flight == old(pkt.in_flight)",
                                        "len(pkt.delivery_handlers) == old(len(pkt.delivery_handlers))"]},
    modifies=_BUF + ["QuicSentPacket.is_ack_eliciting[*]", "QuicSentPacket.in_flight[*]", "QuicSentPacket.is_crypto_packet[*]", "QuicSentPacket.delivery_handlers[*]"],
    ensures=[
        "result == self._buffer",
        "self._buffer.g_pos == old(self._buffer.g_pos) + varint_size(frame_type)",
        # room for everything the caller announced, and for the tag
        "old(self._buffer.g_pos) + capacity + 16 <= self._buffer_capacity",
        # C13 sentence 2: 'ack-eliciting' is decided per frame type as in RFC 9000
        "pkt.is_ack_eliciting == (old(pkt.is_ack_eliciting) or ack_eliciting_frame(frame_type))",
        "pkt.in_flight == (old(pkt.in_flight) or in_flight_frame(frame_type))",
        "pkt.is_crypto_packet == (old(pkt.is_crypto_packet) or frame_type == 6)",
        "pkt.packet_number == old(pkt.packet_number) and pkt.packet_type == old(pkt.packet_type)",
        # C01/C18 "again after loss": the delivery handler the caller names is registered on the packet (exactly one entry
        # more), and no entry is registered when none is named
        "len(pkt.delivery_handlers) == old(len(pkt.delivery_handlers)) + (1 if handler is not None else 0)",
    ],
)

# ---------------------------------------------------------------------------------------------------- start_packet
_ALL_MOD = (
    _BUF
    + ["self._datagrams", "self._flight_bytes", "self._total_bytes", "self._datagram_init", "self._datagram_flight_bytes", "self.g_out", "self.g_need"]
    + ["self._datagram_needs_padding", "self._packets", "self._packet_number", "self._packet", "self.quic_logger_frames", "self.g_emitted", "self.g_ovr"]
    + ["QuicSentPacket.in_flight[*]", "QuicSentPacket.sent_bytes[*]", "QuicSentPacket.quic_logger_frames[*]", "CryptoPair._update_key_requested[*]", "CryptoContext.key_phase[*]"]
)
_ESC = {
    # see _end_packet: an exception escapes only after an overrun (D2)
    "BufferWriteError": ["self.g_ovr"],
    "CryptoError": ["self.g_ovr"],
}
R.contract(
    "QuicPacketBuilder.start_packet",
    check_frame=True, check_frame_syntactic=True,
    requires=["crypto.aead_tag_size == 16", "not self.g_ovr"],
    entry_ref_lists=["self._packets"],
    let={"was_emitted": "self._packet is not None and pb_payload(self) > 0"},
    raises={
        "AssertionError": "packet_type != QuicPacketType.INITIAL and packet_type != QuicPacketType.HANDSHAKE and packet_type != QuicPacketType.ZERO_RTT and packet_type != QuicPacketType.ONE_RTT",
        "QuicPacketBuilderStop": None,
        "BufferWriteError": None,
        "CryptoError": None,
    },
    on_raise=dict(_ESC, QuicPacketBuilderStop=["self._packet is None", "self.max_total_bytes == old(self.max_total_bytes)"], AssertionError=["self._buffer.g_pos == old(self._buffer.g_pos) and self.g_out == old(self.g_out)"]),
    modifies=_ALL_MOD + ["self._buffer_capacity", "self._flight_capacity", "self._header_size", "self._packet_crypto", "self._packet_start", "self._packet_type"],
    ensures=[
        "self._packet is not None and some(self._packet).packet_number == self._packet_number and some(self._packet).packet_type == packet_type",
        "not some(self._packet).is_ack_eliciting and not some(self._packet).in_flight and not some(self._packet).is_crypto_packet",
        "some(self._packet_crypto) == crypto and pb_payload(self) == 0",
        # packet numbers advance by exactly one per emitted packet
        "self._packet_number == old(self._packet_number) + ite(old(was_emitted), 1, 0)",
        # C13 sentence 3: the capacity of the datagram under assembly never exceeds what is left of max_total_bytes
        "self.g_ovr or implies(self.max_total_bytes is not None, self.g_out + max(self._buffer_capacity, 0) <= max(some(self.max_total_bytes), 0))",
        "self._buffer_capacity <= old(self._buffer_capacity)",
        "implies(old(self.g_ovr), self.g_ovr)",
    ],
)

# ---------------------------------------------------------------------------------------------------- flush
R.contract(
    "QuicPacketBuilder.flush",
    check_frame=True, check_frame_syntactic=True,
    returns="tuple[list[bytes], list[QuicSentPacket]]",
    requires=["not self.g_ovr"],
    raises={"BufferWriteError": None, "CryptoError": None},
    on_raise=_ESC,
    modifies=_ALL_MOD,
    ensures=[
        # C13 sentence 1: no datagram handed out is larger than max_datagram_size
        "forall(lambda k: implies(0 <= k < len(result[0]), len(at(result[0], k)) <= self.g_mds))",
        # C13 sentence 3 at builder level: everything produced so far stays within max_total_bytes
        "self.g_ovr or implies(self.max_total_bytes is not None, self.g_out <= max(some(self.max_total_bytes), 0))",
        # nothing is left behind
        "len(self._datagrams) == 0 and len(self._packets) == 0 and self._packet is None and self._buffer.g_pos == 0 and not self.g_need",
        # consecutive packet numbers
        "forall(lambda k: implies(0 <= k < len(result[1]), at(result[1], k).packet_number == self._packet_number - len(result[1]) + k))",
        "implies(old(self.g_ovr), self.g_ovr)",
    ],
)

# ---------------------------------------------------------------------------------------------------- connection.py
R.field_types("QuicNetworkPath", bytes_received="int", bytes_sent="int", is_validated="bool")
# C13 sentence 3, the helper: a send of `size` bytes is allowed exactly when the address is validated or the total stays
# within three times what was received from it
R.contract(
    "QuicNetworkPath.can_send",
    returns="bool",
    check_frame=True, check_frame_syntactic=True,
    ensures=["result == (self.is_validated or self.bytes_sent + size <= 3 * self.bytes_received)"],
)

R.field_types(
    "QuicConnection",
    _network_paths="list[QuicNetworkPath]",
    _close_pending="bool",
    _probe_pending="bool",
    _spin_bit="bool",
    _version="Optional[int]",
    _packet_number="int",
    _handshake_confirmed="bool",
    _peer_cid="QuicConnectionId",
    _quic_logger="Optional[QuicLoggerTrace]",
)
R.field_types("QuicPacketRecovery", _cc="QuicCongestionControl")
R.field_types("QuicCongestionControl", congestion_window="int", bytes_in_flight="int")
R.contract("QuicPacketRecovery.congestion_window", inline=True)
R.contract("QuicPacketRecovery.bytes_in_flight", inline=True)

# C13 sentence 3, the budget handed to the builder.  PREFIX verification (stop_at): proved for every path from the entry
# of datagrams_to_send to the `try:` block of the non-closing branch - the builder is fresh (nothing sent yet, no datagram
# begun) and, for EVERY unvalidated path - handshake confirmed or not - max_total_bytes is exactly 3 * received - sent.
# Nothing is claimed here about the frame writers, the registration loop, the bytes_sent loop or the close branch (D3).
R.contract(
    "QuicConnection.datagrams_to_send",
    params={"now": "float"},
    returns="list[tuple[bytes, Any]]",
    # connection invariants established by QuicConnection.__init__ / connect / receive_datagram, NOT re-proved here
    # (precedent: _handle_stream_frame): they are the preconditions of QuicPacketBuilder.__init__
    assume_pre=[
        "1200 <= self._max_datagram_size <= 1500",
        "self._version is not None and 0 <= some(self._version) < 4294967296",
        "len(self.host_cid) < 256 and len(self._peer_cid.cid) < 256 and len(self._peer_token) < 4611686018427387904",
        "0 <= self._packet_number",
    ],
    # C05 "afterwards the ... transmit ... calls keep returning normally": NO IndexError - a connection that has not accepted
    # a packet yet (a server whose first datagram was discarded) has no network path and sends nothing.  (The pinned tree
    # indexed _network_paths[0] unconditionally; an earlier version of this contract had copied that from the code as
    # raises={"IndexError": "len(self._network_paths) == 0"} - found by a round-3 mutation agent reading the code,
    # tools/repro/c05_transmit_without_network_path.py, repaired in /repo.)
    raises={"MemoryError": None},
    stop_at=["epoch_packet_types = []", "if not self._handshake_confirmed:#1"],
    cuts={
        "if not self._handshake_confirmed:#1": [
            "network_path == at(self._network_paths, 0)",
            "builder.g_out == 0 and builder._datagram_init and not builder.g_ovr and len(builder._datagrams) == 0",
            "implies(not network_path.is_validated, builder.max_total_bytes is not None and some(builder.max_total_bytes) == 3 * network_path.bytes_received - network_path.bytes_sent)",
            "implies(network_path.is_validated, builder.max_total_bytes is None)",
            "builder.g_mds == self._max_datagram_size",
        ]
    },
)


# ------------------------------------------------------------------------------------------------ anti-amplification limit placement (C13)
# C13 sentence 3 at connection level: EVERY packet datagrams_to_send builds - handshake, application AND closing packets -
# is started only after the statement that hands the builder what is left of the 3x budget of an unvalidated path.  (On the
# pinned tree that statement sat on the data branch only: the close branch sent its packets, an Initial one padded to 1200
# bytes, on top of an exhausted budget - candidate D3, tools/repro/c13_d3_close_ignores_amplification_limit.py; repaired in
# /repo 3fdba23.)  Decided on the control-flow structure (engine/dominance.py).
R.dominance(
    "datagrams_to_send.limit_before_packets",
    function="quic/connection.py::QuicConnection.datagrams_to_send",
    after="ifstmt:not network_path.is_validated",
    sites=["calls:start_packet", "calls:_write_handshake", "calls:_write_application", "calls:_write_connection_close_frame"],
    expect={"calls:start_packet": 1, "calls:_write_handshake": 1, "calls:_write_application": 1, "calls:_write_connection_close_frame": 1},
    prop=["C13"],
)
