# Sidecar contracts for src/aioquic/quic/connection.py  (R is injected by the loader)
#
# Receive-side limit enforcement (C07), send-side credit (C06), connection-ID lifecycle (C18).
# Invariants that QuicConnection.__init__ establishes but that are not re-proved here are stated as
# `assume_pre` (listed in evidence as assumed preconditions).

R.field_types(
    "QuicConnection",
    _is_client="bool",
    _ack_delay="float",
    _host_cids="list[QuicConnectionId]",
    host_cid="bytes",
    _local_initial_source_connection_id="bytes",
    _local_max_stream_data_bidi_local="int",
    _local_max_stream_data_bidi_remote="int",
    _local_max_stream_data_uni="int",
    _remote_max_stream_data_bidi_local="int",
    _remote_max_stream_data_bidi_remote="int",
    _remote_max_stream_data_uni="int",
    _local_next_stream_id_bidi="int",
    _local_next_stream_id_uni="int",
    _max_datagram_size="int",
    _peer_token="bytes",
    _events="list[QuicEvent]",
)
R.field_types("QuicNetworkPath", addr="Any")
R.field_types("QuicPacketSpace", largest_received_packet="int")
R.field_types("StreamDataReceived", data="bytes", end_stream="bool", stream_id="int")
R.type_aliases["NetworkAddress"] = "Any"
R.opaque_types.add("QuicEvent") if False else None

UINT_VAR_MAX = 0x3FFFFFFFFFFFFFFF

# qlog encoders: results are opaque JSON-ish values stored only in logger-owned lists (C20 territory)
for _m in (
    "encode_ack_frame encode_connection_close_frame encode_connection_limit_frame encode_crypto_frame encode_data_blocked_frame "
    "encode_datagram_frame encode_handshake_done_frame encode_max_stream_data_frame encode_new_connection_id_frame encode_new_token_frame "
    "encode_padding_frame encode_path_challenge_frame encode_path_response_frame encode_ping_frame encode_reset_stream_frame "
    "encode_retire_connection_id_frame encode_stream_data_blocked_frame encode_stop_sending_frame encode_stream_frame encode_streams_blocked_frame"
).split():
    R.contract("QuicLoggerTrace." + _m, trusted=True, returns="Any", note="qlog encoder: assumed total and side-effect free (not verified here)")

R.contract("stream_is_client_initiated", inline=True)
R.contract("stream_is_unidirectional", inline=True)
R.contract("QuicConnection._stream_can_receive", inline=True)
R.contract("QuicConnection._stream_can_send", inline=True)
R.contract("QuicConnection._assert_stream_can_receive", inline=True)
R.contract("QuicConnection._assert_stream_can_send", inline=True)
R.contract("QuicStream.__init__", inline=True)
R.contract("Limit.__init__", inline=True)

R.spec(
    """
def uni(sid):
    return (sid // 2) % 2 == 1

def client_initiated(sid):
    return sid % 2 == 0

def conn_limits_distinct(c):
    return c._local_max_data != c._local_max_streams_bidi and c._local_max_data != c._local_max_streams_uni and c._local_max_streams_bidi != c._local_max_streams_uni
"""
)

# C07: a stream id beyond the advertised stream-count limit is refused with STREAM_LIMIT_ERROR and only then
# (wrong-initiator ids with STREAM_STATE_ERROR); a new stream gets the advertised per-direction data limit.
R.contract(
    "QuicConnection._get_or_create_stream",
    requires=["stream_id >= 0"],
    assume_pre=["conn_limits_distinct(self)"],
    let={
        "lim": "self._local_max_streams_uni if uni(stream_id) else self._local_max_streams_bidi",
        "other": "self._local_max_streams_bidi if uni(stream_id) else self._local_max_streams_uni",
        "count": "stream_id // 4 + 1",
        "known": "stream_id in self._streams",
    },
    returns="QuicStream",
    raises={
        "StreamFinishedError": "stream_id in self._streams_finished",
        "QuicConnectionError": "stream_id not in self._streams_finished and not known and (client_initiated(stream_id) == self._is_client or count > lim.value)",
    },
    raise_attrs={"QuicConnectionError": {"error_code": "QuicErrorCode.STREAM_STATE_ERROR if client_initiated(stream_id) == self._is_client else QuicErrorCode.STREAM_LIMIT_ERROR"}},
    on_raise={
        "QuicConnectionError": [
            "exc_error_code == (QuicErrorCode.STREAM_STATE_ERROR if client_initiated(stream_id) == self._is_client else QuicErrorCode.STREAM_LIMIT_ERROR)",
            "lim.used == old(lim.used) and other.used == old(other.used)",
            "self._local_max_data.used == old(self._local_max_data.used) and self._local_max_data.value == old(self._local_max_data.value)",
        ],
        "StreamFinishedError": ["self._local_max_data.used == old(self._local_max_data.used) and self._local_max_data.value == old(self._local_max_data.value)"],
    },
    modifies=["self._streams", "self._streams_queue", "Limit.used[*]", "QuicStream.max_stream_data_local[*]", "QuicStream.max_stream_data_remote[*]", "QuicStream.max_stream_data_local_sent[*]", "QuicStream.receiver[*]", "QuicStream.sender[*]", "QuicStream.is_blocked[*]", "QuicStream.stream_id[*]", "QuicStreamReceiver.highest_offset[*]"],
    ensures=[
        "stream_id in self._streams and result == self._streams[stream_id]",
        "implies(known, result == old(self._streams)[stream_id] and lim.used == old(lim.used))",
        "implies(not known, count <= lim.value and lim.used == max(old(lim.used), count))",
        "lim.value == old(lim.value) and other.used == old(other.used) and other.value == old(other.value)",
        "self._local_max_data.used == old(self._local_max_data.used) and self._local_max_data.value == old(self._local_max_data.value)",
        "implies(not known, result.max_stream_data_local == (self._local_max_stream_data_uni if uni(stream_id) else self._local_max_stream_data_bidi_remote))",
        "implies(not known, result.receiver.highest_offset == 0)",
        # C06 (taken from the property: 'never exceeds the PEER's limits'): a stream the peer opened starts with the send limit the
        # peer advertised for streams IT initiates (its initial_max_stream_data_bidi_local; nothing can be sent on its uni streams)
        "implies(not known, result.max_stream_data_remote == (0 if uni(stream_id) else self._remote_max_stream_data_bidi_local))",
        "implies(known, result.max_stream_data_local == old(result.max_stream_data_local) and result.receiver.highest_offset == old(result.receiver.highest_offset))",
        # streams are only added; the streams that existed keep their identity and their send half (needed by the C16 clause of
        # the STOP_SENDING handler: a peer frame does not make another stream unwritable)
        "forall(lambda k: (k in self._streams) == (k in old(self._streams) or k == stream_id))",
        "forall(lambda k: implies(k in old(self._streams), self._streams[k] == old(self._streams)[k]))",
        "forall(lambda k: implies(k in old(self._streams) and pre_existing(old(self._streams)[k]), self._streams[k].sender == old(self._streams[k].sender)))",
    ],
    prop=["C07", "C06"],
)


# C07: STREAM frame acceptance.  FLOW_CONTROL_ERROR exactly when the frame ends beyond the stream's advertised
# limit or pushes the connection-wide total (sum of per-stream highest offsets) over the advertised MAX_DATA;
# FRAME_ENCODING_ERROR exactly when offset + length exceeds 2^62-1; FINAL_SIZE_ERROR exactly when the receive
# half refuses the frame; an accepted frame charges exactly its newly covered bytes to the connection total.
R.contract(
    "QuicConnection._handle_stream_frame",
    assume_pre=["conn_limits_distinct(self)", "self._local_max_data.used >= 0", "self._quic_logger is None or context.quic_logger_frames is not None"],
    ghost_at={
        "assigns:newly_received": {  # semantic anchor: just before the statement that computes the charge
            "g_h0": "stream.receiver.highest_offset",
            "g_fs0": "stream.receiver._final_size",
            "g_lim": "stream.max_stream_data_local",
            # every byte up to the final size was already delivered, i.e. the end of the stream was already signalled
            "g_done0": "stream.receiver._final_size is not None and stream.receiver._buffer_start == stream.receiver._final_size",
        }
    },
    raises={"BufferReadError": None, "StreamFinishedError": None, "QuicConnectionError": None},
    modifies=[],
    on_raise={
        "QuicConnectionError": [
            "exc_error_code == QuicErrorCode.FRAME_ENCODING_ERROR or exc_error_code == QuicErrorCode.STREAM_STATE_ERROR or exc_error_code == QuicErrorCode.STREAM_LIMIT_ERROR or exc_error_code == QuicErrorCode.FLOW_CONTROL_ERROR or exc_error_code == QuicErrorCode.FINAL_SIZE_ERROR",
            "implies(exc_error_code == QuicErrorCode.FRAME_ENCODING_ERROR, offset + length > 4611686018427387903)",
            "implies(exc_error_code == QuicErrorCode.FLOW_CONTROL_ERROR, offset + length > stream.max_stream_data_local or old(self._local_max_data.used) + max(0, offset + length - stream.receiver.highest_offset) > self._local_max_data.value)",
            "implies(exc_error_code == QuicErrorCode.FINAL_SIZE_ERROR, g_fs0 is not None and (offset + length > g_fs0 or (frame.fin and offset + length != g_fs0)))",
            "self._local_max_data.used == old(self._local_max_data.used) and self._local_max_data.value == old(self._local_max_data.value)",
        ],
    },
    ensures=[
        "offset + length <= 4611686018427387903",
        "offset + length <= g_lim and g_lim == stream.max_stream_data_local",
        "self._local_max_data.used == old(self._local_max_data.used) + max(0, offset + length - g_h0)",
        # C07 'a peer that stays within the advertised limits is never accused' (taken from the property, not from the code):
        # CONSERVATION - what is charged to the connection window is exactly the advance of this stream's high-water mark, so
        # that  used == SUM over streams of receiver.highest_offset  is preserved and a repeated frame (retransmission,
        # duplicated datagram) is charged nothing
        "self._local_max_data.used - old(self._local_max_data.used) == stream.receiver.highest_offset - g_h0",
        "self._local_max_data.used <= self._local_max_data.value and self._local_max_data.value == old(self._local_max_data.value)",
        "stream.receiver.highest_offset == max(g_h0, offset + length)",
        "not (g_fs0 is not None and (offset + length > g_fs0 or (frame.fin and offset + length != g_fs0)))",
        "frame.fin == (frame_type % 2 == 1)",
        "stream_id in self._streams and stream == self._streams[stream_id]",
        # C01 'end-of-stream is signalled at most once' (taken from the property, not from the code): a frame that arrives
        # after the stream's end was signalled - a retransmission or a duplicated datagram - produces no event; and one
        # frame produces at most one event, appended behind the events already queued
        "implies(g_done0, len(self._events) == old(len(self._events)))",
        "old(len(self._events)) <= len(self._events) <= old(len(self._events)) + 1",
        "forall(lambda k: implies(0 <= k < old(len(self._events)), at(self._events, k) == old(at(self._events, k))))",
    ],
    prop=["C07", "C01"],
)


# C07: RESET_STREAM acceptance: the final size is charged like data (bytes between the highest offset seen and the
# final size), FLOW_CONTROL_ERROR exactly when it lies beyond the stream's advertised limit or pushes the connection
# total over MAX_DATA, FINAL_SIZE_ERROR exactly when it contradicts an already fixed final size.
R.contract(
    "QuicConnection._handle_reset_stream_frame",
    assume_pre=["conn_limits_distinct(self)", "self._local_max_data.used >= 0", "self._quic_logger is None or context.quic_logger_frames is not None"],
    ghost_at={
        "assigns:newly_received": {  # semantic anchor: just before the statement that computes the charge
            "g_h0": "stream.receiver.highest_offset",
            "g_fs0": "stream.receiver._final_size",
            "g_lim": "stream.max_stream_data_local",
        }
    },
    raises={"BufferReadError": None, "StreamFinishedError": None, "QuicConnectionError": None},
    modifies=[],
    on_raise={
        "QuicConnectionError": [
            "exc_error_code == QuicErrorCode.STREAM_STATE_ERROR or exc_error_code == QuicErrorCode.STREAM_LIMIT_ERROR or exc_error_code == QuicErrorCode.FLOW_CONTROL_ERROR or exc_error_code == QuicErrorCode.FINAL_SIZE_ERROR",
            "implies(exc_error_code == QuicErrorCode.FLOW_CONTROL_ERROR, final_size > stream.max_stream_data_local or old(self._local_max_data.used) + max(0, final_size - stream.receiver.highest_offset) > self._local_max_data.value)",
            "implies(exc_error_code == QuicErrorCode.FINAL_SIZE_ERROR, g_fs0 is not None and final_size != g_fs0)",
            "self._local_max_data.used == old(self._local_max_data.used) and self._local_max_data.value == old(self._local_max_data.value)",
        ],
    },
    ensures=[
        "final_size <= g_lim and g_lim == stream.max_stream_data_local",
        "self._local_max_data.used == old(self._local_max_data.used) + max(0, final_size - g_h0)",
        # C07 'a peer that stays within the advertised limits is never accused' (taken from the property, not from the code):
        # CONSERVATION - what is charged to the connection window is exactly the advance of this stream's high-water mark, so
        # that  used == SUM over streams of receiver.highest_offset  is preserved and a repeated frame (retransmission,
        # duplicated datagram) is charged nothing
        "self._local_max_data.used - old(self._local_max_data.used) == stream.receiver.highest_offset - g_h0",
        "self._local_max_data.used <= self._local_max_data.value and self._local_max_data.value == old(self._local_max_data.value)",
        "not (g_fs0 is not None and final_size != g_fs0)",
        "stream.receiver._final_size == final_size and stream.receiver.is_finished",
        "stream_id in self._streams and stream == self._streams[stream_id]",
    ],
    prop=["C07"],
)

# C07: queued path challenges per path never exceed MAX_REMOTE_CHALLENGES (32); the cap is tested on the queue that is
# appended to; an accepted challenge is stored as the 8 bytes received.
R.contract(
    "QuicConnection._handle_path_challenge_frame",
    assume_pre=["self._quic_logger is None or context.quic_logger_frames is not None"],
    let={"q0": "context.network_path.remote_challenges", "n0": "len(context.network_path.remote_challenges)"},
    raises={"BufferReadError": None},
    modifies=[],
    ensures=[
        "len(context.network_path.remote_challenges) == (n0 + 1 if n0 < 32 else n0)",
        "implies(n0 <= 32, len(context.network_path.remote_challenges) <= 32)",
        "forall(lambda k: implies(0 <= k < n0, bytes_eq(at(context.network_path.remote_challenges, k), at(q0, k))))",
        "implies(n0 < 32, len(at(context.network_path.remote_challenges, n0)) == 8 and bytes_eq(at(context.network_path.remote_challenges, n0), data))",
        "forall(lambda p: implies(p != context.network_path, same(old(raw(p, 'remote_challenges')), raw(p, 'remote_challenges'))), types={'p': 'QuicNetworkPath'})",
    ],
    on_raise={"BufferReadError": ["len(context.network_path.remote_challenges) == n0"]},
    prop=["C07"],
)


# ------------------------------------------------------------------------------------------------ send side (C06, C01)
R.field_types("QuicStream", stream_id="Optional[int]")

# C06: the credit consumed by one STREAM frame is the growth of the stream's highest offset (0 for a retransmission),
# and the highest offset never passes max_offset (the smaller of the per-stream limit and what is left of the
# connection limit).  C01: a frame taken out of the send half is always written (no QuicPacketBuilderStop after
# get_frame), so a FIN-only frame cannot be lost between the stream and the packet.
R.contract(
    "QuicConnection._write_stream_frame",
    requires=[
        "stream.stream_id is not None and 0 <= stream.stream_id <= 4611686018427387903",
        "builder._packet is not None",
        "stream.sender._reset_error_code is None",
    ],
    # offsets are representable as QUIC varints (nobody writes 2^62 bytes to a stream); logger plumbing; no builder overrun so far
    assume_pre=["stream.sender._buffer_stop <= 4611686018427387903", "self._quic_logger is None or builder.quic_logger_frames is not None", "not builder.g_ovr"],
    returns="int",
    # C01 'again after loss': the range registered with the frame (what on_data_delivery will put back into the pending set
    # when the packet is lost, or count as acknowledged) is exactly the range get_frame took out of the send half, FIN included
    call_asserts={"QuicPacketBuilder.start_frame": [
        "arg_handler_args[0] == frame.offset",
        "arg_handler_args[1] == frame.offset + len(frame.data)",
        "arg_handler_args[2] == frame.fin",
        "arg_frame_type == 8 + 2 + (4 if frame.offset != 0 else 0) + (1 if frame.fin else 0)",
    ]},
    modifies=[
        "stream.sender._pending._RangeSet__ranges", "stream.sender._pending.gview", "stream.sender._pending.gidx",
        "stream.sender._pending_eof", "stream.sender.buffer_is_empty", "stream.sender.highest_offset",
        "builder._buffer.g_pos", "builder._buffer.g_mem", "QuicSentPacket.is_ack_eliciting[*]", "QuicSentPacket.in_flight[*]",
        "QuicSentPacket.is_crypto_packet[*]", "QuicSentPacket.delivery_handlers[*]",
    ],
    ensures=[
        "result == stream.sender.highest_offset - old(stream.sender.highest_offset)",
        "result >= 0",
        "stream.sender.highest_offset <= max(old(stream.sender.highest_offset), max_offset)",
        "self._remote_max_data_used == old(self._remote_max_data_used) and self._remote_max_data == old(self._remote_max_data)",
        "stream.max_stream_data_remote == old(stream.max_stream_data_remote)",
        # C01 "again after loss": bytes are put into the packet only together with a registered delivery handler (the one
        # that puts the range back into the pending set when the packet is lost)
        "implies(builder._buffer.g_pos != old(builder._buffer.g_pos), len(some(builder._packet).delivery_handlers) == old(len(some(builder._packet).delivery_handlers)) + 1)",
        "implies(builder._buffer.g_pos == old(builder._buffer.g_pos), len(some(builder._packet).delivery_handlers) == old(len(some(builder._packet).delivery_handlers)))",
        "builder._packet == old(builder._packet)",
    ],
    prop=["C06", "C01"],
)

# C06: MAX_STREAMS unblocks exactly the queued streams that are now below the limit (in queue order, stopping at the
# first one that is not), each getting the peer's initial per-stream limit.
R.contract(
    "QuicConnection._unblock_streams",
    let={
        "q0": "self._streams_blocked_uni if is_unidirectional else self._streams_blocked_bidi",
        "lim": "self._remote_max_streams_uni if is_unidirectional else self._remote_max_streams_bidi",
        "n0": "len(self._streams_blocked_uni if is_unidirectional else self._streams_blocked_bidi)",
    },
    requires=["forall(lambda k: implies(0 <= k < n0, at(q0, k).stream_id is not None))"],
    modifies=["self._streams_blocked_bidi", "self._streams_blocked_uni", "self._streams_blocked_pending", "QuicStream.is_blocked[*]", "QuicStream.max_stream_data_remote[*]"],
    loops={
        0: dict(
            invariant=[
                "0 <= len(streams_blocked) <= n0",
                "forall(lambda k: implies(0 <= k < len(streams_blocked), at(streams_blocked, k) == at(q0, k + n0 - len(streams_blocked))))",
                "forall(lambda k: implies(0 <= k < n0 - len(streams_blocked), some(at(q0, k).stream_id) // 4 < max_streams))",
                "forall(lambda k: implies(0 <= k < n0, at(q0, k).stream_id == old(at(q0, k).stream_id)))",
                "max_streams == lim",
                # (added for C05: the queue of the OTHER direction is not touched - needed where both are unblocked in a row)
                "implies(is_unidirectional, same(self._streams_blocked_bidi, old(self._streams_blocked_bidi))) and implies(not is_unidirectional, same(self._streams_blocked_uni, old(self._streams_blocked_uni)))",
            ],
            modifies=["QuicStream.is_blocked[*]", "QuicStream.max_stream_data_remote[*]", "self._streams_blocked_uni", "self._streams_blocked_bidi", "streams_blocked"],
            decreases="len(streams_blocked)",
        )
    },
    ensures=[
        # the streams taken off the queue are a prefix of it and every one of them is below the peer's stream-count limit
        "len(streams_blocked) <= n0",
        "forall(lambda k: implies(0 <= k < n0 - len(streams_blocked), some(at(q0, k).stream_id) // 4 < lim))",
        # the queue keeps the rest, in order; its head (if any) is NOT below the limit
        "forall(lambda k: implies(0 <= k < len(streams_blocked), at(streams_blocked, k) == at(q0, k + n0 - len(streams_blocked))))",
        "implies(len(streams_blocked) > 0, some(at(streams_blocked, 0).stream_id) // 4 >= lim)",
        "self._remote_max_streams_bidi == old(self._remote_max_streams_bidi) and self._remote_max_streams_uni == old(self._remote_max_streams_uni)",
        "implies(is_unidirectional, same(self._streams_blocked_bidi, old(self._streams_blocked_bidi))) and implies(not is_unidirectional, same(self._streams_blocked_uni, old(self._streams_blocked_uni)))",
    ],
    prop=["C06"],
)

# C06: limits announced by the peer only ever grow
R.contract(
    "QuicConnection._handle_max_data_frame",
    assume_pre=["self._quic_logger is None or context.quic_logger_frames is not None"],
    raises={"BufferReadError": None},
    modifies=["buf.g_pos", "self._remote_max_data", "context.quic_logger_frames"],
    ensures=["self._remote_max_data == max(old(self._remote_max_data), max_data)", "self._remote_max_data_used == old(self._remote_max_data_used)"],
    on_raise={"BufferReadError": ["self._remote_max_data == old(self._remote_max_data)"]},
    prop=["C06"],
)

R.contract(
    "QuicConnection._write_reset_stream_frame",
    requires=["builder._packet is not None", "stream.sender._reset_error_code is not None", "stream.sender._stream_id is not None and 0 <= stream.sender._stream_id <= 4611686018427387903",
              "0 <= stream.sender._reset_error_code"],
    assume_pre=["self._quic_logger is None or builder.quic_logger_frames is not None", "not builder.g_ovr", "stream.sender.highest_offset <= 4611686018427387903"],
    raises={"QuicPacketBuilderStop": None, "ValueError": "stream.sender._reset_error_code > 4611686018427387903"},
    modifies=["stream.sender.reset_pending", "builder._buffer.g_pos", "builder._buffer.g_mem", "QuicSentPacket.is_ack_eliciting[*]", "QuicSentPacket.in_flight[*]",
              "QuicSentPacket.is_crypto_packet[*]", "QuicSentPacket.delivery_handlers[*]"],
    ensures=[
        "not stream.sender.reset_pending",
        "stream.sender.highest_offset == old(stream.sender.highest_offset)",
        "builder._buffer.g_pos > old(builder._buffer.g_pos)",
    ],
    on_raise={"QuicPacketBuilderStop": ["stream.sender.reset_pending == old(stream.sender.reset_pending)", "builder._buffer.g_pos == old(builder._buffer.g_pos)"]},
    prop=["C06"],
)

# C06 (connection level), block contract on the per-stream sending decision inside _write_application's stream loop:
#   * credit: the connection-wide counter grows by exactly the growth of this stream's highest offset, stays within the
#     peer's MAX_DATA, and the stream's highest offset stays within the peer's per-stream limit;
#   * a stream that is blocked by the peer's stream-count limit puts NOTHING on the wire (the peer has not allowed it to
#     exist): no STREAM frame and no RESET_STREAM frame.
_STREAM_REGION_PRE = [
    "stream.stream_id is not None and 0 <= stream.stream_id <= 4611686018427387903 and stream.sender._stream_id == stream.stream_id",
    "builder._packet is not None",
    # connection invariant FC at region entry (established by the previous iterations / calls - assumed here)
    "self._remote_max_data_used <= self._remote_max_data",
    "stream.sender.highest_offset <= stream.max_stream_data_remote",
    "implies(stream.sender._reset_error_code is not None, 0 <= stream.sender._reset_error_code)",
    "implies(stream.sender.reset_pending, stream.sender._reset_error_code is not None)",
    "implies(stream.receiver.stop_pending, stream.receiver._stop_error_code is not None and 0 <= stream.receiver._stop_error_code and stream.receiver._stream_id == stream.stream_id)",
]
_STREAM_REGION = dict(
    region={"anchor": "if stream.is_blocked:", "span": 3},  # blocked-stream guard, STOP_SENDING, RESET_STREAM / STREAM
    params={"builder": "QuicPacketBuilder", "space": "QuicPacketSpace", "stream": "QuicStream", "sent": "set[QuicStream]"},
    # + visible-state class invariant of the send half (proved for every QuicStreamSender method)
    assume_pre=_STREAM_REGION_PRE + ["invariant_of(stream.sender)", "self._quic_logger is None or builder.quic_logger_frames is not None", "not builder.g_ovr",
                                      "stream.sender._buffer_stop <= 4611686018427387903", "stream.sender.highest_offset <= 4611686018427387903"],
    raises={"QuicPacketBuilderStop": None, "ValueError": None},
    on_raise={"QuicPacketBuilderStop": ["self._remote_max_data_used == old(self._remote_max_data_used)", "stream.sender.highest_offset == old(stream.sender.highest_offset)"]},
)
R.contract(
    "QuicConnection._write_application@stream_credit",
    ensures=[
        "self._remote_max_data_used - old(self._remote_max_data_used) == stream.sender.highest_offset - old(stream.sender.highest_offset)",
        "self._remote_max_data_used <= self._remote_max_data",
        "stream.sender.highest_offset <= stream.max_stream_data_remote",
        "stream.sender.highest_offset >= old(stream.sender.highest_offset)",
        "self._remote_max_data == old(self._remote_max_data) and stream.max_stream_data_remote == old(stream.max_stream_data_remote)",
        # a stream blocked by the peer's stream-count limit puts nothing on the wire: no STREAM, RESET_STREAM or STOP_SENDING
        "implies(old(stream.is_blocked), builder._buffer.g_pos == old(builder._buffer.g_pos) and stream.sender.highest_offset == old(stream.sender.highest_offset))",
    ],
    prop=["C06"],
    **_STREAM_REGION,
)

R.field_types("QuicStopSendingFrame", error_code="int", stream_id="int")
R.contract(
    "QuicStreamReceiver.get_stop_frame",
    requires=["self._stream_id is not None and self._stop_error_code is not None"],
    returns="QuicStopSendingFrame",
    modifies=["self.stop_pending"],
    ensures=["not self.stop_pending", "result.stream_id == self._stream_id and result.error_code == self._stop_error_code", "self.highest_offset == old(self.highest_offset)"],
    prop=["C06"],
)
R.contract(
    "QuicConnection._write_stop_sending_frame",
    requires=["builder._packet is not None", "stream.receiver._stream_id is not None and 0 <= stream.receiver._stream_id <= 4611686018427387903",
              "stream.receiver._stop_error_code is not None and 0 <= stream.receiver._stop_error_code"],
    assume_pre=["self._quic_logger is None or builder.quic_logger_frames is not None", "not builder.g_ovr"],
    raises={"QuicPacketBuilderStop": None, "ValueError": "stream.receiver._stop_error_code > 4611686018427387903"},
    modifies=["stream.receiver.stop_pending", "builder._buffer.g_pos", "builder._buffer.g_mem", "QuicSentPacket.is_ack_eliciting[*]", "QuicSentPacket.in_flight[*]",
              "QuicSentPacket.is_crypto_packet[*]", "QuicSentPacket.delivery_handlers[*]"],
    ensures=["not stream.receiver.stop_pending", "builder._buffer.g_pos > old(builder._buffer.g_pos)"],
    on_raise={"QuicPacketBuilderStop": ["stream.receiver.stop_pending == old(stream.receiver.stop_pending)", "builder._buffer.g_pos == old(builder._buffer.g_pos)"]},
    prop=["C06"],
)


# ------------------------------------------------------------------------------------------------ acknowledgements (C12), expected packet number (C02)
R.field_types("QuicPacketSpace", ack_at="Optional[float]", largest_received_time="Optional[float]", largest_received_packet="int", expected_packet_number="int", discarded="bool", ack_queue="RangeSet")

# C12 soundness + timeliness, block contract on the tail of receive_datagram (reached only after the packet was opened by
# the AEAD and its payload processed without a connection error): exactly this packet number joins the set to be
# acknowledged; an ack-eliciting packet arms the acknowledgement deadline at now + the (advertised) delay unless an
# earlier deadline is already pending - a pending deadline is never postponed.
R.contract(
    "QuicConnection.receive_datagram@record",
    region={"anchor": "writes:ack_at"},  # the statement (with its enclosing ifs) that arms the acknowledgement deadline
    params={"space": "QuicPacketSpace", "packet_number": "int", "now": "float", "is_ack_eliciting": "bool"},
    # time is monotone: a deadline armed by an earlier packet lies at or before now + delay; the numbers waiting to be
    # acknowledged never exceed the largest number recorded (inductive: re-established below, preserved by
    # _on_ack_delivery which only removes numbers)
    assume_pre=["packet_number >= 0", "invariant_of(space.ack_queue)", "self._ack_delay >= 0", "implies(space.ack_at is not None, some(space.ack_at) <= now + self._ack_delay)",
                "forall(lambda x: implies(space.ack_queue.gview[x], x <= space.largest_received_packet))"],
    let={"top": "max(space.largest_received_packet, packet_number)"},
    locals={"g_v1": "map[int,bool]", "g_n1": "int"},
    # snapshot after add(), before the forgetting loop
    ghost_at={"while len(space.ack_queue) > MAX_ACK_RANGES:": {"g_v1": "space.ack_queue.gview", "g_n1": "len(RL(space.ack_queue))"}},
    loops={0: dict(
        invariant=[
            "len(RL(space.ack_queue)) <= g_n1",
            "implies(g_n1 <= 32, forall(lambda x: space.ack_queue.gview[x] == g_v1[x]))",
            "forall(lambda x: implies(space.ack_queue.gview[x], old(space.ack_queue.gview)[x] or x == packet_number))",
            "forall(lambda x: implies(space.ack_queue.gview[x], x <= top))",
            "implies(packet_number == top, space.ack_queue.gview[packet_number])",
            "space.largest_received_packet == top",
            "invariant_of(space.ack_queue)",
        ],
        modifies=["space.ack_queue._RangeSet__ranges", "space.ack_queue.gview", "space.ack_queue.gidx"],
        decreases="len(RL(space.ack_queue))",
    )},
    ensures=[
        # C12 soundness: nothing but this packet's number joins the set to be acknowledged ...
        "forall(lambda x: implies(space.ack_queue.gview[x], old(space.ack_queue.gview)[x] or x == packet_number))",
        # ... it does join it whenever it carries the highest number received so far (older ranges may be forgotten when more
        # than MAX_ACK_RANGES ranges are tracked, RFC 9000 13.2.4 - never the newest one)
        "implies(not space.discarded and packet_number >= old(space.largest_received_packet), space.ack_queue.gview[packet_number])",
        # at most MAX_ACK_RANGES ranges are tracked, so an ACK frame always fits the room _write_ack_frame announces
        "implies(not space.discarded, len(RL(space.ack_queue)) <= 32)",
        # while that bound is not reached nothing is forgotten: the set is exactly old + this number
        "implies(not space.discarded and old(len(RL(space.ack_queue))) < 32, forall(lambda x: space.ack_queue.gview[x] == (old(space.ack_queue.gview)[x] or x == packet_number)))",
        "forall(lambda x: implies(space.ack_queue.gview[x], x <= space.largest_received_packet))",
        "implies(space.discarded, forall(lambda x: space.ack_queue.gview[x] == old(space.ack_queue.gview)[x]) and space.ack_at == old(space.ack_at))",
        "implies(not space.discarded and is_ack_eliciting, space.ack_at is not None and some(space.ack_at) <= now + self._ack_delay)",
        "implies(old(space.ack_at) is not None, space.ack_at is not None and some(space.ack_at) == some(old(space.ack_at)))",
        "implies(not is_ack_eliciting, space.ack_at == old(space.ack_at))",
        "implies(not space.discarded, space.largest_received_packet == max(old(space.largest_received_packet), packet_number))",
        "implies(not space.discarded and packet_number > old(space.largest_received_packet), space.largest_received_time == now)",
        "space.discarded == old(space.discarded)",
    ],
    prop=["C12"],
)

# C02: the reference for packet-number expansion only ever moves forward: max(previous, number of this authentic packet + 1)
R.contract(
    "QuicConnection.receive_datagram@expected_pn",
    region={"anchor": "writes:expected_packet_number"},
    params={"space": "QuicPacketSpace", "packet_number": "int"},
    ensures=["space.expected_packet_number >= old(space.expected_packet_number)",
             "space.expected_packet_number == max(old(space.expected_packet_number), packet_number + 1) or space.expected_packet_number == old(space.expected_packet_number)"],
    prop=["C02"],
)

# C12: an acknowledged ACK frame prunes exactly the packet numbers up to the largest number THAT FRAME acknowledged; a
# lost ACK frame prunes nothing (the ranges are acknowledged again)
R.contract(
    "QuicConnection._on_ack_delivery",
    requires=["highest_acked >= 0"],
    modifies=["space.ack_queue._RangeSet__ranges", "space.ack_queue.gview", "space.ack_queue.gidx"],
    ensures=[
        "implies(delivery == QuicDeliveryState.ACKED, forall(lambda x: space.ack_queue.gview[x] == (old(space.ack_queue.gview)[x] and not (0 <= x <= highest_acked))))",
        "implies(delivery != QuicDeliveryState.ACKED, forall(lambda x: space.ack_queue.gview[x] == old(space.ack_queue.gview)[x]))",
        "space.ack_at == old(space.ack_at)",
    ],
    prop=["C12"],
    frame=True,  # OPAQUE_CALL discharge: see contracts/quic_handlers.py
)


# ------------------------------------------------------------------------------------------------ writing ACK frames (C12, C13, C05)
R.field_types("QuicConnection", _local_ack_delay_exponent="int")

# PING (also the "ACK-of-ACK trigger"): one byte, one delivery handler
R.contract(
    "QuicConnection._write_ping_frame",
    params={"uids": "list[int]", "comment": "str"},
    requires=["builder._packet is not None"],
    assume_pre=["self._quic_logger is None or builder.quic_logger_frames is not None"],
    let={"pkt": "some(builder._packet)"},
    raises={"QuicPacketBuilderStop": None},
    on_raise={"QuicPacketBuilderStop": ["builder._buffer.g_pos == old(builder._buffer.g_pos)", "len(pkt.delivery_handlers) == old(len(pkt.delivery_handlers))"]},
    modifies=["builder._buffer.g_pos", "builder._buffer.g_mem", "QuicSentPacket.is_ack_eliciting[*]", "QuicSentPacket.in_flight[*]",
              "QuicSentPacket.is_crypto_packet[*]", "QuicSentPacket.delivery_handlers[*]"],
    ensures=["builder._buffer.g_pos == old(builder._buffer.g_pos) + 1", "pkt.is_ack_eliciting", "builder._packet == old(builder._packet)",
             "len(pkt.delivery_handlers) == old(len(pkt.delivery_handlers)) + 1"],
    prop=["C12"],
)

# C12 / C13 / C05: the ACK frame.  The room announced to the packet builder covers everything push_ack_frame writes
# (1 type byte + 4 varints + 2 varints per further range), so the builder's caller obligation "bytes pushed after
# start_frame stay within the announced capacity" holds and BufferWriteError cannot escape; the frame lists exactly the
# recorded ranges (push_ack_frame, proved at byte level under C17); the acknowledgement deadline is cleared only together
# with a written frame; the delivery handler that prunes the ranges once the ACK is itself acknowledged is registered.
R.contract(
    "QuicConnection._write_ack_frame",
    requires=["builder._packet is not None", "space.largest_received_time is not None"],
    assume_pre=[
        # established by receive_datagram@record (at most MAX_ACK_RANGES ranges, never empty once a packet was recorded) and
        # preserved by _on_ack_delivery, which removes a prefix [0, n] of the numbers (cannot add a range; the count clause of
        # subtract is not proved) - numbers are QUIC packet numbers
        "1 <= len(RL(space.ack_queue)) <= 32", "invariant_of(space.ack_queue)",
        "sel(RL(space.ack_queue), 0).start >= 0 and sel(RL(space.ack_queue), len(RL(space.ack_queue)) - 1).stop <= 4611686018427387904",
        # the clock: now is not before the arrival of the newest packet and less than 2^40 s after it; exponent is a transport
        # parameter in 0..20 (configuration)
        "now >= some(space.largest_received_time) and now - some(space.largest_received_time) <= 1099511627776",
        "0 <= self._local_ack_delay_exponent <= 20",
        "self._quic_logger is None or builder.quic_logger_frames is not None", "not builder.g_ovr",
        # the largest number received is the largest number waiting to be acknowledged: receive_datagram@record proves that no
        # waiting number exceeds it and that a packet carrying the highest number joins the set; that it is still waiting
        # when an ACK is written relies on the peer acknowledging our ACKs causally (in packets numbered above what the ACK
        # covered), as every real sender does - assumed
        "space.largest_received_packet == sel(RL(space.ack_queue), len(RL(space.ack_queue)) - 1).stop - 1",
    ],
    # C12 'an acknowledged ACK frame prunes exactly the numbers up to the largest number THAT FRAME carried': what is registered
    # with the frame is (this space, the largest number the frame lists) - _on_ack_delivery prunes [0, that number]
    call_asserts={"QuicPacketBuilder.start_frame": [
        "arg_handler_args[0] == space",
        "arg_handler_args[1] == sel(RL(space.ack_queue), len(RL(space.ack_queue)) - 1).stop - 1",
        "arg_frame_type == 2",
    ]},
    let={"pkt": "some(builder._packet)", "n_": "len(RL(space.ack_queue))"},
    raises={"QuicPacketBuilderStop": None},
    # refused before anything was written, or the ACK frame is in the packet and only the extra PING did not fit
    on_raise={"QuicPacketBuilderStop": ["(space.ack_at == old(space.ack_at) and builder._buffer.g_pos == old(builder._buffer.g_pos)) or (space.ack_at is None and builder._buffer.g_pos > old(builder._buffer.g_pos))",
                                        "same(RL(space.ack_queue), old(RL(space.ack_queue)))"]},
    modifies=["space.ack_at", "builder._buffer.g_pos", "builder._buffer.g_mem", "QuicSentPacket.is_ack_eliciting[*]", "QuicSentPacket.in_flight[*]",
              "QuicSentPacket.is_crypto_packet[*]", "QuicSentPacket.delivery_handlers[*]", "builder.quic_logger_frames"],
    ensures=[
        "space.ack_at is None",
        "same(RL(space.ack_queue), old(RL(space.ack_queue)))",
        "forall(lambda x: space.ack_queue.gview[x] == old(space.ack_queue.gview)[x])",
        # within the announced capacity (+ the optional one-byte PING)
        "builder._buffer.g_pos - old(builder._buffer.g_pos) <= 33 + 16 * (n_ - 1) + 1",
        "builder._buffer.g_pos > old(builder._buffer.g_pos)",
        "len(pkt.delivery_handlers) >= old(len(pkt.delivery_handlers)) + 1",
        "builder._packet == old(builder._packet)",
    ],
    prop=["C12", "C13", "C05"],
)


# ------------------------------------------------------------------------------------------------ "only authentic packets" placement (C02, C12, C09)
# Every effect receive_datagram has on protocol state on behalf of a packet's CONTENT happens only after
# CryptoPair.decrypt_packet returned normally for that packet (AEAD opened it; contracts/quic_crypto.py, c_crypto.py): the
# payload is handed to the frame dispatcher, the packet number is recorded for acknowledgement, the reference for
# packet-number expansion moves, the idle deadline is re-armed, keys / spaces are discarded and the spin bit and peer
# address bookkeeping change only then.  Decided on the control-flow structure of the current source (engine/dominance.py);
# this is what the block contracts receive_datagram@record / @expected_pn assume at their entry.
R.dominance(
    "receive_datagram.after_auth",
    function="quic/connection.py::QuicConnection.receive_datagram",
    after="calls:decrypt_packet",
    sites=["calls:_payload_received", "writes:ack_at", "writes:expected_packet_number", "writes:largest_received_packet", "writes:largest_received_time",
           "writes:_close_at", "calls:_discard_epoch", "writes:_spin_bit", "writes:_spin_highest_pn", "calls:change_connection_id", "writes:is_validated"],
    expect={"calls:_payload_received": 1, "writes:ack_at": 1, "writes:expected_packet_number": 1, "writes:_close_at": 1, "writes:largest_received_packet": 1},
    # C09 T1: the FIRST datagram arms the idle deadline (only when none exists); it never postpones an existing one
    exempt={"writes:_close_at": ["self._close_at is None"]},
    exempt_note="arming the idle deadline when there is none is what C09 requires of the first datagram; it cannot postpone termination",
    prop=["C02", "C12", "C09"],
)


# ------------------------------------------------------------------------------------------------ frame fully parsed before a stream lookup (C01, C05)
# The frame dispatcher ignores StreamFinishedError ("we lack the state for the stream, ignore the frame") and continues
# parsing the packet payload at the buffer position the handler left.  That is sound only if a handler has consumed its
# WHOLE frame before the stream lookup that can raise it: otherwise the rest of the frame (peer-chosen stream bytes) is
# parsed as QUIC frames and a duplicated / late datagram for a forgotten stream closes the connection with a protocol error
# (C01 sentence 2) or worse.  Decided on the control-flow structure of each handler: no pull from the frame buffer can be
# executed after _get_or_create_stream may have been called (engine/dominance.py, mode none_after).
for _h, _n in (("_handle_stream_frame", {"calls:pull_uint_var": 3, "calls:pull_bytes": 1}), ("_handle_reset_stream_frame", {"calls:pull_uint_var": 3}),
               ("_handle_max_stream_data_frame", {"calls:pull_uint_var": 2}), ("_handle_stop_sending_frame", {"calls:pull_uint_var": 2}),
               ("_handle_stream_data_blocked_frame", {"calls:pull_uint_var": 2})):
    R.dominance(
        "%s.parsed_before_lookup" % _h,
        function="quic/connection.py::QuicConnection.%s" % _h,
        mode="none_after",
        after="calls:_get_or_create_stream",
        sites=["calls:pull_uint_var", "calls:pull_bytes", "calls:pull_uint8", "calls:pull_uint16", "calls:pull_uint32", "calls:pull_uint64"],
        expect=_n,
        prop=["C01", "C05"],
    )
