# Sidecar contracts for src/aioquic/quic/connection.py  (R is injected by the loader)
#
# Receive-side limit enforcement (C07), send-side credit (C06), connection-ID lifecycle (C18).
# Invariants that QuicConnection.__init__ establishes but that are not re-proved here are stated as
# `assume_pre` (listed in evidence as assumed preconditions).

R.field_types(
    "QuicConnection",
    _is_client="bool",
    _ack_delay="float",
    _host_cids="list[QuicConnectionId]",
    host_cid="bytes",
    _local_initial_source_connection_id="bytes",
    _local_max_stream_data_bidi_local="int",
    _local_max_stream_data_bidi_remote="int",
    _local_max_stream_data_uni="int",
    _local_next_stream_id_bidi="int",
    _local_next_stream_id_uni="int",
    _max_datagram_size="int",
    _peer_token="bytes",
    _events="list[QuicEvent]",
)
R.field_types("QuicNetworkPath", addr="Any")
R.field_types("QuicPacketSpace", largest_received_packet="int")
R.field_types("StreamDataReceived", data="bytes", end_stream="bool", stream_id="int")
R.type_aliases["NetworkAddress"] = "Any"
R.opaque_types.add("QuicEvent") if False else None

UINT_VAR_MAX = 0x3FFFFFFFFFFFFFFF

# qlog encoders: results are opaque JSON-ish values stored only in logger-owned lists (C20 territory)
for _m in (
    "encode_ack_frame encode_connection_close_frame encode_connection_limit_frame encode_crypto_frame encode_data_blocked_frame "
    "encode_datagram_frame encode_handshake_done_frame encode_max_stream_data_frame encode_new_connection_id_frame encode_new_token_frame "
    "encode_padding_frame encode_path_challenge_frame encode_path_response_frame encode_ping_frame encode_reset_stream_frame "
    "encode_retire_connection_id_frame encode_stream_data_blocked_frame encode_stop_sending_frame encode_stream_frame encode_streams_blocked_frame"
).split():
    R.contract("QuicLoggerTrace." + _m, trusted=True, returns="Any", note="qlog encoder: assumed total and side-effect free (not verified here)")

R.contract("stream_is_client_initiated", inline=True)
R.contract("stream_is_unidirectional", inline=True)
R.contract("QuicConnection._stream_can_receive", inline=True)
R.contract("QuicConnection._stream_can_send", inline=True)
R.contract("QuicConnection._assert_stream_can_receive", inline=True)
R.contract("QuicConnection._assert_stream_can_send", inline=True)
R.contract("QuicStream.__init__", inline=True)
R.contract("Limit.__init__", inline=True)

R.spec(
    """
def uni(sid):
    return (sid // 2) % 2 == 1

def client_initiated(sid):
    return sid % 2 == 0

def conn_limits_distinct(c):
    return c._local_max_data != c._local_max_streams_bidi and c._local_max_data != c._local_max_streams_uni and c._local_max_streams_bidi != c._local_max_streams_uni
"""
)

# C07: a stream id beyond the advertised stream-count limit is refused with STREAM_LIMIT_ERROR and only then
# (wrong-initiator ids with STREAM_STATE_ERROR); a new stream gets the advertised per-direction data limit.
R.contract(
    "QuicConnection._get_or_create_stream",
    requires=["stream_id >= 0"],
    assume_pre=["conn_limits_distinct(self)"],
    let={
        "lim": "self._local_max_streams_uni if uni(stream_id) else self._local_max_streams_bidi",
        "other": "self._local_max_streams_bidi if uni(stream_id) else self._local_max_streams_uni",
        "count": "stream_id // 4 + 1",
        "known": "stream_id in self._streams",
    },
    returns="QuicStream",
    raises={
        "StreamFinishedError": "stream_id in self._streams_finished",
        "QuicConnectionError": "stream_id not in self._streams_finished and not known and (client_initiated(stream_id) == self._is_client or count > lim.value)",
    },
    raise_attrs={"QuicConnectionError": {"error_code": "QuicErrorCode.STREAM_STATE_ERROR if client_initiated(stream_id) == self._is_client else QuicErrorCode.STREAM_LIMIT_ERROR"}},
    on_raise={
        "QuicConnectionError": [
            "exc_error_code == (QuicErrorCode.STREAM_STATE_ERROR if client_initiated(stream_id) == self._is_client else QuicErrorCode.STREAM_LIMIT_ERROR)",
            "lim.used == old(lim.used) and other.used == old(other.used)",
            "self._local_max_data.used == old(self._local_max_data.used) and self._local_max_data.value == old(self._local_max_data.value)",
        ],
        "StreamFinishedError": ["self._local_max_data.used == old(self._local_max_data.used) and self._local_max_data.value == old(self._local_max_data.value)"],
    },
    modifies=["self._streams", "self._streams_queue", "Limit.used[*]", "QuicStream.max_stream_data_local[*]", "QuicStream.max_stream_data_remote[*]", "QuicStream.max_stream_data_local_sent[*]", "QuicStream.receiver[*]", "QuicStream.sender[*]", "QuicStream.is_blocked[*]", "QuicStream.stream_id[*]", "QuicStreamReceiver.highest_offset[*]"],
    ensures=[
        "stream_id in self._streams and result == self._streams[stream_id]",
        "implies(known, result == old(self._streams)[stream_id] and lim.used == old(lim.used))",
        "implies(not known, count <= lim.value and lim.used == max(old(lim.used), count))",
        "lim.value == old(lim.value) and other.used == old(other.used) and other.value == old(other.value)",
        "self._local_max_data.used == old(self._local_max_data.used) and self._local_max_data.value == old(self._local_max_data.value)",
        "implies(not known, result.max_stream_data_local == (self._local_max_stream_data_uni if uni(stream_id) else self._local_max_stream_data_bidi_remote))",
        "implies(not known, result.receiver.highest_offset == 0)",
        "implies(known, result.max_stream_data_local == old(result.max_stream_data_local) and result.receiver.highest_offset == old(result.receiver.highest_offset))",
    ],
    prop=["C07"],
)


# C07: STREAM frame acceptance.  FLOW_CONTROL_ERROR exactly when the frame ends beyond the stream's advertised
# limit or pushes the connection-wide total (sum of per-stream highest offsets) over the advertised MAX_DATA;
# FRAME_ENCODING_ERROR exactly when offset + length exceeds 2^62-1; FINAL_SIZE_ERROR exactly when the receive
# half refuses the frame; an accepted frame charges exactly its newly covered bytes to the connection total.
R.contract(
    "QuicConnection._handle_stream_frame",
    assume_pre=["conn_limits_distinct(self)", "self._local_max_data.used >= 0", "self._quic_logger is None or context.quic_logger_frames is not None"],
    ghost_at={
        "newly_received = max(0, offset + length - stream.receiver.highest_offset)": {
            "g_h0": "stream.receiver.highest_offset",
            "g_fs0": "stream.receiver._final_size",
            "g_lim": "stream.max_stream_data_local",
        }
    },
    raises={"BufferReadError": None, "StreamFinishedError": None, "QuicConnectionError": None},
    modifies=[],
    on_raise={
        "QuicConnectionError": [
            "exc_error_code == QuicErrorCode.FRAME_ENCODING_ERROR or exc_error_code == QuicErrorCode.STREAM_STATE_ERROR or exc_error_code == QuicErrorCode.STREAM_LIMIT_ERROR or exc_error_code == QuicErrorCode.FLOW_CONTROL_ERROR or exc_error_code == QuicErrorCode.FINAL_SIZE_ERROR",
            "implies(exc_error_code == QuicErrorCode.FRAME_ENCODING_ERROR, offset + length > 4611686018427387903)",
            "implies(exc_error_code == QuicErrorCode.FLOW_CONTROL_ERROR, offset + length > stream.max_stream_data_local or old(self._local_max_data.used) + max(0, offset + length - stream.receiver.highest_offset) > self._local_max_data.value)",
            "implies(exc_error_code == QuicErrorCode.FINAL_SIZE_ERROR, g_fs0 is not None and (offset + length > g_fs0 or (frame.fin and offset + length != g_fs0)))",
            "self._local_max_data.used == old(self._local_max_data.used) and self._local_max_data.value == old(self._local_max_data.value)",
        ],
    },
    ensures=[
        "offset + length <= 4611686018427387903",
        "offset + length <= g_lim and g_lim == stream.max_stream_data_local",
        "self._local_max_data.used == old(self._local_max_data.used) + max(0, offset + length - g_h0)",
        "self._local_max_data.used <= self._local_max_data.value and self._local_max_data.value == old(self._local_max_data.value)",
        "stream.receiver.highest_offset == max(g_h0, offset + length)",
        "not (g_fs0 is not None and (offset + length > g_fs0 or (frame.fin and offset + length != g_fs0)))",
        "frame.fin == (frame_type % 2 == 1)",
        "stream_id in self._streams and stream == self._streams[stream_id]",
    ],
    prop=["C07"],
)


# C07: RESET_STREAM acceptance: the final size is charged like data (bytes between the highest offset seen and the
# final size), FLOW_CONTROL_ERROR exactly when it lies beyond the stream's advertised limit or pushes the connection
# total over MAX_DATA, FINAL_SIZE_ERROR exactly when it contradicts an already fixed final size.
R.contract(
    "QuicConnection._handle_reset_stream_frame",
    assume_pre=["conn_limits_distinct(self)", "self._local_max_data.used >= 0", "self._quic_logger is None or context.quic_logger_frames is not None"],
    ghost_at={
        "newly_received = max(0, final_size - stream.receiver.highest_offset)": {
            "g_h0": "stream.receiver.highest_offset",
            "g_fs0": "stream.receiver._final_size",
            "g_lim": "stream.max_stream_data_local",
        }
    },
    raises={"BufferReadError": None, "StreamFinishedError": None, "QuicConnectionError": None},
    modifies=[],
    on_raise={
        "QuicConnectionError": [
            "exc_error_code == QuicErrorCode.STREAM_STATE_ERROR or exc_error_code == QuicErrorCode.STREAM_LIMIT_ERROR or exc_error_code == QuicErrorCode.FLOW_CONTROL_ERROR or exc_error_code == QuicErrorCode.FINAL_SIZE_ERROR",
            "implies(exc_error_code == QuicErrorCode.FLOW_CONTROL_ERROR, final_size > stream.max_stream_data_local or old(self._local_max_data.used) + max(0, final_size - stream.receiver.highest_offset) > self._local_max_data.value)",
            "implies(exc_error_code == QuicErrorCode.FINAL_SIZE_ERROR, g_fs0 is not None and final_size != g_fs0)",
            "self._local_max_data.used == old(self._local_max_data.used) and self._local_max_data.value == old(self._local_max_data.value)",
        ],
    },
    ensures=[
        "final_size <= g_lim and g_lim == stream.max_stream_data_local",
        "self._local_max_data.used == old(self._local_max_data.used) + max(0, final_size - g_h0)",
        "self._local_max_data.used <= self._local_max_data.value and self._local_max_data.value == old(self._local_max_data.value)",
        "not (g_fs0 is not None and final_size != g_fs0)",
        "stream.receiver._final_size == final_size and stream.receiver.is_finished",
        "stream_id in self._streams and stream == self._streams[stream_id]",
    ],
    prop=["C07"],
)

# C07: queued path challenges per path never exceed MAX_REMOTE_CHALLENGES (32); the cap is tested on the queue that is
# appended to; an accepted challenge is stored as the 8 bytes received.
R.contract(
    "QuicConnection._handle_path_challenge_frame",
    assume_pre=["self._quic_logger is None or context.quic_logger_frames is not None"],
    let={"q0": "context.network_path.remote_challenges", "n0": "len(context.network_path.remote_challenges)"},
    raises={"BufferReadError": None},
    modifies=[],
    ensures=[
        "len(context.network_path.remote_challenges) == (n0 + 1 if n0 < 32 else n0)",
        "implies(n0 <= 32, len(context.network_path.remote_challenges) <= 32)",
        "forall(lambda k: implies(0 <= k < n0, bytes_eq(at(context.network_path.remote_challenges, k), at(q0, k))))",
        "implies(n0 < 32, len(at(context.network_path.remote_challenges, n0)) == 8 and bytes_eq(at(context.network_path.remote_challenges, n0), data))",
        "forall(lambda p: implies(p != context.network_path, same(old(raw(p, 'remote_challenges')), raw(p, 'remote_challenges'))), types={'p': 'QuicNetworkPath'})",
    ],
    on_raise={"BufferReadError": ["len(context.network_path.remote_challenges) == n0"]},
    prop=["C07"],
)
