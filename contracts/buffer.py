# Sidecar contracts for src/aioquic/buffer.py  (R is injected by the loader)

# RFC 9000 §16: the size is the smallest of 1/2/4/8 whose 8n-2 usable bits hold the value;
# values above 2^62-1 are refused with ValueError (and only those).
R.contract(
    "size_uint_var",
    requires=["value >= 0"],
    raises={"ValueError": "value > 2 ** 62 - 1"},
    returns="int",
    ensures=[
        "result == 1 or result == 2 or result == 4 or result == 8",
        "value < 2 ** (8 * result - 2)",
        "implies(result == 2, value >= 2 ** 6)",
        "implies(result == 4, value >= 2 ** 14)",
        "implies(result == 8, value >= 2 ** 30)",
    ],
    prop=["C17"],
)
