# Sidecar contracts for src/aioquic/h3/connection.py  (R is injected by the loader)

R.spec(
    """
def h3_bad_name_char(c, i):
    return c <= 0x20 or (0x41 <= c <= 0x5A) or c >= 0x7F or (c == 0x3A and i != 0)

def h3_ws(c):
    return c == 0x20 or c == 0x09

def h3_name_bad(x):
    "some byte of the name is a control / space (<= 0x20), upper-case, DEL / non-ASCII (>= 0x7F) or a non-initial colon"
    return exists(lambda i: 0 <= i < len(x) and h3_bad_name_char(elem(x, i), i))

def h3_value_bad(v):
    "the value contains NUL / CR / LF, or starts or ends with SP / HTAB"
    return exists(lambda i: 0 <= i < len(v) and (elem(v, i) == 0 or elem(v, i) == 0x0A or elem(v, i) == 0x0D)) or (len(v) > 0 and (h3_ws(elem(v, 0)) or h3_ws(elem(v, len(v) - 1))))
"""
)

# C15: a header name is accepted exactly when every byte is a visible ASCII character that is
# not upper case, and a colon appears at most as the first byte.
R.contract(
    "validate_header_name",
    params={"key": "bytes"},
    raises={"MessageError": "h3_name_bad(key)"},
    loops={
        0: dict(
            invariant=[
                "0 <= _i0 <= len(key)",
                "forall(lambda k: implies(0 <= k < _i0, not h3_bad_name_char(elem(key, k), k)))",
            ],
        )
    },
    prop=["C15"],
)

# C15: a header value is accepted exactly when it has no NUL / CR / LF and neither starts nor
# ends with SP / HTAB.
R.contract(
    "validate_header_value",
    params={"key": "bytes", "value": "bytes"},
    raises={
        "MessageError": "h3_value_bad(value)"
    },
    loops={
        0: dict(
            invariant=[
                "0 <= _i0 <= len(value)",
                "forall(lambda k: implies(0 <= k < _i0, not (elem(value, k) == 0 or elem(value, k) == 0x0A or elem(value, k) == 0x0D)))",
            ],
        )
    },
    prop=["C15"],
)
