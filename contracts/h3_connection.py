# Sidecar contracts for src/aioquic/h3/connection.py  (R is injected by the loader)

R.spec(
    """
def h3_bad_name_char(c, i):
    return c <= 0x20 or (0x41 <= c <= 0x5A) or c >= 0x7F or (c == 0x3A and i != 0)

def h3_ws(c):
    return c == 0x20 or c == 0x09
"""
)

# C15: a header name is accepted exactly when every byte is a visible ASCII character that is
# not upper case, and a colon appears at most as the first byte.
R.contract(
    "validate_header_name",
    params={"key": "bytes"},
    raises={"MessageError": "exists(lambda i: 0 <= i < len(key) and h3_bad_name_char(key[i], i))"},
    loops={
        0: dict(
            invariant=[
                "0 <= _i0 <= len(key)",
                "forall(lambda k: implies(0 <= k < _i0, not h3_bad_name_char(key[k], k)))",
            ],
        )
    },
    prop=["C15"],
)

# C15: a header value is accepted exactly when it has no NUL / CR / LF and neither starts nor
# ends with SP / HTAB.
R.contract(
    "validate_header_value",
    params={"key": "bytes", "value": "bytes"},
    raises={
        "MessageError": "exists(lambda i: 0 <= i < len(value) and (value[i] == 0 or value[i] == 0x0A or value[i] == 0x0D)) or (len(value) > 0 and (h3_ws(value[0]) or h3_ws(value[len(value) - 1])))"
    },
    loops={
        0: dict(
            invariant=[
                "0 <= _i0 <= len(value)",
                "forall(lambda k: implies(0 <= k < _i0, not (value[k] == 0 or value[k] == 0x0A or value[k] == 0x0D)))",
            ],
        )
    },
    prop=["C15"],
)
